#!/bin/bash
# run_seeded.sh [tier] : apply every seeded change in /verif/seeded to /repo in turn, run the
# property's check, restore /repo. A seeded change must be reported (exit 1 with a VIOLATION
# line); prints one line per change and exits non-zero if any was missed.
TIER=${1:-quick}
cd /repo && git diff --quiet || { echo "/repo not clean"; exit 2; }
mkdir -p /tmp/seeded-logs
MISSED=0
for d in /verif/seeded/*/; do
  name=$(basename $d); P=${name%%-*}
  git -C /repo apply "$d/patch.diff" || { echo "$name: patch does not apply"; MISSED=1; continue; }
  ( cd /verif && timeout 7200 bin/check $P --tier $TIER > /tmp/seeded-logs/$name.$TIER.log 2>&1 ); RC=$?
  git -C /repo checkout -- .
  V=$(grep -m1 "violation in" /tmp/seeded-logs/$name.$TIER.log | cut -c1-160)
  if [ $RC -eq 1 ]; then echo "$name: caught ($TIER) $V"; else echo "$name: NOT caught, exit=$RC"; MISSED=1; fi
done
rm -rf /tmp/seeded-logs
exit $MISSED
