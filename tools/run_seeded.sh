#!/bin/bash
# run_seeded.sh [tier] [name-filter] : apply every seeded change in seeded/ to the repository in turn,
# run the check of its property (meta.json: property, or check_properties when the change is
# reported by other properties' checks), restore the repository. A seeded change must be reported
# (exit 1 with a VIOLATION line) by at least one of them; prints one line per change and exits
# non-zero if any was missed.
# By default the repository is /repo and the checks are /verif's. Under `vp run --with-repo` the
# snapshot of /repo ($VP_RUN_REPO) and the snapshot of /verif (the current directory) are used, so
# that /repo itself is left alone.
TIER=${1:-quick}; FILTER=${2:-}
export GOFLAGS=-mod=mod GOPROXY=off GOSUMDB=off GOTOOLCHAIN=local
V=/verif; R=/repo
if [ -n "$VP_RUN_REPO" ]; then
  V=$PWD; R=$VP_RUN_REPO
  make setup >/dev/null 2>&1 || { echo "setup failed"; exit 2; }
  export VERIF_DIR=$V VERIF_REPO=$R
fi
git -C $R diff --quiet || { echo "$R not clean"; exit 2; }
L=$(mktemp -d /tmp/seeded-logs.XXXX)
export VERIF_EVIDENCE_DIR=$L/evidence   # evidence of runs against a changed tree is not evidence about /repo
MISSED=0
for d in $V/seeded/*/; do
  name=$(basename $d)
  [ -n "$FILTER" ] && [[ "$name" != *$FILTER* ]] && continue
  grep -q "\"obsolete\"" $d/meta.json && { echo "$name: skipped (obsolete)"; continue; }
  PROPS=$(python3 -c "import json,sys; m=json.load(open('$d/meta.json')); print(' '.join(m.get('check_properties',[m['property']])))")
  git -C $R apply "$d/patch.diff" || { echo "$name: patch does not apply"; MISSED=1; continue; }
  CAUGHT=""
  for P in $PROPS; do
    ( cd $V && timeout 7200 bin/check $P --tier $TIER > $L/$name.$P.log 2>&1 ); RC=$?
    if [ $RC -eq 1 ]; then CAUGHT="$CAUGHT $P: $(grep -m1 'violation in' $L/$name.$P.log | cut -c1-150)"; else CAUGHT="$CAUGHT $P: exit=$RC;"; fi
    [ $RC -eq 1 ] && break
  done
  git -C $R checkout -- .
  if [[ "$CAUGHT" == *"violation in"* ]]; then echo "$name: caught ($TIER)$CAUGHT"; else echo "$name: NOT caught$CAUGHT"; MISSED=1; fi
done
rm -rf $L
exit $MISSED
