#!/bin/bash
# run_seeded.sh [tier] [name-filter] : apply every seeded change in /verif/seeded to /repo in turn,
# run the check of its property (meta.json: property, or check_properties when the change is
# reported by other properties' checks), restore /repo. A seeded change must be reported (exit 1
# with a VIOLATION line) by at least one of them; prints one line per change and exits non-zero if
# any was missed.
TIER=${1:-quick}; FILTER=${2:-}
cd /repo && git diff --quiet || { echo "/repo not clean"; exit 2; }
mkdir -p /tmp/seeded-logs
MISSED=0
for d in /verif/seeded/*/; do
  name=$(basename $d)
  [ -n "$FILTER" ] && [[ "$name" != *$FILTER* ]] && continue
  grep -q "\"obsolete\"" $d/meta.json && { echo "$name: skipped (obsolete)"; continue; }
  PROPS=$(python3 -c "import json,sys; m=json.load(open('$d/meta.json')); print(' '.join(m.get('check_properties',[m['property']])))")
  git -C /repo apply "$d/patch.diff" || { echo "$name: patch does not apply"; MISSED=1; continue; }
  CAUGHT=""
  for P in $PROPS; do
    ( cd /verif && timeout 7200 bin/check $P --tier $TIER > /tmp/seeded-logs/$name.$P.log 2>&1 ); RC=$?
    if [ $RC -eq 1 ]; then CAUGHT="$CAUGHT $P: $(grep -m1 'violation in' /tmp/seeded-logs/$name.$P.log | cut -c1-150)"; else CAUGHT="$CAUGHT $P: exit=$RC;"; fi
  done
  git -C /repo checkout -- .
  if [[ "$CAUGHT" == *"violation in"* ]]; then echo "$name: caught ($TIER)$CAUGHT"; else echo "$name: NOT caught$CAUGHT"; MISSED=1; fi
done
rm -rf /tmp/seeded-logs
exit $MISSED
