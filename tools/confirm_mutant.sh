#!/bin/bash
# confirm_mutant.sh <PROP> <worktree> <demo-package-dir> [demo build tags]
# Confirms a seeded change in its scratch worktree: builds, existing suite passes with the
# change, the demonstration fails with the change and passes without it. The internal/jobs and
# internal/server suites use fixed ports (7777, 25555): they run under a lock so that several
# confirmations can go on at once.
set -u
export GOFLAGS=-mod=mod GOPROXY=off GOSUMDB=off GOTOOLCHAIN=local
P=$1; W=$2; PKG=$3; TAGS=${4:-}
LOCK=/tmp/mut/port.lock
cd "$W" || exit 2
rm -rf /tmp/mut/$P.MUTANT && cp -r MUTANT /tmp/mut/$P.MUTANT
git checkout -q -- . ; git clean -fdq -e MUTANT
if ! git apply --check MUTANT/patch.diff; then echo "PATCH DOES NOT APPLY"; exit 2; fi
git apply MUTANT/patch.diff
echo "== build"; go build ./... || { echo BUILD-FAIL; exit 2; }
echo "== existing suite with the change"
suite() {
  OTHERS=$(go list ./internal/... | grep -v "internal/jobs$\|internal/server$")
  go test -vet=off -count=1 -timeout 25m $OTHERS 2>&1 | grep -v "no test files" | tail -12
  flock $LOCK go test -vet=off -count=1 -timeout 12m -p 1 ./internal/jobs ./internal/server 2>&1 | grep -v "no test files" | tail -6
}
suite > /tmp/mut/$P.suite.log
cat /tmp/mut/$P.suite.log
if grep -q "^FAIL\|^--- FAIL" /tmp/mut/$P.suite.log; then echo "SUITE-FAIL (rerun once for flaky network tests)"; suite | tee /tmp/mut/$P.suite.log; fi
cp MUTANT/demo_test.go $PKG/zz_mutant_demo_test.go
T=""; [ -n "$TAGS" ] && T="-tags $TAGS"
echo "== demo with the change (expect FAIL)"
go test -vet=off -count=1 -timeout 10m $T -run 'Demo|Mutant|C[0-9][0-9]' ./$PKG/ 2>&1 | tail -5
git apply -R MUTANT/patch.diff
echo "== demo without the change (expect ok)"
go test -vet=off -count=1 -timeout 10m $T -run 'Demo|Mutant|C[0-9][0-9]' ./$PKG/ 2>&1 | tail -3
rm -f $PKG/zz_mutant_demo_test.go
