#!/usr/bin/env python3
"""save_mutant.py <PROP> <name> <worktree> <demo pkg dir> <needs> : copy a confirmed seeded change into /verif/seeded/<name>/"""
import sys, os, shutil, json
prop, name, wt, pkg, needs = sys.argv[1:6]
d = f"/verif/seeded/{name}"
os.makedirs(d, exist_ok=True)
shutil.copy(f"{wt}/MUTANT/patch.diff", f"{d}/patch.diff")
shutil.copy(f"{wt}/MUTANT/demo_test.go", f"{d}/demo_test.go")
if os.path.exists(f"{wt}/MUTANT/notes.md"):
    shutil.copy(f"{wt}/MUTANT/notes.md", f"{d}/notes.md")
confirm = open(f"/tmp/mut/{prop}.confirm.log").read() if os.path.exists(f"/tmp/mut/{prop}.confirm.log") else ""
meta = {"property": prop, "demo_package_dir": pkg, "needs_to_manifest": needs,
        "confirmed": "tools/confirm_mutant.sh: go build ok; `go test ./internal/...` passes with the change; the demonstration fails with the change and passes without it",
        "confirm_log_tail": confirm[-1500:], "checks": []}
mp = f"{d}/meta.json"
if os.path.exists(mp):
    old = json.load(open(mp)); meta["checks"] = old.get("checks", [])
json.dump(meta, open(mp, "w"), indent=1)
print("saved", d)
