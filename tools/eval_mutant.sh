#!/bin/bash
# eval_mutant.sh <PROP> <patch.diff> [tier] [--only X] : apply a seeded change to /repo, run the
# check, restore /repo. Prints the check's verdict lines.
P=$1; PATCH=$2; TIER=${3:-quick}; shift 3 2>/dev/null
cd /repo && git diff --quiet || { echo "/repo not clean"; exit 2; }
git -C /repo apply "$PATCH" || { echo "patch does not apply to /repo"; exit 2; }
export VERIF_EVIDENCE_DIR=/tmp/mut/evidence-scratch   # not evidence about /repo itself
cd /verif && timeout 3600 bin/check $P --tier $TIER "$@" > /tmp/mut/$P.check.$TIER.log 2>&1; RC=$?
git -C /repo checkout -- . 
echo "exit=$RC"; grep -h "VIOLATION\|violation in\|INCONCLUSIVE\|KNOWN-FINDING\|tier=" /tmp/mut/$P.check.$TIER.log | cut -c1-420
