#!/bin/bash
# thorough_all.sh : run the thorough tier of every property in the current directory's
# snapshot (used with `vp run --with-repo`), one line per property.
export GOFLAGS=-mod=mod GOPROXY=off GOSUMDB=off GOTOOLCHAIN=local
make setup >/dev/null 2>&1 || { echo "setup failed"; exit 2; }
export VERIF_DIR=$PWD
[ -n "$VP_RUN_REPO" ] && export VERIF_REPO=$VP_RUN_REPO
for P in ${PROPS:-C01 C02 C03 C04 C05 C06 C07 C08 C09 C10 C11 C12 C13 C14 C15 C16 C17 C18 C19 C20}; do
  S=$(date +%s)
  timeout ${PER_PROP_TIMEOUT:-5400} bin/check $P --tier thorough > thorough_$P.log 2>&1; RC=$?
  echo "$P exit=$RC wall=$(( $(date +%s) - S ))s $(grep -c VIOLATION thorough_$P.log) viol; $(grep "tier=" thorough_$P.log | tail -1)"
  grep "paths=" thorough_$P.log | sed 's/^/    /' | cut -c1-220
  grep "INCONCLUSIVE\|VIOLATION" thorough_$P.log | head -5 | cut -c1-400 | sed 's/^/    /'
done
