#!/usr/bin/env python3
"""Regenerates /verif/MANIFEST.json from checks.json and tools/props_meta.json."""
import json, os
V = os.path.dirname(os.path.dirname(os.path.abspath(__file__)))
props = [json.loads(l) for l in open(os.path.join(V, 'properties.jsonl'))]
checks = json.load(open(os.path.join(V, 'checks.json')))
meta = json.load(open(os.path.join(V, 'tools', 'props_meta.json')))
out = {
    "version": 1,
    "setup_cmd": "make -C /verif setup",
    "hooks": {
        "guard": "verif",
        "enable": "go build/test -tags verif: internal/verifhook.Point calls a registered callback (empty function without the tag); harnesses are injected with go/packages Overlay and `go test -tags verif -overlay`; the replay build additionally gets generated copies of /repo sources in which every Lock()/RLock() statement is preceded by verifhook.Point(\"lock:<file>:<line>\"), every Badger View/Update/NewTransaction/Backup/MaxVersion statement by Point(\"txn:<file>:<line>\"), every Update(..)/Commit() statement by Point(\"commit:<file>:<line>\"), and the closure of an Update starts with Point(\"txnbody:<file>:<line>\") (scheduling points for recorded interleavings and crash candidates; regenerated from the working tree on every run, never written to /repo)",
        "baseline_off_cmd": "cd /repo && GOFLAGS=-mod=mod GOPROXY=off go test -vet=off -count=1 -timeout 25m ./...",
        "source_commits": ["11145cf", "069528d", "ae98eb8"],
        "add_only": True,
    },
    "engines": [{
        "name": "gosx",
        "path": "/verif/gosx",
        "serves_properties": sorted(k for k in checks if k in meta and meta[k].get("claimed")),
        "kind_free_text": "symbolic interpreter over go/ssa of /repo's working tree (fork of x/tools v0.29.0 go/ssa/interp with SMT terms, forking by re-execution, z3 4.8.12 deciding every assertion; models replayed natively against real Badger)",
    }],
    "checks": [],
    "not_applicable": [],
    "notes": "Every check: bin/check <ID> --tier quick|thorough; exit 0 holds-within-bound, 1 VIOLATION (replayed natively), 3 inconclusive (unknown/unsupported/unwinding failure/engine-native mismatch; never reported as success).",
}
for p in props:
    pid = p["id"]
    m = meta.get(pid, {})
    if pid in checks and m.get("claimed"):
        out["checks"].append({
            "property_id": pid,
            "quick_cmd": "bin/check %s --tier quick" % pid,
            "thorough_cmd": "bin/check %s --tier thorough" % pid,
            "evidence_file": "/verif/evidence/%s.json" % pid,
            "replay_cmd_template": "bin/check --replay {path}",
            "engine": "gosx",
            "level_claimed": {"category": "model_checking", "text": m["level_text"], "design_ref": m.get("design_ref", "DESIGN.md §5 " + pid)},
            "level_note": m["level_note"],
            "technique": m.get("technique", "bounded symbolic execution of the real Go code (go/ssa) with SMT (z3) deciding each assertion; counterexamples replayed natively"),
        })
    else:
        out["not_applicable"].append({"property_id": pid, "reason": m.get("na_reason", "check not built yet (engine layer under construction)")})
json.dump(out, open(os.path.join(V, 'MANIFEST.json'), 'w'), indent=1)
print("claimed:", [c["property_id"] for c in out["checks"]])
