#!/bin/bash
# eval_wt.sh <PROP-to-check> <worktree> [tier] [extra bin/check args] : run a check against a scratch
# worktree that has a seeded change applied (VERIF_REPO), leaving /repo untouched. Used while
# developing; the recorded results come from run_seeded.sh / eval_mutant.sh, which apply to /repo.
P=$1; W=$2; TIER=${3:-quick}; shift 3 2>/dev/null
export GOFLAGS=-mod=mod GOPROXY=off GOSUMDB=off GOTOOLCHAIN=local
mkdir -p /tmp/mut
( cd $W && git checkout -q -- . && git apply MUTANT/patch.diff ) || { echo "patch does not apply"; exit 2; }
N=$(basename $(dirname $W))-$(basename $W)
cd /verif && VERIF_REPO=$W timeout 3600 bin/check $P --tier $TIER "$@" > /tmp/mut/$N.$P.$TIER.log 2>&1; RC=$?
echo "exit=$RC"; grep -h "VIOLATION\|violation in\|INCONCLUSIVE\|KNOWN-FINDING\|tier=" /tmp/mut/$N.$P.$TIER.log | cut -c1-420
