#!/usr/bin/env python3
"""note_mutant.py <name> <tier> <caught|missed> <text> : append a check result to seeded/<name>/meta.json"""
import sys, json
name, tier, verdict, text = sys.argv[1:5]
p = f"/verif/seeded/{name}/meta.json"
m = json.load(open(p))
m["checks"].append({"tier": tier, "verdict": verdict, "detail": text})
json.dump(m, open(p, "w"), indent=1)
