#!/usr/bin/env python3
"""coverage_gaps.py : which functions of /repo/internal were never executed by any check
(according to evidence/*.json functions_encoded) — where a change cannot be seen by the
machinery at all. Prints per-file counts and the names."""
import json, glob, re, os, sys
enc = {}
for f in glob.glob('/verif/evidence/C??.json'):
    e = json.load(open(f))
    for x in e['coverage'].get('functions_encoded', []):
        enc[x['fn']] = enc.get(x['fn'], 0) + x['calls']
allf = []
for root, ds, fs in os.walk('/repo/internal'):
    if 'verifhook' in root:
        continue
    for fn in fs:
        if fn.endswith('.go') and not fn.endswith('_test.go'):
            pkg = root.replace('/repo/', '')
            for l in open(os.path.join(root, fn)):
                m = re.match(r'^func (\((\w+) (\*?)(\w+)(\[.*\])?\) )?(\w+)[\[(]', l)
                if m:
                    name = f"({m.group(3)}{pkg}.{m.group(4)}).{m.group(6)}" if m.group(1) else f"{pkg}.{m.group(6)}"
                    allf.append((pkg, fn, name))
missing = [x for x in allf if x[2] not in enc]
print("functions:", len(allf), "executed by some check:", len(allf) - len(missing), "never executed:", len(missing))
byfile = {}
for pkg, fn, name in missing:
    byfile.setdefault(pkg + '/' + fn, []).append(name.split(').')[-1] if ').' in name else name.split('.')[-1])
tot = {}
for pkg, fn, name in allf:
    tot[pkg + '/' + fn] = tot.get(pkg + '/' + fn, 0) + 1
for f, names in sorted(byfile.items(), key=lambda kv: -len(kv[1])):
    print(f"{len(names):3d}/{tot[f]:3d} {f}: {', '.join(names)}")
