export GOFLAGS=-mod=mod
export GOPROXY=off
export GOSUMDB=off
export GOTOOLCHAIN=local

setup: bin/gosx bin/check

GOSRC=$(shell find gosx -name '*.go') gosx/go.mod

bin/gosx: $(GOSRC)
	cd gosx && go build -o ../bin/gosx ./cmd/gosx

bin/check: $(GOSRC)
	cd gosx && go build -o ../bin/check ./cmd/check

.PHONY: setup
