export GOFLAGS=-mod=mod
export GOPROXY=off
export GOSUMDB=off
export GOTOOLCHAIN=local

setup: bin/gosx

bin/gosx: $(shell find gosx -name '*.go') gosx/go.mod
	cd gosx && go build -o ../bin/gosx ./cmd/gosx

.PHONY: setup
