// gosx: path state, forking by re-execution, assertions.

package interp

import (
	"fmt"
	"go/token"
	"go/types"
	"sort"
	"strings"
)

// traceEntry is one nondeterministic decision of a path. Branch decisions
// carry b; value concretisations carry the candidate value v and whether the
// path took "term == v" (b) or "term != v".
type traceEntry struct {
	b    bool
	v    uint64
	hasV bool
}

// engine-level control panics (never recoverable by the target program)
type pathAbort struct{ reason string }
type unsupported struct{ msg string }
type unwindFail struct{ msg string }
type threadKill struct{}

func isEnginePanic(p interface{}) bool {
	switch p.(type) {
	case pathAbort, unsupported, unwindFail, threadKill:
		return true
	}
	return false
}

type Draw struct {
	Name string
	Kind string // "int","u64","bool","byte",...
	term *Term
}

type Violation struct {
	Known  []string          `json:"known,omitempty"` // known-finding classes the path belongs to
	Kind   string            `json:"kind"` // "assert", "panic", "deadlock"
	Msg    string            `json:"msg"`
	Pos    string            `json:"pos,omitempty"`
	Model  map[string]uint64 `json:"model"`
	Order  []string          `json:"order"`
	Notes  []string          `json:"notes,omitempty"`
	Script string            `json:"-"`
}

type PathResult struct {
	Status     string // ok, infeasible, unsupported, unwind, error
	Detail     string
	Violations []Violation
	Asserts    int // assertions reached (deciding queries issued or trivially decided)
	Decisions  int
	Forks      int
	Steps      int64
	Sample     map[string]uint64 // model of the completed path (for evidence / concolic validation)
	Order      []string
	Observed   []string // Observe() values predicted under Sample
	Notes      []string
	Scripts    []string // deciding queries (unsat ones) as standalone scripts
}

type pathState struct {
	w      *worker
	prefix []traceEntry
	pos    int
	taken  []traceEntry
	pc     []*Term
	pcset  map[*Term]bool
	draws  []Draw
	names  map[string]int
	forks  int
	res    *PathResult

	steps    int64
	maxSteps int64
	depth    int
	maxDepth int

	// modelled environment (per path)
	env *envState

	// threads
	sched *scheduler

	observed   []obsEntry
	notes      []string
	panicStack string
	lastFrame  *frame
	known      []string
}

type obsEntry struct {
	name string
	v    value
}

func (p *pathState) bank() *TermBank { return p.w.bank }

func (p *pathState) addPC(c *Term) {
	if c.isConst {
		if c.cval == 0 {
			panic(pathAbort{"false path condition"})
		}
		return
	}
	if p.pcset[c] {
		return
	}
	p.pcset[c] = true
	p.pc = append(p.pc, c)
}

func (p *pathState) sat(extra *Term, deciding bool) satResult {
	cs := append(append([]*Term{}, p.pc...), extra)
	r, _ := p.w.solver.check(cs, deciding, nil)
	return r
}

// decide resolves a symbolic branch condition. It returns the direction the
// current path follows and, when both directions are feasible beyond the
// replayed prefix, queues the other one.
func (p *pathState) decide(c *Term) bool {
	if c.isConst {
		return c.cval == 1
	}
	if p.pcset[c] {
		return true
	}
	b := p.bank()
	nc := b.Not(c)
	if p.pcset[nc] {
		return false
	}
	if p.pos < len(p.prefix) {
		e := p.prefix[p.pos]
		p.pos++
		p.taken = append(p.taken, e)
		if e.b {
			p.addPC(c)
		} else {
			p.addPC(nc)
		}
		return e.b
	}
	p.pos++
	rt := p.sat(c, false)
	if rt == rUnsat {
		// the false side must be feasible (pc is satisfiable by invariant)
		p.taken = append(p.taken, traceEntry{b: false})
		p.addPC(nc)
		return false
	}
	rf := p.sat(nc, false)
	if rf == rUnsat {
		p.taken = append(p.taken, traceEntry{b: true})
		p.addPC(c)
		return true
	}
	// both feasible (or unknown: kept, which is sound for "holds")
	alt := make([]traceEntry, len(p.taken)+1)
	copy(alt, p.taken)
	alt[len(p.taken)] = traceEntry{b: false}
	p.w.eng.push(alt)
	p.forks++
	p.taken = append(p.taken, traceEntry{b: true})
	p.addPC(c)
	return true
}

// chooseFree resolves a choice over a freshly drawn variable v whose only
// constraint is 0 <= v < n: every value is feasible whenever the path is, so
// the alternatives are queued without consulting the solver.
func (p *pathState) chooseFree(v *Term, n int) int {
	b := p.bank()
	if p.pos < len(p.prefix) {
		e := p.prefix[p.pos]
		p.pos++
		p.taken = append(p.taken, e)
		p.addPC(b.Eq(v, b.BV(e.v, v.sort.w)))
		return int(e.v)
	}
	p.pos++
	for k := n - 1; k >= 1; k-- {
		alt := make([]traceEntry, len(p.taken)+1)
		copy(alt, p.taken)
		alt[len(p.taken)] = traceEntry{b: true, v: uint64(k), hasV: true}
		p.w.eng.push(alt)
		p.forks++
	}
	p.taken = append(p.taken, traceEntry{b: true, v: 0, hasV: true})
	p.addPC(b.Eq(v, b.BV(0, v.sort.w)))
	return 0
}

// concretize picks a feasible concrete value for an integer term, forking
// over the alternatives. limit bounds the number of alternatives explored on
// one path (an unwinding failure beyond).
func (p *pathState) concretize(t *Term, what string) uint64 {
	if t.isConst {
		return t.cval
	}
	b := p.bank()
	for n := 0; ; n++ {
		if n > 80 {
			panic(unwindFail{"concretisation of " + what + " exceeds 80 alternatives"})
		}
		if p.pos < len(p.prefix) {
			e := p.prefix[p.pos]
			p.pos++
			p.taken = append(p.taken, e)
			eq := b.Eq(t, b.BV(e.v, t.sort.w))
			if e.b {
				p.addPC(eq)
				return e.v
			}
			p.addPC(b.Not(eq))
			continue
		}
		p.pos++
		r, m := p.w.solver.check(p.pc, false, []*Term{t})
		if r != rSat {
			if r == rUnknown {
				panic(unsupported{"solver unknown while concretising " + what})
			}
			panic(pathAbort{"infeasible at concretisation"})
		}
		v := m[t]
		eq := b.Eq(t, b.BV(v, t.sort.w))
		if p.sat(b.Not(eq), false) != rUnsat {
			alt := make([]traceEntry, len(p.taken)+1)
			copy(alt, p.taken)
			alt[len(p.taken)] = traceEntry{b: false, v: v, hasV: true}
			p.w.eng.push(alt)
			p.forks++
		}
		p.taken = append(p.taken, traceEntry{b: true, v: v, hasV: true})
		p.addPC(eq)
		return v
	}
}

func (p *pathState) assume(c *Term) {
	if c.isConst {
		if c.cval == 0 {
			panic(pathAbort{"assume(false)"})
		}
		return
	}
	if p.pcset[c] {
		return
	}
	if p.pcset[p.bank().Not(c)] {
		panic(pathAbort{"assumption contradicts path"})
	}
	if p.sat(c, false) == rUnsat {
		panic(pathAbort{"assumption infeasible"})
	}
	p.addPC(c)
}

func (p *pathState) drawTerms() []*Term {
	ts := make([]*Term, len(p.draws))
	for i, d := range p.draws {
		ts[i] = d.term
	}
	return ts
}

func (p *pathState) modelOf(m map[*Term]uint64) (map[string]uint64, []string) {
	out := map[string]uint64{}
	var order []string
	for _, d := range p.draws {
		out[d.Name] = m[d.term]
		order = append(order, d.Name)
	}
	return out, order
}

// assert issues the deciding query pc ∧ ¬c.
func (p *pathState) assert(c *Term, kind, msg, pos string) {
	p.res.Asserts++
	if c.isConst && c.cval == 1 {
		return
	}
	b := p.bank()
	nc := b.Not(c)
	cs := append(append([]*Term{}, p.pc...), nc)
	r, m := p.w.solver.check(cs, true, p.drawTerms())
	switch r {
	case rUnsat:
		if p.w.eng.cfg.KeepScripts && len(p.res.Scripts) < 4 {
			p.res.Scripts = append(p.res.Scripts, Script(cs))
		}
		p.addPC(c)
		return
	case rUnknown:
		panic(unsupported{"solver returned unknown on deciding query: " + msg})
	}
	model, order := p.modelOf(m)
	v := Violation{Kind: kind, Msg: msg, Pos: pos, Model: model, Order: order, Notes: append([]string{}, p.notes...), Script: Script(cs), Known: append([]string{}, p.known...)}
	p.res.Violations = append(p.res.Violations, v)
	// continue on the side where the assertion holds, if any
	if c.isConst || p.sat(c, false) == rUnsat {
		if len(p.known) > 0 {
			// a known finding that fails on the whole path: keep exploring what follows
			return
		}
		panic(pathAbort{"assertion fails on the whole path"})
	}
	p.addPC(c)
}

// fresh draws a new symbolic variable. Names are made unique per path by an
// occurrence counter so that re-execution recreates the same variables.
func (p *pathState) fresh(name string, s Sort, kind string) *Term {
	n := p.names[name]
	p.names[name] = n + 1
	full := name
	if n > 0 {
		full = fmt.Sprintf("%s#%d", name, n)
	}
	t := p.bank().Var(full, s)
	p.draws = append(p.draws, Draw{Name: full, Kind: kind, term: t})
	return t
}

func (p *pathState) note(format string, a ...interface{}) {
	if len(p.notes) < 200 {
		p.notes = append(p.notes, fmt.Sprintf(format, a...))
	}
}

func (p *pathState) step() {
	p.steps++
	if p.steps > p.maxSteps {
		panic(unwindFail{fmt.Sprintf("instruction budget %d exhausted", p.maxSteps)})
	}
}

// ---- symbolic scalar values

// sym is a symbolic scalar of basic kind k (types.Bool, types.Int*, types.Uint*,
// types.Float64).
type sym struct {
	t *Term
	k types.BasicKind
}

func kindWidth(k types.BasicKind) int {
	switch k {
	case types.Int8, types.Uint8:
		return 8
	case types.Int16, types.Uint16:
		return 16
	case types.Int32, types.Uint32:
		return 32
	case types.Int, types.Int64, types.Uint, types.Uint64, types.Uintptr:
		return 64
	}
	panic(fmt.Sprintf("kindWidth(%v)", k))
}

func kindSigned(k types.BasicKind) bool {
	switch k {
	case types.Int, types.Int8, types.Int16, types.Int32, types.Int64:
		return true
	}
	return false
}

func kindOf(x value) (types.BasicKind, bool) {
	switch x := x.(type) {
	case sym:
		return x.k, true
	case bool:
		return types.Bool, true
	case int:
		return types.Int, true
	case int8:
		return types.Int8, true
	case int16:
		return types.Int16, true
	case int32:
		return types.Int32, true
	case int64:
		return types.Int64, true
	case uint:
		return types.Uint, true
	case uint8:
		return types.Uint8, true
	case uint16:
		return types.Uint16, true
	case uint32:
		return types.Uint32, true
	case uint64:
		return types.Uint64, true
	case uintptr:
		return types.Uintptr, true
	case float64:
		return types.Float64, true
	}
	return 0, false
}

// termOf lifts a concrete or symbolic scalar to a term.
func termOf(b *TermBank, x value) *Term {
	switch x := x.(type) {
	case sym:
		return x.t
	case bool:
		return b.Bool(x)
	case int:
		return b.BV(uint64(x), 64)
	case int8:
		return b.BV(uint64(x), 8)
	case int16:
		return b.BV(uint64(x), 16)
	case int32:
		return b.BV(uint64(x), 32)
	case int64:
		return b.BV(uint64(x), 64)
	case uint:
		return b.BV(uint64(x), 64)
	case uint8:
		return b.BV(uint64(x), 8)
	case uint16:
		return b.BV(uint64(x), 16)
	case uint32:
		return b.BV(uint64(x), 32)
	case uint64:
		return b.BV(x, 64)
	case uintptr:
		return b.BV(uint64(x), 64)
	case float64:
		return b.FPConst(x)
	}
	panic(fmt.Sprintf("termOf(%T)", x))
}

// mkval turns a term back into a value of kind k (concrete if constant).
func mkval(t *Term, k types.BasicKind) value {
	if !t.isConst {
		return sym{t, k}
	}
	switch k {
	case types.Bool:
		return t.cval == 1
	case types.Int:
		return int(t.cval)
	case types.Int8:
		return int8(t.cval)
	case types.Int16:
		return int16(t.cval)
	case types.Int32:
		return int32(t.cval)
	case types.Int64:
		return int64(t.cval)
	case types.Uint:
		return uint(t.cval)
	case types.Uint8:
		return uint8(t.cval)
	case types.Uint16:
		return uint16(t.cval)
	case types.Uint32:
		return uint32(t.cval)
	case types.Uint64:
		return uint64(t.cval)
	case types.Uintptr:
		return uintptr(t.cval)
	case types.Float64:
		return float64frombits(t.cval)
	}
	panic(fmt.Sprintf("mkval kind %v", k))
}

func isSym(x value) bool { _, ok := x.(sym); return ok }

// symBinop implements binop when at least one operand is symbolic.
func symBinop(fr *frame, op token.Token, x, y value) value {
	b := fr.i.path.bank()
	kx, _ := kindOf(x)
	tx, ty := termOf(b, x), termOf(b, y)
	if kx == types.Bool {
		switch op {
		case token.EQL:
			return mkval(b.Eq(tx, ty), types.Bool)
		case token.NEQ:
			return mkval(b.Not(b.Eq(tx, ty)), types.Bool)
		case token.AND, token.LAND:
			return mkval(b.And(tx, ty), types.Bool)
		case token.OR, token.LOR:
			return mkval(b.Or(tx, ty), types.Bool)
		}
		panic(fmt.Sprintf("symBinop bool %s", op))
	}
	if kx == types.Float64 {
		switch op {
		case token.ADD:
			return mkval(b.FPBin("fp.add", tx, ty), kx)
		case token.SUB:
			return mkval(b.FPBin("fp.sub", tx, ty), kx)
		case token.MUL:
			return mkval(b.FPBin("fp.mul", tx, ty), kx)
		case token.QUO:
			return mkval(b.FPBin("fp.div", tx, ty), kx)
		case token.LSS:
			return mkval(b.FPCmp("fp.lt", tx, ty), types.Bool)
		case token.LEQ:
			return mkval(b.FPCmp("fp.leq", tx, ty), types.Bool)
		case token.GTR:
			return mkval(b.FPCmp("fp.gt", tx, ty), types.Bool)
		case token.GEQ:
			return mkval(b.FPCmp("fp.geq", tx, ty), types.Bool)
		case token.EQL:
			return mkval(b.Eq(tx, ty), types.Bool)
		case token.NEQ:
			return mkval(b.Not(b.Eq(tx, ty)), types.Bool)
		}
		panic(fmt.Sprintf("symBinop float %s", op))
	}
	signed := kindSigned(kx)
	w := kindWidth(kx)
	switch op {
	case token.SHL, token.SHR:
		// shift count may have a different width/kind
		ky, _ := kindOf(y)
		if kindSigned(ky) {
			// negative shift count panics in Go
			neg := b.SLt(ty, b.BV(0, ty.sort.w))
			if fr.i.path.decide(neg) {
				panic("negative shift amount")
			}
		}
		var c *Term
		if ty.sort.w < w {
			c = b.ZExt(ty, w)
		} else if ty.sort.w > w {
			// counts >= w give 0 / sign; saturate
			big := b.Not(b.ULt(ty, b.BV(uint64(w), ty.sort.w)))
			c = b.Ite(big, b.BV(uint64(w), w), b.Extract(w-1, 0, ty))
		} else {
			c = ty
		}
		if op == token.SHL {
			return mkval(b.Shl(tx, c), kx)
		}
		if signed {
			return mkval(b.AShr(tx, c), kx)
		}
		return mkval(b.LShr(tx, c), kx)
	}
	if tx.sort != ty.sort {
		panic(fmt.Sprintf("symBinop %s: operand sorts differ %v %v", op, tx.sort, ty.sort))
	}
	switch op {
	case token.ADD:
		return mkval(b.Add(tx, ty), kx)
	case token.SUB:
		return mkval(b.Sub(tx, ty), kx)
	case token.MUL:
		return mkval(b.Mul(tx, ty), kx)
	case token.QUO, token.REM:
		zero := b.Eq(ty, b.BV(0, w))
		if fr.i.path.decide(zero) {
			panic("runtime error: integer divide by zero")
		}
		if op == token.QUO {
			if signed {
				return mkval(b.SDiv(tx, ty), kx)
			}
			return mkval(b.UDiv(tx, ty), kx)
		}
		if signed {
			return mkval(b.SRem(tx, ty), kx)
		}
		return mkval(b.URem(tx, ty), kx)
	case token.AND:
		return mkval(b.BAnd(tx, ty), kx)
	case token.OR:
		return mkval(b.BOr(tx, ty), kx)
	case token.XOR:
		return mkval(b.BXor(tx, ty), kx)
	case token.AND_NOT:
		return mkval(b.BAnd(tx, b.BNot(ty)), kx)
	case token.EQL:
		return mkval(b.Eq(tx, ty), types.Bool)
	case token.NEQ:
		return mkval(b.Not(b.Eq(tx, ty)), types.Bool)
	case token.LSS:
		if signed {
			return mkval(b.SLt(tx, ty), types.Bool)
		}
		return mkval(b.ULt(tx, ty), types.Bool)
	case token.LEQ:
		if signed {
			return mkval(b.SLe(tx, ty), types.Bool)
		}
		return mkval(b.ULe(tx, ty), types.Bool)
	case token.GTR:
		if signed {
			return mkval(b.SLt(ty, tx), types.Bool)
		}
		return mkval(b.ULt(ty, tx), types.Bool)
	case token.GEQ:
		if signed {
			return mkval(b.SLe(ty, tx), types.Bool)
		}
		return mkval(b.ULe(ty, tx), types.Bool)
	}
	panic(fmt.Sprintf("symBinop: unsupported op %s on %T,%T", op, x, y))
}

func symUnop(fr *frame, op token.Token, x sym) value {
	b := fr.i.path.bank()
	switch op {
	case token.NOT:
		return mkval(b.Not(x.t), types.Bool)
	case token.SUB:
		if x.k == types.Float64 {
			return mkval(b.FPNeg(x.t), x.k)
		}
		return mkval(b.Neg(x.t), x.k)
	case token.XOR:
		return mkval(b.BNot(x.t), x.k)
	}
	panic(fmt.Sprintf("symUnop %s", op))
}

// symConv converts a symbolic scalar to the basic kind dst.
func symConv(fr *frame, dst types.BasicKind, x sym) value {
	b := fr.i.path.bank()
	if dst == x.k {
		return x
	}
	if x.k == types.Float64 {
		if dst == types.Float32 {
			panic(unsupported{"float32 conversion of symbolic value"})
		}
		return mkval(b.FPToInt(x.t, kindWidth(dst), kindSigned(dst)), dst)
	}
	if dst == types.Float64 {
		return mkval(b.IntToFP(x.t, kindSigned(x.k)), dst)
	}
	if dst == types.Float32 {
		panic(unsupported{"float32 conversion of symbolic value"})
	}
	if dst == types.String {
		panic(unsupported{"integer→string conversion of symbolic value"})
	}
	sw, dw := kindWidth(x.k), kindWidth(dst)
	switch {
	case dw == sw:
		return mkval(x.t, dst)
	case dw < sw:
		return mkval(b.Extract(dw-1, 0, x.t), dst)
	default:
		if kindSigned(x.k) {
			return mkval(b.SExt(x.t, dw), dst)
		}
		return mkval(b.ZExt(x.t, dw), dst)
	}
}

// concInt forces an integer value to be concrete on this path (forking).
func (p *pathState) concInt(x value, what string) int64 {
	if s, ok := x.(sym); ok {
		v := p.concretize(s.t, what)
		return sext(v, s.t.sort.w) // for unsigned 64-bit values > MaxInt64 callers see negatives, as asInt64 does
	}
	return asInt64(x)
}

// concBool forces a bool to be concrete on this path (forking).
func (p *pathState) concBool(x value) bool {
	if s, ok := x.(sym); ok {
		return p.decide(s.t)
	}
	return x.(bool)
}

func sortedKeys(m map[string]uint64) []string {
	ks := make([]string, 0, len(m))
	for k := range m {
		ks = append(ks, k)
	}
	sort.Strings(ks)
	return ks
}

func posString(fr *frame) string {
	for f := fr; f != nil; f = f.caller {
		if f.fn != nil && f.fn.Pkg != nil && !strings.Contains(f.fn.Pkg.Pkg.Path(), "verifh") {
			if f.curInstr != nil {
				return f.fn.Prog.Fset.Position(f.curInstr.Pos()).String()
			}
		}
	}
	return ""
}
