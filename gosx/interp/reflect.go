// Copyright 2013 The Go Authors. All rights reserved.
// Use of this source code is governed by a BSD-style
// license that can be found in the LICENSE file.

package interp

// Emulated "reflect" package.
//
// We completely replace the built-in "reflect" package.
// The only thing clients can depend upon are that reflect.Type is an
// interface and reflect.Value is an (opaque) struct.

import (
	"fmt"
	"go/token"
	"go/types"
	"reflect"
	"unsafe"

	"golang.org/x/tools/go/ssa"
)

type opaqueType struct {
	types.Type
	name string
}

func (t *opaqueType) String() string { return t.name }

// A bogus "reflect" type-checker package.  Shared across interpreters.
var reflectTypesPackage = types.NewPackage("reflect", "reflect")

// rtype is the concrete type the interpreter uses to implement the
// reflect.Type interface.
//
// type rtype <opaque>
var rtypeType = makeNamedType("rtype", &opaqueType{nil, "rtype"})

// error is an (interpreted) named type whose underlying type is string.
// The interpreter uses it for all implementations of the built-in error
// interface that it creates.
// We put it in the "reflect" package for expedience.
//
// type error string
var errorType = makeNamedType("error", &opaqueType{nil, "error"})

func makeNamedType(name string, underlying types.Type) *types.Named {
	obj := types.NewTypeName(token.NoPos, reflectTypesPackage, name, nil)
	return types.NewNamed(obj, underlying, nil)
}

func makeReflectValue(t types.Type, v value) value {
	return structure{rtype{t}, v}
}

// Given a reflect.Value, returns its rtype.
func rV2T(v value) rtype {
	return v.(structure)[0].(rtype)
}

// Given a reflect.Value, returns the underlying interpreter value.
func rV2V(v value) value {
	return v.(structure)[1]
}

// makeReflectType boxes up an rtype in a reflect.Type interface.
func makeReflectType(rt rtype) value {
	return iface{rtypeType, rt}
}

func ext۰reflect۰rtype۰Bits(fr *frame, args []value) value {
	// Signature: func (t reflect.rtype) int
	rt := args[0].(rtype).t
	basic, ok := rt.Underlying().(*types.Basic)
	if !ok {
		panic(fmt.Sprintf("reflect.Type.Bits(%T): non-basic type", rt))
	}
	return int(fr.i.sizes.Sizeof(basic)) * 8
}

func ext۰reflect۰rtype۰Elem(fr *frame, args []value) value {
	// Signature: func (t reflect.rtype) reflect.Type
	return makeReflectType(rtype{args[0].(rtype).t.Underlying().(interface {
		Elem() types.Type
	}).Elem()})
}

func ext۰reflect۰rtype۰Field(fr *frame, args []value) value {
	// Signature: func (t reflect.rtype, i int) reflect.StructField
	st := args[0].(rtype).t.Underlying().(*types.Struct)
	i := args[1].(int)
	f := st.Field(i)
	return structure{
		f.Name(),
		f.Pkg().Path(),
		makeReflectType(rtype{f.Type()}),
		st.Tag(i),
		0,         // TODO(adonovan): offset
		[]value{}, // TODO(adonovan): indices
		f.Anonymous(),
	}
}

func ext۰reflect۰rtype۰In(fr *frame, args []value) value {
	// Signature: func (t reflect.rtype, i int) int
	i := args[1].(int)
	return makeReflectType(rtype{args[0].(rtype).t.(*types.Signature).Params().At(i).Type()})
}

func ext۰reflect۰rtype۰Kind(fr *frame, args []value) value {
	// Signature: func (t reflect.rtype) uint
	return uint(reflectKind(args[0].(rtype).t))
}

func ext۰reflect۰rtype۰NumField(fr *frame, args []value) value {
	// Signature: func (t reflect.rtype) int
	return args[0].(rtype).t.Underlying().(*types.Struct).NumFields()
}

func ext۰reflect۰rtype۰NumIn(fr *frame, args []value) value {
	// Signature: func (t reflect.rtype) int
	return args[0].(rtype).t.Underlying().(*types.Signature).Params().Len()
}

func ext۰reflect۰rtype۰NumMethod(fr *frame, args []value) value {
	// Signature: func (t reflect.rtype) int
	return fr.i.prog.MethodSets.MethodSet(args[0].(rtype).t).Len()
}

func ext۰reflect۰rtype۰NumOut(fr *frame, args []value) value {
	// Signature: func (t reflect.rtype) int
	return args[0].(rtype).t.Underlying().(*types.Signature).Results().Len()
}

func ext۰reflect۰rtype۰Out(fr *frame, args []value) value {
	// Signature: func (t reflect.rtype, i int) int
	i := args[1].(int)
	return makeReflectType(rtype{args[0].(rtype).t.Underlying().(*types.Signature).Results().At(i).Type()})
}

func ext۰reflect۰rtype۰Size(fr *frame, args []value) value {
	// Signature: func (t reflect.rtype) uintptr
	return uintptr(fr.i.sizes.Sizeof(args[0].(rtype).t))
}

func ext۰reflect۰rtype۰String(fr *frame, args []value) value {
	// Signature: func (t reflect.rtype) string
	return args[0].(rtype).t.String()
}

func ext۰reflect۰New(fr *frame, args []value) value {
	// Signature: func (t reflect.Type) reflect.Value
	t := args[0].(iface).v.(rtype).t
	alloc := zero(t)
	return makeReflectValue(types.NewPointer(t), &alloc)
}

func ext۰reflect۰SliceOf(fr *frame, args []value) value {
	// Signature: func (t reflect.rtype) Type
	return makeReflectType(rtype{types.NewSlice(args[0].(iface).v.(rtype).t)})
}

func ext۰reflect۰TypeOf(fr *frame, args []value) value {
	// Signature: func (t reflect.rtype) Type
	return makeReflectType(rtype{args[0].(iface).t})
}

func ext۰reflect۰ValueOf(fr *frame, args []value) value {
	// Signature: func (interface{}) reflect.Value
	itf := args[0].(iface)
	return makeReflectValue(itf.t, itf.v)
}

func ext۰reflect۰Zero(fr *frame, args []value) value {
	// Signature: func (t reflect.Type) reflect.Value
	t := args[0].(iface).v.(rtype).t
	return makeReflectValue(t, zero(t))
}

func reflectKind(t types.Type) reflect.Kind {
	switch t := t.(type) {
	case *types.Named, *types.Alias:
		return reflectKind(t.Underlying())
	case *types.Basic:
		switch t.Kind() {
		case types.Bool:
			return reflect.Bool
		case types.Int:
			return reflect.Int
		case types.Int8:
			return reflect.Int8
		case types.Int16:
			return reflect.Int16
		case types.Int32:
			return reflect.Int32
		case types.Int64:
			return reflect.Int64
		case types.Uint:
			return reflect.Uint
		case types.Uint8:
			return reflect.Uint8
		case types.Uint16:
			return reflect.Uint16
		case types.Uint32:
			return reflect.Uint32
		case types.Uint64:
			return reflect.Uint64
		case types.Uintptr:
			return reflect.Uintptr
		case types.Float32:
			return reflect.Float32
		case types.Float64:
			return reflect.Float64
		case types.Complex64:
			return reflect.Complex64
		case types.Complex128:
			return reflect.Complex128
		case types.String:
			return reflect.String
		case types.UnsafePointer:
			return reflect.UnsafePointer
		}
	case *types.Array:
		return reflect.Array
	case *types.Chan:
		return reflect.Chan
	case *types.Signature:
		return reflect.Func
	case *types.Interface:
		return reflect.Interface
	case *types.Map:
		return reflect.Map
	case *types.Pointer:
		return reflect.Ptr
	case *types.Slice:
		return reflect.Slice
	case *types.Struct:
		return reflect.Struct
	}
	panic(fmt.Sprint("unexpected type: ", t))
}

func ext۰reflect۰Value۰Kind(fr *frame, args []value) value {
	// Signature: func (reflect.Value) uint
	if rV2T(args[0]).t == nil {
		return uint(reflect.Invalid)
	}
	return uint(reflectKind(rV2T(args[0]).t))
}

func ext۰reflect۰Value۰String(fr *frame, args []value) value {
	// Signature: func (reflect.Value) string
	return toString(rV2V(args[0]))
}

func ext۰reflect۰Value۰Type(fr *frame, args []value) value {
	// Signature: func (reflect.Value) reflect.Type
	if rV2T(args[0]).t == nil {
		panic(targetPanic{iface{types.Typ[types.String], "reflect: call of reflect.Value.Type on zero Value"}})
	}
	return makeReflectType(rV2T(args[0]))
}

func ext۰reflect۰Value۰Uint(fr *frame, args []value) value {
	// Signature: func (reflect.Value) uint64
	switch v := rV2V(args[0]).(type) {
	case uint:
		return uint64(v)
	case uint8:
		return uint64(v)
	case uint16:
		return uint64(v)
	case uint32:
		return uint64(v)
	case uint64:
		return uint64(v)
	case uintptr:
		return uint64(v)
	}
	panic("reflect.Value.Uint")
}

func ext۰reflect۰Value۰Len(fr *frame, args []value) value {
	// Signature: func (reflect.Value) int
	switch v := rV2V(args[0]).(type) {
	case string:
		return len(v)
	case array:
		return len(v)
	case symstr:
		return len(v)
	case []value:
		return len(v)
	case *omap:
		return v.len()
	default:
		panic(fmt.Sprintf("reflect.(Value).Len(%v)", v))
	}
}



func ext۰reflect۰Value۰NumField(fr *frame, args []value) value {
	// Signature: func (reflect.Value) int
	return rV2T(args[0]).t.Underlying().(*types.Struct).NumFields()
}

func ext۰reflect۰Value۰NumMethod(fr *frame, args []value) value {
	// Signature: func (reflect.Value) int
	return fr.i.prog.MethodSets.MethodSet(rV2T(args[0]).t).Len()
}

func ext۰reflect۰Value۰Pointer(fr *frame, args []value) value {
	// Signature: func (v reflect.Value) uintptr
	switch v := rV2V(args[0]).(type) {
	case *value:
		return uintptr(unsafe.Pointer(v))
	case []value:
		return reflect.ValueOf(v).Pointer()
	case *omap:
		return uintptr(unsafe.Pointer(v))
	case *ssa.Function:
		return uintptr(unsafe.Pointer(v))
	case *closure:
		return uintptr(unsafe.Pointer(v))
	default:
		panic(fmt.Sprintf("reflect.(Value).Pointer(%T)", v))
	}
}

func ext۰reflect۰Value۰Index(fr *frame, args []value) value {
	// Signature: func (v reflect.Value, i int) Value
	i := args[1].(int)
	t := rV2T(args[0]).t.Underlying()
	switch v := rV2V(args[0]).(type) {
	case array:
		return makeReflectValue(t.(*types.Array).Elem(), v[i])
	case []value:
		return makeReflectValue(t.(*types.Slice).Elem(), v[i])
	default:
		panic(fmt.Sprintf("reflect.(Value).Index(%T)", v))
	}
}

func ext۰reflect۰Value۰Bool(fr *frame, args []value) value {
	// Signature: func (reflect.Value) bool
	return rV2V(args[0]).(bool)
}

func ext۰reflect۰Value۰CanAddr(fr *frame, args []value) value {
	// Signature: func (v reflect.Value) bool
	// Always false for our representation.
	return false
}

func ext۰reflect۰Value۰CanInterface(fr *frame, args []value) value {
	// Signature: func (v reflect.Value) bool
	// Always true for our representation.
	return true
}

func ext۰reflect۰Value۰Elem(fr *frame, args []value) value {
	// Signature: func (v reflect.Value) reflect.Value
	switch x := rV2V(args[0]).(type) {
	case iface:
		return makeReflectValue(x.t, x.v)
	case *value:
		var v value
		if x != nil {
			v = *x
		}
		return makeReflectValue(rV2T(args[0]).t.Underlying().(*types.Pointer).Elem(), v)
	default:
		panic(fmt.Sprintf("reflect.(Value).Elem(%T)", x))
	}
}

func ext۰reflect۰Value۰Field(fr *frame, args []value) value {
	// Signature: func (v reflect.Value, i int) reflect.Value
	v := args[0]
	i := args[1].(int)
	return makeReflectValue(rV2T(v).t.Underlying().(*types.Struct).Field(i).Type(), rV2V(v).(structure)[i])
}

func ext۰reflect۰Value۰Float(fr *frame, args []value) value {
	// Signature: func (reflect.Value) float64
	switch v := rV2V(args[0]).(type) {
	case float32:
		return float64(v)
	case float64:
		return float64(v)
	}
	panic("reflect.Value.Float")
}

func ext۰reflect۰Value۰Interface(fr *frame, args []value) value {
	// Signature: func (v reflect.Value) interface{}
	return ext۰reflect۰valueInterface(fr, args)
}

func ext۰reflect۰Value۰Int(fr *frame, args []value) value {
	// Signature: func (reflect.Value) int64
	switch x := rV2V(args[0]).(type) {
	case int:
		return int64(x)
	case int8:
		return int64(x)
	case int16:
		return int64(x)
	case int32:
		return int64(x)
	case int64:
		return x
	default:
		panic(fmt.Sprintf("reflect.(Value).Int(%T)", x))
	}
}

func ext۰reflect۰Value۰IsNil(fr *frame, args []value) value {
	// Signature: func (reflect.Value) bool
	switch x := rV2V(args[0]).(type) {
	case *value:
		return x == nil
	case *mchan:
		return x == nil
	case *omap:
		return x == nil
	case iface:
		return x.t == nil
	case []value:
		return x == nil
	case *ssa.Function:
		return x == nil
	case *ssa.Builtin:
		return x == nil
	case *closure:
		return x == nil
	default:
		panic(fmt.Sprintf("reflect.(Value).IsNil(%T)", x))
	}
}

func ext۰reflect۰Value۰IsValid(fr *frame, args []value) value {
	// Signature: func (reflect.Value) bool
	return rV2V(args[0]) != nil
}

func ext۰reflect۰Value۰Set(fr *frame, args []value) value {
	// TODO(adonovan): implement.
	return nil
}

func ext۰reflect۰valueInterface(fr *frame, args []value) value {
	// Signature: func (v reflect.Value, safe bool) interface{}
	v := args[0].(structure)
	// a Value of interface kind (an element of []interface{}, a map value of
	// map[string]interface{}) holds the dynamic value: Interface() returns that
	// value, not an interface wrapped in an interface
	if inner, ok := rV2V(v).(iface); ok && types.IsInterface(rV2T(v).t) {
		return inner
	}
	return iface{rV2T(v).t, rV2V(v)}
}

func ext۰reflect۰error۰Error(fr *frame, args []value) value {
	return args[0]
}

// newMethod creates a new method of the specified name, package and receiver type.
func newMethod(pkg *ssa.Package, recvType types.Type, name string) *ssa.Function {
	// TODO(adonovan): fix: hack: currently the only part of Signature
	// that is needed is the "pointerness" of Recv.Type, and for
	// now, we'll set it to always be false since we're only
	// concerned with rtype.  Encapsulate this better.
	sig := types.NewSignature(types.NewVar(token.NoPos, nil, "recv", recvType), nil, nil, false)
	fn := pkg.Prog.NewFunction(name, sig, "fake reflect method")
	fn.Pkg = pkg
	return fn
}

func initReflectProg(i *progInfo) {
	i.reflectPackage = &ssa.Package{
		Prog:    i.prog,
		Pkg:     reflectTypesPackage,
		Members: make(map[string]ssa.Member),
	}

	// Clobber the type-checker's notion of reflect.Value's
	// underlying type so that it more closely matches the fake one
	// (at least in the number of fields---we lie about the type of
	// the rtype field).
	//
	// We must ensure that calls to (ssa.Value).Type() return the
	// fake type so that correct "shape" is used when allocating
	// variables, making zero values, loading, and storing.
	//
	// TODO(adonovan): obviously this is a hack.  We need a cleaner
	// way to fake the reflect package (almost---DeepEqual is fine).
	// One approach would be not to even load its source code, but
	// provide fake source files.  This would guarantee that no bad
	// information leaks into other packages.
	if r := i.prog.ImportedPackage("reflect"); r != nil {
		rV := r.Pkg.Scope().Lookup("Value").Type().(*types.Named)

		// delete bodies of the old methods
		mset := i.prog.MethodSets.MethodSet(rV)
		for j := 0; j < mset.Len(); j++ {
			i.prog.MethodValue(mset.At(j)).Blocks = nil
		}

		tEface := types.NewInterface(nil, nil).Complete()
		rV.SetUnderlying(types.NewStruct([]*types.Var{
			types.NewField(token.NoPos, r.Pkg, "t", tEface, false), // a lie
			types.NewField(token.NoPos, r.Pkg, "v", tEface, false),
		}, nil))
	}

	i.rtypeMethods = methodSet{
		"Bits":      newMethod(i.reflectPackage, rtypeType, "Bits"),
		"Elem":      newMethod(i.reflectPackage, rtypeType, "Elem"),
		"Field":     newMethod(i.reflectPackage, rtypeType, "Field"),
		"In":        newMethod(i.reflectPackage, rtypeType, "In"),
		"Kind":      newMethod(i.reflectPackage, rtypeType, "Kind"),
		"NumField":  newMethod(i.reflectPackage, rtypeType, "NumField"),
		"NumIn":     newMethod(i.reflectPackage, rtypeType, "NumIn"),
		"NumMethod": newMethod(i.reflectPackage, rtypeType, "NumMethod"),
		"NumOut":    newMethod(i.reflectPackage, rtypeType, "NumOut"),
		"Out":       newMethod(i.reflectPackage, rtypeType, "Out"),
		"Size":      newMethod(i.reflectPackage, rtypeType, "Size"),
		"String":    newMethod(i.reflectPackage, rtypeType, "String"),
	}
	i.errorMethods = methodSet{
		"Error": newMethod(i.reflectPackage, errorType, "Error"),
	}
	i.wrapErrMethods = methodSet{
		"Error":  newMethod(i.reflectPackage, wrapErrType, "Error"),
		"Unwrap": newMethod(i.reflectPackage, wrapErrType, "Unwrap"),
	}
}

// wrapErr is the interpreter's model of fmt's *wrapError (message + wrapped error).
var wrapErrType = makeNamedType("wrapErr", &opaqueType{nil, "wrapErr"})

type reflectTag = reflect.StructTag

