package interp

import "github.com/robfig/cron/v3"

func cronValidate(spec string) error {
	_, err := cron.ParseStandard(spec)
	return err
}
