// gosx: process death. The path's effect log holds every durable effect (KV
// commit, file write) and the verifhook.Point markers; a crash keeps the
// effects before a chosen marker and drops everything in memory.

package interp

import "fmt"

const hookPkg = "github.com/mimiro-io/datahub/internal/verifhook"

func (e *envState) rebuildDurable(p *pathState, upto int) {
	eff := e.effects[:upto]
	for _, d := range e.disks {
		d.reset()
		d.open = false
	}
	e.files = map[string]value{}
	e.dirs = map[string]bool{}
	for _, x := range eff {
		switch x.kind {
		case "kv":
			x.disk.apply(p, x.writes)
		case "fs":
			switch {
			case x.remove:
				delete(e.files, x.path)
				delete(e.dirs, x.path)
			default:
				if _, isDir := x.data.(dirMarker); isDir {
					e.fsMkdir(x.path)
				} else {
					e.files[x.path] = x.data
				}
			}
		}
	}
	e.effects = append([]effect{}, eff...)
	// in-memory state of the dead process
	e.mutexes = map[*value]*mutexState{}
	e.wgs = map[*value]*wgState{}
	e.onces = map[*value]bool{}
	e.syncMaps = map[*value]*omap{}
	for _, t := range e.timers {
		t.stopped = true
	}
}

// commitPoint: after h.CrashAtCommits() every statement of /repo code that
// commits to Badger — db.Update(..) (commits when its closure returns) and
// txn.Commit() — is a crash candidate named commit:<file>:<line>, placed right
// before the statement: a crash there is a crash after the previous commit and
// before this one, so together these candidates cover every gap between two
// Badger commits made by the operation, not only the hand-placed
// verifhook.Point boundaries. The replay build has
// verifhook.Point("commit:<file>:<line>") inserted before the same statements.
func commitPoint(fr *frame) {
	p := fr.i.path
	e := p.env
	if !e.crashCommits || fr.caller == nil || fr.caller.fn == nil {
		return
	}
	file := fr.i.prog.Fset.Position(fr.caller.fn.Pos()).Filename
	if !inRepo(file) {
		return
	}
	name := "commit:" + mutexName(fr)
	e.pointHits[name]++
	e.effects = append(e.effects, effect{kind: "point", label: fmt.Sprintf("%s#%d", name, e.pointHits[name])})
}

func init() {
	externals[hookPkg+".Point"] = func(fr *frame, args []value) value {
		p := fr.i.path
		name := concStr(args[0], "verifhook.Point")
		p.env.pointHits[name]++
		p.env.effects = append(p.env.effects, effect{kind: "point", label: fmt.Sprintf("%s#%d", name, p.env.pointHits[name])})
		th := p.sched.cur
		if th.pointHits == nil {
			th.pointHits = map[string]int{}
		}
		th.pointHits[name]++
		// "NAME#k": the k-th time this thread reaches the boundary NAME
		p.sched.yield(fmt.Sprintf("point:%s#%d", name, th.pointHits[name]))
		return nil
	}
	externals[hookPkg+".SetCallback"] = func(fr *frame, args []value) value { return nil }
	H := func(name string, f externalFn) { externals["(*"+verifhPkg+".H)."+name] = f }
	H("BeforeCrash", func(fr *frame, args []value) value { return true })
	H("CrashWindowStart", func(fr *frame, args []value) value {
		fr.i.path.env.crashWindow = len(fr.i.path.env.effects)
		return nil
	})
	H("CrashAndRecover", func(fr *frame, args []value) value {
		p := fr.i.path
		e := p.env
		var cands []int
		var labels []string
		for k := e.crashWindow; k < len(e.effects); k++ {
			if e.effects[k].kind == "point" {
				cands = append(cands, k)
				labels = append(labels, e.effects[k].label)
			}
		}
		cands = append(cands, len(e.effects))
		labels = append(labels, "after-return")
		v := p.fresh("crashpos", bvSort(64), "choice")
		k := p.chooseFree(v, len(cands))
		p.note("crash at %s (boundary %d of %d)", labels[k], k, len(cands)-1)
		e.acked = k == len(cands)-1
		// other threads die with the process
		for _, t := range p.sched.threads[1:] {
			if t.state != 2 {
				t.state = 1
				t.cond = func() bool { return false }
				t.what = "dead (process crashed)"
			}
		}
		e.rebuildDurable(p, cands[k])
		return nil
	})
	H("CrashAtCommits", func(fr *frame, args []value) value {
		fr.i.path.env.crashCommits = true
		return nil
	})
	H("RecycleIteratorKeys", func(fr *frame, args []value) value {
		fr.i.path.env.recycleKeys = true
		return nil
	})
	H("FailWrites", func(fr *frame, args []value) value {
		fr.i.path.env.failWriteSuffix = concStr(args[1], "FailWrites")
		return nil
	})
	H("Remote", func(fr *frame, args []value) value {
		e := fr.i.path.env
		e.remotePages = []string{}
		for _, pg := range args[1].([]value) {
			e.remotePages = append(e.remotePages, concStr(pg, "Remote page"))
		}
		e.remoteServed = 0
		e.remoteRequests = nil
		e.remoteLog = nil
		return "http://remote.invalid/datasets/r/changes"
	})
	H("RemoteRequests", func(fr *frame, args []value) value {
		out := []value{}
		for _, r := range fr.i.path.env.remoteRequests {
			out = append(out, r)
		}
		return out
	})
	H("RemoteLog", func(fr *frame, args []value) value {
		out := []value{}
		for _, r := range fr.i.path.env.remoteLog {
			out = append(out, r)
		}
		return out
	})
	H("Acked", func(fr *frame, args []value) value { return fr.i.path.env.acked })
}
