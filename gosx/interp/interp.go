// Copyright 2013 The Go Authors. All rights reserved.
// Use of this source code is governed by a BSD-style
// license that can be found in the LICENSE file.

// Package interp (gosx fork of golang.org/x/tools/go/ssa/interp v0.29.0) defines an interpreter for the SSA
// representation of Go programs.
//
// This interpreter is provided as an adjunct for testing the SSA
// construction algorithm.  Its purpose is to provide a minimal
// metacircular implementation of the dynamic semantics of each SSA
// instruction.  It is not, and will never be, a production-quality Go
// interpreter.
//
// The following is a partial list of Go features that are currently
// unsupported or incomplete in the interpreter.
//
// * Unsafe operations, including all uses of unsafe.Pointer, are
// impossible to support given the "boxed" value representation we
// have chosen.
//
// * The reflect package is only partially implemented.
//
// * The "testing" package is no longer supported because it
// depends on low-level details that change too often.
//
// * "sync/atomic" operations are not atomic due to the "boxed" value
// representation: it is not possible to read, modify and write an
// interface value atomically. As a consequence, Mutexes are currently
// broken.
//
// * recover is only partially implemented.  Also, the interpreter
// makes no attempt to distinguish target panics from interpreter
// crashes.
//
// * the sizes of the int, uint and uintptr types in the target
// program are assumed to be the same as those of the interpreter
// itself.
//
// * all values occupy space, even those of types defined by the spec
// to have zero size, e.g. struct{}.  This can cause asymptotic
// performance degradation.
//
// * os.Exit is implemented using panic, causing deferred functions to
// run.
package interp

import (
	"fmt"
	"go/token"
	"go/types"
	"os"
	"runtime"
	"slices"
	"strings"
	_ "unsafe"

	"golang.org/x/tools/go/ssa"
)

type continuation int

const (
	kNext continuation = iota
	kReturn
	kJump
)

// Mode is a bitmask of options affecting the interpreter.
type Mode uint

const (
	DisableRecover Mode = 1 << iota // Disable recover() in target programs; show interpreter crash instead.
	EnableTracing                   // Print a trace of all instructions as they are interpreted.
)

type methodSet map[string]*ssa.Function

// progInfo is the immutable state shared by all workers.
type progInfo struct {
	prog               *ssa.Program
	reflectPackage     *ssa.Package
	errorMethods       methodSet
	rtypeMethods       methodSet
	runtimeErrorString types.Type
	sizes              types.Sizes
	initPkgs           []*ssa.Package // packages whose init is executed per path
	initPrefix         string
	wrapErrMethods     methodSet
}

// State of one path execution (one interpreter instance per path).
type interpreter struct {
	*progInfo
	globals map[*ssa.Global]*value // addresses of global variables
	lazyInited map[*ssa.Package]bool
	forceInit  *ssa.Package
	mode    Mode
	path    *pathState
}

type deferred struct {
	fn    value
	args  []value
	instr *ssa.Defer
	tail  *deferred
}

type frame struct {
	i                *interpreter
	caller           *frame
	fn               *ssa.Function
	block, prevBlock *ssa.BasicBlock
	env              map[ssa.Value]value // dynamic values of SSA variables
	locals           []value
	defers           *deferred
	result           value
	panicking        bool
	panic            interface{}
	phitemps         []value // temporaries for parallel phi assignment
	curInstr         ssa.Instruction
	thread           *thread
}

func (fr *frame) get(key ssa.Value) value {
	switch key := key.(type) {
	case nil:
		// Hack; simplifies handling of optional attributes
		// such as ssa.Slice.{Low,High}.
		return nil
	case *ssa.Function, *ssa.Builtin:
		return key
	case *ssa.Const:
		return constValue(key)
	case *ssa.Global:
		if r, ok := fr.i.globals[key]; ok {
			return r
		}
		return fr.i.globalAddr(key)
	}
	if r, ok := fr.env[key]; ok {
		return r
	}
	panic(fmt.Sprintf("get: no value for %T: %v", key, key.Name()))
}

// runDefer runs a deferred call d.
// It always returns normally, but may set or clear fr.panic.
func (fr *frame) runDefer(d *deferred) {
	var ok bool
	defer func() {
		if !ok {
			// Deferred call created a new state of panic.
			p := recover()
			if isEnginePanic(p) {
				panic(p)
			}
			fr.panicking = true
			fr.panic = p
		}
	}()
	call(fr.i, fr, d.instr.Pos(), d.fn, d.args)
	ok = true
}

// runDefers executes fr's deferred function calls in LIFO order.
func (fr *frame) runDefers() {
	for d := fr.defers; d != nil; d = d.tail {
		fr.runDefer(d)
	}
	fr.defers = nil
	if fr.panicking {
		panic(fr.panic) // new panic, or still panicking
	}
}

// lookupMethod returns the method set for type typ, which may be one
// of the interpreter's fake types.
func lookupMethod(i *interpreter, typ types.Type, meth *types.Func) *ssa.Function {
	switch typ {
	case rtypeType:
		return i.rtypeMethods[meth.Id()]
	case errorType:
		return i.errorMethods[meth.Id()]
	case wrapErrType:
		return i.wrapErrMethods[meth.Id()]
	}
	return i.prog.LookupMethod(typ, meth.Pkg(), meth.Name())
}

// visitInstr interprets a single ssa.Instruction within the activation
// record frame.  It returns a continuation value indicating where to
// read the next instruction from.
func visitInstr(fr *frame, instr ssa.Instruction) continuation {
	p := fr.i.path
	p.step()
	fr.curInstr = instr
	p.lastFrame = fr
	switch instr := instr.(type) {
	case *ssa.DebugRef:
		// no-op

	case *ssa.UnOp:
		fr.env[instr] = unop(fr, instr, fr.get(instr.X))

	case *ssa.BinOp:
		fr.env[instr] = binop(fr, instr.Op, instr.X.Type(), fr.get(instr.X), fr.get(instr.Y))

	case *ssa.Call:
		fn, args := prepareCall(fr, &instr.Call)
		fr.env[instr] = call(fr.i, fr, instr.Pos(), fn, args)

	case *ssa.ChangeInterface:
		fr.env[instr] = fr.get(instr.X)

	case *ssa.ChangeType:
		fr.env[instr] = fr.get(instr.X) // (can't fail)

	case *ssa.Convert:
		fr.env[instr] = conv(fr, instr.Type(), instr.X.Type(), fr.get(instr.X))

	case *ssa.SliceToArrayPointer:
		fr.env[instr] = sliceToArrayPointer(instr.Type(), instr.X.Type(), fr.get(instr.X))

	case *ssa.MakeInterface:
		fr.env[instr] = iface{t: instr.X.Type(), v: fr.get(instr.X)}

	case *ssa.Extract:
		fr.env[instr] = fr.get(instr.Tuple).(tuple)[instr.Index]

	case *ssa.Slice:
		fr.env[instr] = slice(fr, fr.get(instr.X), fr.get(instr.Low), fr.get(instr.High), fr.get(instr.Max))

	case *ssa.Return:
		switch len(instr.Results) {
		case 0:
		case 1:
			fr.result = fr.get(instr.Results[0])
		default:
			var res []value
			for _, r := range instr.Results {
				res = append(res, fr.get(r))
			}
			fr.result = tuple(res)
		}
		fr.block = nil
		return kReturn

	case *ssa.RunDefers:
		fr.runDefers()

	case *ssa.Panic:
		panic(targetPanic{fr.get(instr.X)})

	case *ssa.Send:
		chanSend(fr, fr.get(instr.Chan), fr.get(instr.X))

	case *ssa.Store:
		store(mustDeref(instr.Addr.Type()), fr.get(instr.Addr).(*value), fr.get(instr.Val))

	case *ssa.If:
		succ := 1
		if p.concBool(fr.get(instr.Cond)) {
			succ = 0
		}
		fr.prevBlock, fr.block = fr.block, fr.block.Succs[succ]
		return kJump

	case *ssa.Jump:
		fr.prevBlock, fr.block = fr.block, fr.block.Succs[0]
		return kJump

	case *ssa.Defer:
		fn, args := prepareCall(fr, &instr.Call)
		defers := &fr.defers
		if into := fr.get(instr.DeferStack); into != nil {
			defers = into.(**deferred)
		}
		*defers = &deferred{
			fn:    fn,
			args:  args,
			instr: instr,
			tail:  *defers,
		}

	case *ssa.Go:
		fn, args := prepareCall(fr, &instr.Call)
		p.sched.spawn(fr, instr.Pos(), fn, args)

	case *ssa.MakeChan:
		fr.env[instr] = newChan(int(p.concInt(fr.get(instr.Size), "chan size")), instr.Type().Underlying().(*types.Chan).Elem())

	case *ssa.Alloc:
		var addr *value
		if instr.Heap {
			// new
			addr = new(value)
			fr.env[instr] = addr
		} else {
			// local
			addr = fr.env[instr].(*value)
		}
		*addr = zero(mustDeref(instr.Type()))

	case *ssa.MakeSlice:
		c := p.concInt(fr.get(instr.Cap), "make cap")
		l := p.concInt(fr.get(instr.Len), "make len")
		if l < 0 || l > 1<<24 {
			panic("runtime error: makeslice: len out of range")
		}
		if c < l || c > 1<<24 {
			panic("runtime error: makeslice: cap out of range")
		}
		slice := make([]value, c)
		tElt := instr.Type().Underlying().(*types.Slice).Elem()
		for i := range slice {
			slice[i] = zero(tElt)
		}
		fr.env[instr] = slice[:l]

	case *ssa.MakeMap:
		if instr.Reserve != nil {
			p.concInt(fr.get(instr.Reserve), "map reserve")
		}
		fr.env[instr] = makeMap(instr.Type().Underlying().(*types.Map).Key(), 0)

	case *ssa.Range:
		fr.env[instr] = rangeIter(fr, fr.get(instr.X), instr.X.Type())

	case *ssa.Next:
		fr.env[instr] = fr.get(instr.Iter).(iter).next()

	case *ssa.FieldAddr:
		x := fr.get(instr.X).(*value)
		if x == nil {
			panic("runtime error: invalid memory address or nil pointer dereference")
		}
		fr.env[instr] = &(*x).(structure)[instr.Field]

	case *ssa.Field:
		fr.env[instr] = fr.get(instr.X).(structure)[instr.Field]

	case *ssa.IndexAddr:
		x := fr.get(instr.X)
		idx := p.concInt(fr.get(instr.Index), "index")
		switch x := x.(type) {
		case []value:
			if idx < 0 || idx >= int64(len(x)) {
				panic(fmt.Sprintf("runtime error: index out of range [%d] with length %d", idx, len(x)))
			}
			fr.env[instr] = &x[idx]
		case *value: // *array
			if x == nil {
				panic("runtime error: invalid memory address or nil pointer dereference")
			}
			a := (*x).(array)
			if idx < 0 || idx >= int64(len(a)) {
				panic(fmt.Sprintf("runtime error: index out of range [%d] with length %d", idx, len(a)))
			}
			fr.env[instr] = &a[idx]
		case *blob:
			panic(unsupported{"byte access into a modelled JSON blob"})
		default:
			panic(fmt.Sprintf("unexpected x type in IndexAddr: %T", x))
		}

	case *ssa.Index:
		x := fr.get(instr.X)
		idx := p.concInt(fr.get(instr.Index), "index")
		switch x := x.(type) {
		case array:
			fr.env[instr] = x[idx]
		case string:
			if idx < 0 || idx >= int64(len(x)) {
				panic(fmt.Sprintf("runtime error: index out of range [%d] with length %d", idx, len(x)))
			}
			fr.env[instr] = x[idx]
		case symstr:
			if idx < 0 || idx >= int64(len(x)) {
				panic(fmt.Sprintf("runtime error: index out of range [%d] with length %d", idx, len(x)))
			}
			fr.env[instr] = x[idx]
		default:
			panic(fmt.Sprintf("unexpected x type in Index: %T", x))
		}

	case *ssa.Lookup:
		fr.env[instr] = lookup(fr, instr, fr.get(instr.X), fr.get(instr.Index))

	case *ssa.MapUpdate:
		m := fr.get(instr.Map)
		key := fr.get(instr.Key)
		v := fr.get(instr.Value)
		switch m := m.(type) {
		case *omap:
			if m == nil {
				panic("assignment to entry in nil map")
			}
			m.insert(p, key, v)
		default:
			panic(fmt.Sprintf("illegal map type: %T", m))
		}

	case *ssa.TypeAssert:
		fr.env[instr] = typeAssert(fr.i, instr, fr.get(instr.X).(iface))

	case *ssa.MakeClosure:
		var bindings []value
		for _, binding := range instr.Bindings {
			bindings = append(bindings, fr.get(binding))
		}
		fr.env[instr] = &closure{instr.Fn.(*ssa.Function), bindings}

	case *ssa.Phi:
		panic("unreachable") // phis are processed at block entry

	case *ssa.Select:
		fr.env[instr] = chanSelect(fr, instr)

	default:
		panic(fmt.Sprintf("unexpected instruction: %T", instr))
	}

	return kNext
}

// prepareCall determines the function value and argument values for a
// function call in a Call, Go or Defer instruction, performing
// interface method lookup if needed.
func prepareCall(fr *frame, call *ssa.CallCommon) (fn value, args []value) {
	v := fr.get(call.Value)
	if call.Method == nil {
		// Function call.
		fn = v
	} else {
		// Interface method invocation.
		recv := v.(iface)
		if recv.t == nil {
			panic("runtime error: invalid memory address or nil pointer dereference (method invoked on nil interface)")
		}
		if f := lookupMethod(fr.i, recv.t, call.Method); f == nil {
			// Unreachable in well-typed programs.
			panic(fmt.Sprintf("method set for dynamic type %v does not contain %s", recv.t, call.Method))
		} else {
			fn = f
		}
		args = append(args, recv.v)
	}
	for _, arg := range call.Args {
		args = append(args, fr.get(arg))
	}
	return
}

// call interprets a call to a function (function, builtin or closure)
// fn with arguments args, returning its result.
// callpos is the position of the callsite.
func call(i *interpreter, caller *frame, callpos token.Pos, fn value, args []value) value {
	switch fn := fn.(type) {
	case *ssa.Function:
		if fn == nil {
			panic("runtime error: invalid memory address or nil pointer dereference (call of nil function)") // nil of func type
		}
		return callSSA(i, caller, callpos, fn, args, nil)
	case *closure:
		return callSSA(i, caller, callpos, fn.Fn, args, fn.Env)
	case *ssa.Builtin:
		return callBuiltin(caller, callpos, fn, args)
	case *nativeFn:
		return fn.f(caller, args)
	}
	panic(fmt.Sprintf("cannot call %T", fn))
}

func loc(fset *token.FileSet, pos token.Pos) string {
	if pos == token.NoPos {
		return ""
	}
	return " at " + fset.Position(pos).String()
}

// callSSA interprets a call to function fn with arguments args,
// and lexical environment env, returning its result.
// callpos is the position of the callsite.
func callSSA(i *interpreter, caller *frame, callpos token.Pos, fn *ssa.Function, args []value, env []value) value {
	p := i.path
	if i.mode&EnableTracing != 0 {
		fmt.Fprintf(os.Stderr, "Entering %s%s.\n", fn, loc(fn.Prog.Fset, fn.Pos()))
	}
	fr := &frame{
		i:      i,
		caller: caller, // for panic/recover
		fn:     fn,
	}
	if caller != nil {
		fr.thread = caller.thread
	} else {
		fr.thread = p.sched.cur
	}
	if fn.Parent() == nil {
		if fn.Synthetic == "package initializer" && !strings.HasPrefix(pkgPathOf(fn), i.initPrefix) && !(i.forceInit != nil && fn.Pkg == i.forceInit) {
			return nil // init of packages outside the code under test is not executed
		}
		if ext := findExternal(i, fn); ext != nil {
			return ext(fr, args)
		}
		if fn.Blocks == nil {
			panic(unsupported{"no code for function: " + fn.String()})
		}
	}
	p.depth++
	if p.depth > p.maxDepth {
		// Unbounded recursion is a process-killing stack overflow in Go; the
		// native replay decides whether this is real (crash) or merely deep.
		p.depth = 0
		panic(targetPanic{iface{types.Typ[types.String], fmt.Sprintf("stack overflow: call depth %d exceeded in %s", p.maxDepth, fn)}})
	}
	defer func() { p.depth-- }()
	p.w.funcs[fn]++

	// generic function body?
	if fn.TypeParams().Len() > 0 && len(fn.TypeArgs()) == 0 {
		panic("interp requires ssa.BuilderMode to include InstantiateGenerics to execute generics")
	}

	fr.env = make(map[ssa.Value]value)
	fr.block = fn.Blocks[0]
	fr.locals = make([]value, len(fn.Locals))
	for i, l := range fn.Locals {
		fr.locals[i] = zero(mustDeref(l.Type()))
		fr.env[l] = &fr.locals[i]
	}
	for i, p := range fn.Params {
		fr.env[p] = args[i]
	}
	for i, fv := range fn.FreeVars {
		fr.env[fv] = env[i]
	}
	for fr.block != nil {
		runFrame(fr)
	}
	// Destroy the locals to avoid accidental use after return.
	for i := range fn.Locals {
		fr.locals[i] = bad{}
	}
	return fr.result
}

// runFrame executes SSA instructions starting at fr.block and
// continuing until a return, a panic, or a recovered panic.
func runFrame(fr *frame) {
	defer func() {
		if fr.block == nil {
			return // normal return
		}
		pv := recover()
		if isEnginePanic(pv) {
			panic(pv) // engine control flow: no defers, not recoverable
		}
		if fr.i.mode&DisableRecover != 0 {
			panic(pv)
		}
		fr.panicking = true
		fr.panic = pv
		if fr.i.path.panicStack == "" {
			fr.i.path.panicStack = stackString(fr)
		}
		if fr.i.mode&EnableTracing != 0 {
			fmt.Fprintf(os.Stderr, "Panicking: %T %v.\n", fr.panic, fr.panic)
		}
		fr.runDefers()
		fr.block = fr.fn.Recover
	}()

	for {
		if fr.i.mode&EnableTracing != 0 {
			fmt.Fprintf(os.Stderr, ".%s:\n", fr.block)
		}

		nonPhis := executePhis(fr)
		for _, instr := range nonPhis {
			if fr.i.mode&EnableTracing != 0 {
				if v, ok := instr.(ssa.Value); ok {
					fmt.Fprintln(os.Stderr, "\t", v.Name(), "=", instr)
				} else {
					fmt.Fprintln(os.Stderr, "\t", instr)
				}
			}
			if visitInstr(fr, instr) == kReturn {
				return
			}
			// Inv: kNext (continue) or kJump (last instr)
		}
	}
}

// executePhis executes the phi-nodes at the start of the current
// block and returns the non-phi instructions.
func executePhis(fr *frame) []ssa.Instruction {
	firstNonPhi := -1
	for i, instr := range fr.block.Instrs {
		if _, ok := instr.(*ssa.Phi); !ok {
			firstNonPhi = i
			break
		}
	}
	// Inv: 0 <= firstNonPhi; every block contains a non-phi.

	nonPhis := fr.block.Instrs[firstNonPhi:]
	if firstNonPhi > 0 {
		phis := fr.block.Instrs[:firstNonPhi]
		predIndex := slices.Index(fr.block.Preds, fr.prevBlock)
		fr.phitemps = fr.phitemps[:0]
		for _, phi := range phis {
			phi := phi.(*ssa.Phi)
			fr.phitemps = append(fr.phitemps, fr.get(phi.Edges[predIndex]))
		}
		for i, phi := range phis {
			fr.env[phi.(*ssa.Phi)] = fr.phitemps[i]
		}
	}
	return nonPhis
}

// doRecover implements the recover() built-in.
func doRecover(caller *frame) value {
	// recover() must be exactly one level beneath the deferred
	// function (two levels beneath the panicking function) to
	// have any effect.  Thus we ignore both "defer recover()" and
	// "defer f() -> g() -> recover()".
	if caller.i.mode&DisableRecover == 0 &&
		caller != nil && !caller.panicking &&
		caller.caller != nil && caller.caller.panicking {
		caller.caller.panicking = false
		p := caller.caller.panic
		caller.caller.panic = nil
		caller.i.path.panicStack = ""

		switch p := p.(type) {
		case targetPanic:
			// The target program explicitly called panic().
			return p.v
		case runtime.Error:
			// The interpreter encountered a runtime error.
			return iface{caller.i.runtimeErrorString, p.Error()}
		case string:
			// The interpreter explicitly called panic().
			return iface{caller.i.runtimeErrorString, p}
		default:
			panic(fmt.Sprintf("unexpected panic type %T in target call to recover()", p))
		}
	}
	return iface{}
}

// globalAddr lazily allocates storage for a global of a package whose init
// is not executed; reading such a global with a non-constant initialiser is
// outside the modelled world unless allow-listed.
func (i *interpreter) globalAddr(g *ssa.Global) *value {
	if v, ok := modelledGlobal(i, g); ok {
		i.globals[g] = v
		return v
	}
	// packages of the request path (echo and its middleware) get their own
	// package initialiser run the first time one of their globals is touched:
	// their error values, default configs and handler variables are set by it.
	if g.Pkg != nil && inList(g.Pkg.Pkg.Path(), lazyInitPkgs) && !i.lazyInited[g.Pkg] {
		if i.lazyInited == nil {
			i.lazyInited = map[*ssa.Package]bool{}
		}
		i.lazyInited[g.Pkg] = true
		if f := g.Pkg.Func("init"); f != nil {
			prev := i.forceInit
			i.forceInit = g.Pkg
			call(i, nil, token.NoPos, f, nil)
			i.forceInit = prev
		}
		if v, ok := i.globals[g]; ok {
			return v
		}
	}
	cell := zero(mustDeref(g.Type()))
	i.globals[g] = &cell
	return &cell
}

// lazyInitPkgs: packages outside the code under test whose package
// initialiser is executed on first use of one of their globals.
var lazyInitPkgs = []string{
	"github.com/labstack/echo/v4",
	"github.com/labstack/echo/v4/middleware",
}

func mustDeref(t types.Type) types.Type {
	if p, ok := t.Underlying().(*types.Pointer); ok {
		return p.Elem()
	}
	panic(fmt.Sprintf("mustDeref(%s): not a pointer", t))
}

// stackString renders the target-level call stack of fr (innermost first).
func stackString(fr *frame) string {
	var sb strings.Builder
	n := 0
	for f := fr; f != nil && n < 12; f = f.caller {
		if f.fn == nil {
			continue
		}
		pos := ""
		if f.curInstr != nil {
			p := f.fn.Prog.Fset.Position(f.curInstr.Pos())
			if p.IsValid() {
				pos = fmt.Sprintf(" %s:%d", p.Filename, p.Line)
			}
		}
		fmt.Fprintf(&sb, "%s%s; ", f.fn.String(), pos)
		n++
	}
	return sb.String()
}
