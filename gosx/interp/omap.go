// gosx: ordered map replacing the interpreter's native maps.
//
// Iteration order is insertion order (deterministic, so that paths can be
// re-executed); keys with symbolic parts are compared by equality terms and
// fork through pathState.decide.

package interp

import (
	"bytes"
	"go/types"
)

type oentry struct {
	key   value
	val   value
	alive bool
	ck    string // canonical key ("" if symbolic)
}

type omap struct {
	keyType types.Type
	ents    []*oentry
	idx     map[string]*oentry
	nsym    int
}

func makeMap(kt types.Type, reserve int64) value {
	return &omap{keyType: kt, idx: map[string]*oentry{}}
}

func (m *omap) len() int {
	if m == nil {
		return 0
	}
	return len(m.ents)
}

func canonKey(k value) (string, bool) {
	var buf bytes.Buffer
	if !canon(&buf, k) {
		return "", false
	}
	return buf.String(), true
}

// findEntry returns the entry for key k, or nil.
func (m *omap) findEntry(p *pathState, k value) *oentry {
	if m == nil {
		return nil
	}
	ck, conc := canonKey(k)
	if conc {
		if e, ok := m.idx[ck]; ok {
			return e
		}
		if m.nsym == 0 {
			return nil
		}
	}
	b := p.bank()
	for _, e := range m.ents {
		if conc && e.ck != "" {
			continue // both concrete and different (idx missed)
		}
		c := eqv(b, m.keyType, e.key, k)
		if c.isConst {
			if c.cval == 1 {
				return e
			}
			continue
		}
		if p.decide(c) {
			return e
		}
	}
	return nil
}

func (m *omap) lookup(p *pathState, k value) (value, bool) {
	if e := m.findEntry(p, k); e != nil {
		return e.val, true
	}
	return nil, false
}

func (m *omap) insert(p *pathState, k, v value) {
	if e := m.findEntry(p, k); e != nil {
		e.val = v
		return
	}
	e := &oentry{key: k, val: v, alive: true}
	if ck, ok := canonKey(k); ok {
		e.ck = ck
		m.idx[ck] = e
	} else {
		m.nsym++
	}
	m.ents = append(m.ents, e)
}

func (m *omap) delete(p *pathState, k value) {
	e := m.findEntry(p, k)
	if e == nil {
		return
	}
	e.alive = false
	if e.ck != "" {
		delete(m.idx, e.ck)
	} else {
		m.nsym--
	}
	for i, x := range m.ents {
		if x == e {
			m.ents = append(m.ents[:i:i], m.ents[i+1:]...)
			break
		}
	}
}

func (m *omap) iter() iter {
	if m == nil {
		return &omapIter{}
	}
	return &omapIter{ents: append([]*oentry(nil), m.ents...)}
}

// clone makes a shallow copy (used by model code that snapshots maps).
func (m *omap) clone() *omap {
	if m == nil {
		return nil
	}
	n := &omap{keyType: m.keyType, idx: map[string]*oentry{}, nsym: m.nsym}
	for _, e := range m.ents {
		c := *e
		n.ents = append(n.ents, &c)
		if c.ck != "" {
			n.idx[c.ck] = &c
		}
	}
	return n
}
