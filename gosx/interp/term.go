// gosx: SMT terms with hash-consing and constant folding.
//
// Sorts: Bool, BitVec(w) with w <= 64 for folded arithmetic (wider vectors
// only arise from concat for lexicographic key comparison and are never
// folded), and Float64 (FloatingPoint 11 53).

package interp

import (
	"fmt"
	"math"
	"strconv"
	"strings"
)

type sortKind uint8

const (
	sBool sortKind = iota
	sBV
	sFP
)

type Sort struct {
	k sortKind
	w int
}

func (s Sort) String() string {
	switch s.k {
	case sBool:
		return "Bool"
	case sBV:
		return fmt.Sprintf("(_ BitVec %d)", s.w)
	}
	return "(_ FloatingPoint 11 53)"
}

var boolSort = Sort{sBool, 0}
var fpSort = Sort{sFP, 64}

func bvSort(w int) Sort { return Sort{sBV, w} }

// Term is an immutable, hash-consed SMT term owned by one TermBank.
type Term struct {
	id      int
	op      string
	args    []*Term
	sort    Sort
	isConst bool
	cval    uint64 // BV (w<=64) / Bool(0,1) / FP bits constant
	name    string // variables
	p1, p2  int    // extract hi lo / extend amount
	defined bool   // emitted to the solver of the owning worker
}

func (t *Term) IsConst() bool { return t.isConst }

// TermBank owns the terms of one worker.
type TermBank struct {
	tab   map[string]*Term
	all   []*Term
	vars  map[string]*Term
	tt    *Term
	ff    *Term
	nvars int
}

func NewTermBank() *TermBank {
	b := &TermBank{tab: map[string]*Term{}, vars: map[string]*Term{}}
	b.tt = b.mk(&Term{op: "true", sort: boolSort, isConst: true, cval: 1})
	b.ff = b.mk(&Term{op: "false", sort: boolSort, isConst: true, cval: 0})
	return b
}

func (b *TermBank) key(t *Term) string {
	var sb strings.Builder
	sb.WriteString(t.op)
	sb.WriteByte('|')
	sb.WriteString(strconv.Itoa(int(t.sort.k)))
	sb.WriteByte(':')
	sb.WriteString(strconv.Itoa(t.sort.w))
	if t.isConst {
		sb.WriteString("|c")
		sb.WriteString(strconv.FormatUint(t.cval, 16))
	}
	if t.name != "" {
		sb.WriteString("|n")
		sb.WriteString(t.name)
	}
	if t.p1 != 0 || t.p2 != 0 {
		sb.WriteString("|p")
		sb.WriteString(strconv.Itoa(t.p1))
		sb.WriteByte(',')
		sb.WriteString(strconv.Itoa(t.p2))
	}
	for _, a := range t.args {
		sb.WriteByte(',')
		sb.WriteString(strconv.Itoa(a.id))
	}
	return sb.String()
}

func (b *TermBank) mk(t *Term) *Term {
	k := b.key(t)
	if o, ok := b.tab[k]; ok {
		return o
	}
	t.id = len(b.all)
	b.all = append(b.all, t)
	b.tab[k] = t
	return t
}

func mask(w int) uint64 {
	if w >= 64 {
		return ^uint64(0)
	}
	return (uint64(1) << uint(w)) - 1
}

func sext(v uint64, w int) int64 {
	if w >= 64 {
		return int64(v)
	}
	sh := uint(64 - w)
	return int64(v<<sh) >> sh
}

func (b *TermBank) Bool(v bool) *Term {
	if v {
		return b.tt
	}
	return b.ff
}

func (b *TermBank) BV(v uint64, w int) *Term {
	if w > 64 {
		panic("BV const wider than 64")
	}
	return b.mk(&Term{op: "bvc", sort: bvSort(w), isConst: true, cval: v & mask(w)})
}

func (b *TermBank) FPConst(f float64) *Term {
	return b.mk(&Term{op: "fpc", sort: fpSort, isConst: true, cval: math.Float64bits(f)})
}

// Var returns the variable with the given name (created on first use).
func (b *TermBank) Var(name string, s Sort) *Term {
	if v, ok := b.vars[name]; ok {
		if v.sort != s {
			panic(fmt.Sprintf("gosx: variable %s redeclared with sort %v (was %v)", name, s, v.sort))
		}
		return v
	}
	v := b.mk(&Term{op: "var", sort: s, name: name})
	b.vars[name] = v
	return v
}

// ---- boolean connectives

func (b *TermBank) Not(x *Term) *Term {
	if x.isConst {
		return b.Bool(x.cval == 0)
	}
	if x.op == "not" {
		return x.args[0]
	}
	return b.mk(&Term{op: "not", args: []*Term{x}, sort: boolSort})
}

func (b *TermBank) And(xs ...*Term) *Term {
	var out []*Term
	for _, x := range xs {
		if x.isConst {
			if x.cval == 0 {
				return b.ff
			}
			continue
		}
		dup := false
		for _, o := range out {
			if o == x {
				dup = true
			}
		}
		if !dup {
			out = append(out, x)
		}
	}
	switch len(out) {
	case 0:
		return b.tt
	case 1:
		return out[0]
	}
	return b.mk(&Term{op: "and", args: out, sort: boolSort})
}

func (b *TermBank) Or(xs ...*Term) *Term {
	var out []*Term
	for _, x := range xs {
		if x.isConst {
			if x.cval == 1 {
				return b.tt
			}
			continue
		}
		dup := false
		for _, o := range out {
			if o == x {
				dup = true
			}
		}
		if !dup {
			out = append(out, x)
		}
	}
	switch len(out) {
	case 0:
		return b.ff
	case 1:
		return out[0]
	}
	return b.mk(&Term{op: "or", args: out, sort: boolSort})
}

func (b *TermBank) Implies(x, y *Term) *Term { return b.Or(b.Not(x), y) }

func (b *TermBank) Ite(c, x, y *Term) *Term {
	if c.isConst {
		if c.cval == 1 {
			return x
		}
		return y
	}
	if x == y {
		return x
	}
	if x.sort != y.sort {
		panic(fmt.Sprintf("gosx: ite sort mismatch %v %v", x.sort, y.sort))
	}
	if x.sort.k == sBool {
		if x.isConst && y.isConst {
			if x.cval == 1 {
				return c
			}
			return b.Not(c)
		}
	}
	return b.mk(&Term{op: "ite", args: []*Term{c, x, y}, sort: x.sort})
}

func (b *TermBank) Eq(x, y *Term) *Term {
	if x == y {
		return b.tt
	}
	if x.sort != y.sort {
		panic(fmt.Sprintf("gosx: eq sort mismatch %v %v", x.sort, y.sort))
	}
	if x.isConst && y.isConst {
		if x.sort.k == sFP {
			return b.Bool(math.Float64frombits(x.cval) == math.Float64frombits(y.cval))
		}
		return b.Bool(x.cval == y.cval)
	}
	if x.sort.k == sFP {
		return b.mk(&Term{op: "fp.eq", args: []*Term{x, y}, sort: boolSort})
	}
	if x.sort.k == sBool {
		if x.isConst {
			if x.cval == 1 {
				return y
			}
			return b.Not(y)
		}
		if y.isConst {
			if y.cval == 1 {
				return x
			}
			return b.Not(x)
		}
	}
	if x.id > y.id {
		x, y = y, x
	}
	return b.mk(&Term{op: "=", args: []*Term{x, y}, sort: boolSort})
}

// ---- bit-vector operations

func (b *TermBank) bin(op string, x, y *Term) *Term {
	if x.sort != y.sort {
		panic(fmt.Sprintf("gosx: %s sort mismatch %v %v", op, x.sort, y.sort))
	}
	w := x.sort.w
	if x.isConst && y.isConst && w <= 64 {
		a, c := x.cval, y.cval
		var r uint64
		ok := true
		switch op {
		case "bvadd":
			r = a + c
		case "bvsub":
			r = a - c
		case "bvmul":
			r = a * c
		case "bvand":
			r = a & c
		case "bvor":
			r = a | c
		case "bvxor":
			r = a ^ c
		case "bvudiv":
			if c == 0 {
				r = mask(w)
			} else {
				r = a / c
			}
		case "bvurem":
			if c == 0 {
				r = a
			} else {
				r = a % c
			}
		case "bvsdiv":
			sa, sc := sext(a, w), sext(c, w)
			if sc == 0 {
				if sa < 0 {
					r = 1
				} else {
					r = mask(w)
				}
			} else if sc == -1 {
				r = uint64(-sa)
			} else {
				r = uint64(sa / sc)
			}
		case "bvsrem":
			sa, sc := sext(a, w), sext(c, w)
			if sc == 0 {
				r = a
			} else if sc == -1 {
				r = 0
			} else {
				r = uint64(sa % sc)
			}
		case "bvshl":
			if c >= uint64(w) {
				r = 0
			} else {
				r = a << c
			}
		case "bvlshr":
			if c >= uint64(w) {
				r = 0
			} else {
				r = a >> c
			}
		case "bvashr":
			sa := sext(a, w)
			if c >= uint64(w) {
				if sa < 0 {
					r = mask(w)
				} else {
					r = 0
				}
			} else {
				r = uint64(sa >> c)
			}
		default:
			ok = false
		}
		if ok {
			return b.BV(r, w)
		}
	}
	// light identities
	switch op {
	case "bvadd", "bvor", "bvxor":
		if x.isConst && x.cval == 0 {
			return y
		}
		if y.isConst && y.cval == 0 {
			return x
		}
	case "bvsub", "bvshl", "bvlshr", "bvashr":
		if y.isConst && y.cval == 0 {
			return x
		}
	case "bvand":
		if (x.isConst && x.cval == 0) || (y.isConst && y.cval == 0) {
			return b.BV(0, w)
		}
		if x.isConst && w <= 64 && x.cval == mask(w) {
			return y
		}
		if y.isConst && w <= 64 && y.cval == mask(w) {
			return x
		}
	case "bvmul":
		if x.isConst && x.cval == 1 {
			return y
		}
		if y.isConst && y.cval == 1 {
			return x
		}
		if (x.isConst && x.cval == 0) || (y.isConst && y.cval == 0) {
			return b.BV(0, w)
		}
	}
	// or/shl of byte-assembly: (zext a)<<8 | zext b  ==> handled by the solver
	return b.mk(&Term{op: op, args: []*Term{x, y}, sort: x.sort})
}

func (b *TermBank) Add(x, y *Term) *Term  { return b.bin("bvadd", x, y) }
func (b *TermBank) Sub(x, y *Term) *Term  { return b.bin("bvsub", x, y) }
func (b *TermBank) Mul(x, y *Term) *Term  { return b.bin("bvmul", x, y) }
func (b *TermBank) BAnd(x, y *Term) *Term { return b.bin("bvand", x, y) }
func (b *TermBank) BOr(x, y *Term) *Term  { return b.bin("bvor", x, y) }
func (b *TermBank) BXor(x, y *Term) *Term { return b.bin("bvxor", x, y) }
func (b *TermBank) UDiv(x, y *Term) *Term { return b.bin("bvudiv", x, y) }
func (b *TermBank) URem(x, y *Term) *Term { return b.bin("bvurem", x, y) }
func (b *TermBank) SDiv(x, y *Term) *Term { return b.bin("bvsdiv", x, y) }
func (b *TermBank) SRem(x, y *Term) *Term { return b.bin("bvsrem", x, y) }
func (b *TermBank) Shl(x, y *Term) *Term  { return b.bin("bvshl", x, y) }
func (b *TermBank) LShr(x, y *Term) *Term { return b.bin("bvlshr", x, y) }
func (b *TermBank) AShr(x, y *Term) *Term { return b.bin("bvashr", x, y) }

func (b *TermBank) BNot(x *Term) *Term {
	if x.isConst {
		return b.BV(^x.cval, x.sort.w)
	}
	return b.mk(&Term{op: "bvnot", args: []*Term{x}, sort: x.sort})
}

func (b *TermBank) Neg(x *Term) *Term {
	if x.isConst {
		return b.BV(-x.cval, x.sort.w)
	}
	return b.mk(&Term{op: "bvneg", args: []*Term{x}, sort: x.sort})
}

func (b *TermBank) cmp(op string, x, y *Term) *Term {
	if x.sort != y.sort {
		panic(fmt.Sprintf("gosx: %s sort mismatch %v %v", op, x.sort, y.sort))
	}
	w := x.sort.w
	if x.isConst && y.isConst && w <= 64 {
		switch op {
		case "bvult":
			return b.Bool(x.cval < y.cval)
		case "bvule":
			return b.Bool(x.cval <= y.cval)
		case "bvslt":
			return b.Bool(sext(x.cval, w) < sext(y.cval, w))
		case "bvsle":
			return b.Bool(sext(x.cval, w) <= sext(y.cval, w))
		}
	}
	if x == y {
		return b.Bool(op == "bvule" || op == "bvsle")
	}
	return b.mk(&Term{op: op, args: []*Term{x, y}, sort: boolSort})
}

func (b *TermBank) ULt(x, y *Term) *Term { return b.cmp("bvult", x, y) }
func (b *TermBank) ULe(x, y *Term) *Term { return b.cmp("bvule", x, y) }
func (b *TermBank) SLt(x, y *Term) *Term { return b.cmp("bvslt", x, y) }
func (b *TermBank) SLe(x, y *Term) *Term { return b.cmp("bvsle", x, y) }

func (b *TermBank) Extract(hi, lo int, x *Term) *Term {
	if lo == 0 && hi == x.sort.w-1 {
		return x
	}
	w := hi - lo + 1
	if x.isConst {
		return b.BV(x.cval>>uint(lo), w)
	}
	switch x.op {
	case "extract":
		return b.Extract(hi+x.p2, lo+x.p2, x.args[0])
	case "zext":
		iw := x.args[0].sort.w
		if hi < iw {
			return b.Extract(hi, lo, x.args[0])
		}
		if lo >= iw {
			return b.BV(0, w)
		}
	case "sext":
		iw := x.args[0].sort.w
		if hi < iw {
			return b.Extract(hi, lo, x.args[0])
		}
	case "concat":
		// args[0] is the high part
		lw := x.args[1].sort.w
		if hi < lw {
			return b.Extract(hi, lo, x.args[1])
		}
		if lo >= lw {
			return b.Extract(hi-lw, lo-lw, x.args[0])
		}
	case "bvlshr":
		// (x >> c)[hi:lo] with constant c and hi+c < w  ==> x[hi+c:lo+c]
		if c := x.args[1]; c.isConst && int(c.cval)+hi < x.sort.w {
			return b.Extract(hi+int(c.cval), lo+int(c.cval), x.args[0])
		}
	case "bvor", "bvand", "bvxor":
		return b.bin(x.op, b.Extract(hi, lo, x.args[0]), b.Extract(hi, lo, x.args[1]))
	case "bvshl":
		if c := x.args[1]; c.isConst {
			sh := int(c.cval)
			if lo >= sh {
				return b.Extract(hi-sh, lo-sh, x.args[0])
			}
			if hi < sh {
				return b.BV(0, w)
			}
		}
	}
	return b.mk(&Term{op: "extract", args: []*Term{x}, sort: bvSort(w), p1: hi, p2: lo})
}

func (b *TermBank) ZExt(x *Term, to int) *Term {
	if to == x.sort.w {
		return x
	}
	if to < x.sort.w {
		return b.Extract(to-1, 0, x)
	}
	if x.isConst {
		return b.BV(x.cval, to)
	}
	return b.mk(&Term{op: "zext", args: []*Term{x}, sort: bvSort(to), p1: to - x.sort.w})
}

func (b *TermBank) SExt(x *Term, to int) *Term {
	if to == x.sort.w {
		return x
	}
	if to < x.sort.w {
		return b.Extract(to-1, 0, x)
	}
	if x.isConst {
		return b.BV(uint64(sext(x.cval, x.sort.w)), to)
	}
	return b.mk(&Term{op: "sext", args: []*Term{x}, sort: bvSort(to), p1: to - x.sort.w})
}

// Concat: hi is the most significant part.
func (b *TermBank) Concat(hi, lo *Term) *Term {
	w := hi.sort.w + lo.sort.w
	if hi.isConst && lo.isConst && w <= 64 {
		return b.BV(hi.cval<<uint(lo.sort.w)|lo.cval, w)
	}
	// adjacent extracts of the same term merge
	if hi.op == "extract" && lo.op == "extract" && hi.args[0] == lo.args[0] && hi.p2 == lo.p1+1 {
		return b.Extract(hi.p1, lo.p2, hi.args[0])
	}
	return b.mk(&Term{op: "concat", args: []*Term{hi, lo}, sort: bvSort(w)})
}

// ---- floating point (float64 only)

func (b *TermBank) FPBin(op string, x, y *Term) *Term {
	if x.isConst && y.isConst {
		a, c := math.Float64frombits(x.cval), math.Float64frombits(y.cval)
		switch op {
		case "fp.add":
			return b.FPConst(a + c)
		case "fp.sub":
			return b.FPConst(a - c)
		case "fp.mul":
			return b.FPConst(a * c)
		case "fp.div":
			return b.FPConst(a / c)
		}
	}
	return b.mk(&Term{op: op, args: []*Term{x, y}, sort: fpSort})
}

func (b *TermBank) FPCmp(op string, x, y *Term) *Term {
	if x.isConst && y.isConst {
		a, c := math.Float64frombits(x.cval), math.Float64frombits(y.cval)
		switch op {
		case "fp.lt":
			return b.Bool(a < c)
		case "fp.leq":
			return b.Bool(a <= c)
		case "fp.gt":
			return b.Bool(a > c)
		case "fp.geq":
			return b.Bool(a >= c)
		}
	}
	return b.mk(&Term{op: op, args: []*Term{x, y}, sort: boolSort})
}

func (b *TermBank) FPNeg(x *Term) *Term {
	if x.isConst {
		return b.FPConst(-math.Float64frombits(x.cval))
	}
	return b.mk(&Term{op: "fp.neg", args: []*Term{x}, sort: fpSort})
}

// FPRound is math.Round: round half away from zero.
func (b *TermBank) FPRound(x *Term) *Term {
	if x.isConst {
		return b.FPConst(math.Round(math.Float64frombits(x.cval)))
	}
	return b.mk(&Term{op: "fp.round.rna", args: []*Term{x}, sort: fpSort})
}

func (b *TermBank) FPFloor(x *Term) *Term {
	if x.isConst {
		return b.FPConst(math.Floor(math.Float64frombits(x.cval)))
	}
	return b.mk(&Term{op: "fp.round.rtn", args: []*Term{x}, sort: fpSort})
}

func (b *TermBank) FPCeil(x *Term) *Term {
	if x.isConst {
		return b.FPConst(math.Ceil(math.Float64frombits(x.cval)))
	}
	return b.mk(&Term{op: "fp.round.rtp", args: []*Term{x}, sort: fpSort})
}

// IntToFP converts a bit-vector (signed or unsigned) to float64 (RNE).
func (b *TermBank) IntToFP(x *Term, signed bool) *Term {
	if x.isConst {
		if signed {
			return b.FPConst(float64(sext(x.cval, x.sort.w)))
		}
		return b.FPConst(float64(x.cval))
	}
	op := "to_fp_unsigned"
	if signed {
		op = "to_fp_signed"
	}
	return b.mk(&Term{op: op, args: []*Term{x}, sort: fpSort})
}

// FPToInt converts float64 to a bit-vector of width w, truncating (RTZ).
func (b *TermBank) FPToInt(x *Term, w int, signed bool) *Term {
	if x.isConst {
		f := math.Float64frombits(x.cval)
		if signed {
			return b.BV(uint64(int64(f)), w)
		}
		return b.BV(uint64(f), w)
	}
	op := "fp.to_ubv"
	if signed {
		op = "fp.to_sbv"
	}
	return b.mk(&Term{op: op, args: []*Term{x}, sort: bvSort(w), p1: w})
}

// ---- printing

// ref returns the solver-level name of a term (constants and variables are
// printed inline; every other term gets a define-fun at level 0).
func (t *Term) ref() string {
	if t.isConst {
		switch t.sort.k {
		case sBool:
			return t.op
		case sBV:
			if t.sort.w%4 == 0 {
				return fmt.Sprintf("#x%0*x", t.sort.w/4, t.cval)
			}
			return fmt.Sprintf("#b%0*b", t.sort.w, t.cval)
		case sFP:
			f := t.cval
			return fmt.Sprintf("(fp #b%b #b%011b #b%052b)", f>>63, (f>>52)&0x7ff, f&((1<<52)-1))
		}
	}
	if t.op == "var" {
		return "|" + t.name + "|"
	}
	return "t" + strconv.Itoa(t.id)
}

func (t *Term) body() string {
	var sb strings.Builder
	sb.WriteByte('(')
	switch t.op {
	case "extract":
		fmt.Fprintf(&sb, "(_ extract %d %d)", t.p1, t.p2)
	case "zext":
		fmt.Fprintf(&sb, "(_ zero_extend %d)", t.p1)
	case "sext":
		fmt.Fprintf(&sb, "(_ sign_extend %d)", t.p1)
	case "fp.add", "fp.sub", "fp.mul", "fp.div":
		sb.WriteString(t.op + " RNE")
	case "fp.round.rna":
		sb.WriteString("fp.roundToIntegral RNA")
	case "fp.round.rtn":
		sb.WriteString("fp.roundToIntegral RTN")
	case "fp.round.rtp":
		sb.WriteString("fp.roundToIntegral RTP")
	case "to_fp_signed":
		sb.WriteString("(_ to_fp 11 53) RNE")
	case "to_fp_unsigned":
		sb.WriteString("(_ to_fp_unsigned 11 53) RNE")
	case "fp.to_sbv":
		fmt.Fprintf(&sb, "(_ fp.to_sbv %d) RTZ", t.p1)
	case "fp.to_ubv":
		fmt.Fprintf(&sb, "(_ fp.to_ubv %d) RTZ", t.p1)
	default:
		sb.WriteString(t.op)
	}
	for _, a := range t.args {
		sb.WriteByte(' ')
		sb.WriteString(a.ref())
	}
	sb.WriteByte(')')
	return sb.String()
}

// String renders the term as a self-contained expression (for evidence and
// debugging; exponential on shared DAGs, so only used on small terms).
func (t *Term) String() string {
	if t.isConst || t.op == "var" {
		return t.ref()
	}
	var sb strings.Builder
	sb.WriteByte('(')
	sb.WriteString(t.op)
	for _, a := range t.args {
		sb.WriteByte(' ')
		sb.WriteString(a.String())
	}
	sb.WriteByte(')')
	return sb.String()
}
