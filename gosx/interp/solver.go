// gosx: one long-lived SMT solver process per worker.
//
// All declarations and definitions live at assertion level 0 (they are
// emitted before the push of the query that first needs them), so the
// hash-consed terms of a worker are sent to its solver exactly once even
// though paths are explored by re-execution.

package interp

import (
	"bufio"
	"fmt"
	"io"
	"os/exec"
	"sort"
	"strconv"
	"strings"
	"time"
)

type SolverStats struct {
	Feasibility int64
	Deciding    int64
	Sat         int64
	Unsat       int64
	Unknown     int64
	Errors      int64
	ModelQs     int64
	TimeNS      int64
	Restarts    int64
}

func (s *SolverStats) add(o *SolverStats) {
	s.Feasibility += o.Feasibility
	s.Deciding += o.Deciding
	s.Sat += o.Sat
	s.Unsat += o.Unsat
	s.Unknown += o.Unknown
	s.Errors += o.Errors
	s.ModelQs += o.ModelQs
	s.TimeNS += o.TimeNS
	s.Restarts += o.Restarts
}

type Solver struct {
	bank      *TermBank
	cmd       *exec.Cmd
	in        io.WriteCloser
	out       *bufio.Reader
	timeoutMS int
	stats     SolverStats
	buf       strings.Builder
	bin       string
	args      []string
	ndefined  int
	stack     []*Term // assertions currently on the solver's stack (one push level each)
}

func NewSolver(bank *TermBank, timeoutMS int) *Solver {
	s := &Solver{bank: bank, timeoutMS: timeoutMS, bin: "z3", args: []string{"-in", "-smt2"}}
	s.start()
	return s
}

func (s *Solver) start() {
	cmd := exec.Command(s.bin, s.args...)
	in, err := cmd.StdinPipe()
	if err != nil {
		panic(err)
	}
	out, err := cmd.StdoutPipe()
	if err != nil {
		panic(err)
	}
	cmd.Stderr = nil
	if err := cmd.Start(); err != nil {
		panic(fmt.Sprintf("gosx: cannot start solver %s: %v", s.bin, err))
	}
	s.cmd, s.in, s.out = cmd, in, bufio.NewReaderSize(out, 1<<16)
	fmt.Fprintf(s.in, "(set-option :produce-models true)\n(set-option :global-declarations true)\n(set-option :timeout %d)\n", s.timeoutMS)
	s.stack = nil
	for _, t := range s.bank.all {
		t.defined = false
	}
	s.ndefined = 0
}

func (s *Solver) Close() {
	if s.cmd != nil {
		s.in.Close()
		done := make(chan struct{})
		go func() { s.cmd.Wait(); close(done) }()
		select {
		case <-done:
		case <-time.After(2 * time.Second):
			s.cmd.Process.Kill()
			<-done
		}
		s.cmd = nil
	}
}

func (s *Solver) restart() {
	if s.cmd != nil {
		s.cmd.Process.Kill()
		s.cmd.Wait()
	}
	s.stats.Restarts++
	s.start()
}

// define emits declarations/definitions for t's closure into s.buf.
func (s *Solver) define(t *Term) {
	if t.defined || t.isConst {
		return
	}
	// iterative post-order to avoid deep recursion on long chains
	type fr struct {
		t *Term
		i int
	}
	st := []fr{{t, 0}}
	for len(st) > 0 {
		f := &st[len(st)-1]
		if f.t.defined || f.t.isConst {
			st = st[:len(st)-1]
			continue
		}
		if f.i < len(f.t.args) {
			a := f.t.args[f.i]
			f.i++
			if !a.defined && !a.isConst {
				st = append(st, fr{a, 0})
			}
			continue
		}
		x := f.t
		if x.op == "var" {
			fmt.Fprintf(&s.buf, "(declare-const %s %s)\n", x.ref(), x.sort)
		} else {
			fmt.Fprintf(&s.buf, "(define-fun %s () %s %s)\n", x.ref(), x.sort, x.body())
		}
		x.defined = true
		s.ndefined++
		st = st[:len(st)-1]
	}
}

type satResult int

const (
	rUnsat satResult = iota
	rSat
	rUnknown
)

func (r satResult) String() string {
	return [...]string{"unsat", "sat", "unknown"}[r]
}

// check decides satisfiability of the conjunction of cs. If wantModel is
// non-nil and the result is sat, the values of those terms are returned.
func (s *Solver) check(cs []*Term, deciding bool, wantModel []*Term) (satResult, map[*Term]uint64) {
	t0 := time.Now()
	defer func() { s.stats.TimeNS += time.Since(t0).Nanoseconds() }()
	if deciding {
		s.stats.Deciding++
	} else {
		s.stats.Feasibility++
	}
	if s.ndefined > 400000 {
		s.restart()
	}
	s.buf.Reset()
	for _, c := range cs {
		s.define(c)
	}
	for _, m := range wantModel {
		s.define(m)
	}
	// keep the path condition on the solver's assertion stack: pop back to the
	// longest common prefix with what is asserted, push the rest; only the last
	// conjunct is asserted under a temporary level
	base := cs
	var last *Term
	if len(cs) > 0 {
		base, last = cs[:len(cs)-1], cs[len(cs)-1]
	}
	common := 0
	for common < len(s.stack) && common < len(base) && s.stack[common] == base[common] {
		common++
	}
	if n := len(s.stack) - common; n > 0 {
		fmt.Fprintf(&s.buf, "(pop %d)\n", n)
		s.stack = s.stack[:common]
	}
	for _, c := range base[common:] {
		s.buf.WriteString("(push 1)\n(assert ")
		s.buf.WriteString(c.ref())
		s.buf.WriteString(")\n")
		s.stack = append(s.stack, c)
	}
	s.buf.WriteString("(push 1)\n")
	if last != nil {
		s.buf.WriteString("(assert ")
		s.buf.WriteString(last.ref())
		s.buf.WriteString(")\n")
	}
	s.buf.WriteString("(check-sat)\n(echo \"@@\")\n")
	if _, err := io.WriteString(s.in, s.buf.String()); err != nil {
		s.stats.Errors++
		s.restart()
		return rUnknown, nil
	}
	lines, ok := s.readUntilMarker()
	res := rUnknown
	if ok {
		sawErr := false
		for _, l := range lines {
			switch {
			case l == "sat":
				res = rSat
			case l == "unsat":
				res = rUnsat
			case l == "unknown" || l == "timeout":
				res = rUnknown
			case strings.HasPrefix(l, "(error"):
				sawErr = true
			}
		}
		if sawErr {
			s.stats.Errors++
			res = rUnknown
		}
	} else {
		s.stats.Errors++
		s.restart()
		return rUnknown, nil
	}
	var model map[*Term]uint64
	if res == rSat && len(wantModel) > 0 {
		model = s.getValues(wantModel)
	}
	io.WriteString(s.in, "(pop 1)\n")
	switch res {
	case rSat:
		s.stats.Sat++
	case rUnsat:
		s.stats.Unsat++
	default:
		s.stats.Unknown++
	}
	return res, model
}

func (s *Solver) readUntilMarker() ([]string, bool) {
	var lines []string
	for {
		l, err := s.out.ReadString('\n')
		if err != nil {
			return lines, false
		}
		l = strings.TrimSpace(l)
		if l == "@@" || l == "\"@@\"" {
			return lines, true
		}
		if l != "" {
			lines = append(lines, l)
		}
	}
}

func (s *Solver) getValues(ts []*Term) map[*Term]uint64 {
	s.stats.ModelQs++
	out := map[*Term]uint64{}
	// chunk to keep lines reasonable
	for i := 0; i < len(ts); i += 50 {
		j := i + 50
		if j > len(ts) {
			j = len(ts)
		}
		var sb strings.Builder
		sb.WriteString("(get-value (")
		n := 0
		for _, t := range ts[i:j] {
			if t.isConst {
				out[t] = t.cval
				continue
			}
			sb.WriteString(t.ref())
			sb.WriteByte(' ')
			n++
		}
		sb.WriteString("))\n(echo \"@@\")\n")
		if n == 0 {
			continue
		}
		io.WriteString(s.in, sb.String())
		lines, ok := s.readUntilMarker()
		if !ok {
			return out
		}
		vals := parseValues(strings.Join(lines, " "))
		k := 0
		for _, t := range ts[i:j] {
			if t.isConst {
				continue
			}
			if k < len(vals) {
				out[t] = vals[k]
			}
			k++
		}
	}
	return out
}

// parseValues parses "((name val) (name val) ...)" and returns the values
// in order. BV → integer, Bool → 0/1, FP → IEEE bits.
func parseValues(s string) []uint64 {
	toks := tokenize(s)
	pos := 0
	var parse func() interface{}
	parse = func() interface{} {
		if pos >= len(toks) {
			return nil
		}
		t := toks[pos]
		pos++
		if t == "(" {
			var l []interface{}
			for pos < len(toks) && toks[pos] != ")" {
				l = append(l, parse())
			}
			pos++
			return l
		}
		return t
	}
	top, _ := parse().([]interface{})
	var out []uint64
	for _, p := range top {
		pair, ok := p.([]interface{})
		if !ok || len(pair) != 2 {
			out = append(out, 0)
			continue
		}
		out = append(out, valueOf(pair[1]))
	}
	return out
}

func valueOf(v interface{}) uint64 {
	switch v := v.(type) {
	case string:
		switch {
		case v == "true":
			return 1
		case v == "false":
			return 0
		case strings.HasPrefix(v, "#x"):
			if len(v) > 18 {
				v = "#x" + v[len(v)-16:]
			}
			n, _ := strconv.ParseUint(v[2:], 16, 64)
			return n
		case strings.HasPrefix(v, "#b"):
			if len(v) > 66 {
				v = "#b" + v[len(v)-64:]
			}
			n, _ := strconv.ParseUint(v[2:], 2, 64)
			return n
		}
	case []interface{}:
		if len(v) == 4 {
			if h, _ := v[0].(string); h == "fp" {
				sg := valueOf(v[1])
				ex := valueOf(v[2])
				mn := valueOf(v[3])
				return sg<<63 | ex<<52 | mn
			}
		}
		if len(v) == 3 {
			// (_ bvN w)  or (_ +zero 11 53) etc.
			if h, _ := v[0].(string); h == "_" {
				if n, ok := v[1].(string); ok && strings.HasPrefix(n, "bv") {
					x, _ := strconv.ParseUint(n[2:], 10, 64)
					return x
				}
			}
		}
		if len(v) == 4 {
			if h, _ := v[0].(string); h == "_" {
				switch v[1] {
				case "+zero":
					return 0
				case "-zero":
					return 1 << 63
				case "+oo":
					return 0x7ff << 52
				case "-oo":
					return 0xfff << 52
				case "NaN":
					return 0x7ff8 << 48
				}
			}
		}
	}
	return 0
}

func tokenize(s string) []string {
	var toks []string
	i := 0
	for i < len(s) {
		c := s[i]
		switch {
		case c == ' ' || c == '\t' || c == '\n' || c == '\r':
			i++
		case c == '(' || c == ')':
			toks = append(toks, string(c))
			i++
		case c == '|':
			j := i + 1
			for j < len(s) && s[j] != '|' {
				j++
			}
			toks = append(toks, s[i:j+1])
			i = j + 1
		default:
			j := i
			for j < len(s) && !strings.ContainsRune(" \t\n\r()", rune(s[j])) {
				j++
			}
			toks = append(toks, s[i:j])
			i = j
		}
	}
	return toks
}

// Script renders a standalone SMT-LIB2 script deciding the conjunction of cs
// (used for cross-solver agreement and kept as evidence).
func Script(cs []*Term) string {
	var sb strings.Builder
	seen := map[*Term]bool{}
	var order []*Term
	var visit func(t *Term)
	visit = func(t *Term) {
		if seen[t] || t.isConst {
			return
		}
		seen[t] = true
		for _, a := range t.args {
			visit(a)
		}
		order = append(order, t)
	}
	for _, c := range cs {
		visit(c)
	}
	sort.SliceStable(order, func(i, j int) bool { return order[i].id < order[j].id })
	for _, x := range order {
		if x.op == "var" {
			fmt.Fprintf(&sb, "(declare-const %s %s)\n", x.ref(), x.sort)
		} else {
			fmt.Fprintf(&sb, "(define-fun %s () %s %s)\n", x.ref(), x.sort, x.body())
		}
	}
	for _, c := range cs {
		fmt.Fprintf(&sb, "(assert %s)\n", c.ref())
	}
	sb.WriteString("(check-sat)\n")
	return sb.String()
}
