// gosx: program loading, workers and path exploration.

package interp

import (
	"fmt"
	"go/token"
	"go/types"
	"os"
	"runtime"
	"runtime/debug"
	"sort"
	"strings"
	"sync"
	"time"

	"golang.org/x/tools/go/packages"
	"golang.org/x/tools/go/ssa"
	"golang.org/x/tools/go/ssa/ssautil"
)

type LoadConfig struct {
	Dir        string
	Patterns   []string
	Overlay    map[string][]byte
	BuildTags  []string
	InitPrefix string // packages with this path prefix have their init run on every path
}

type Program struct {
	info     *progInfo
	pkgs     []*packages.Package
	LoadTime time.Duration
}

// repoRoot is the directory of the tree under test ("/repo/" by default), used
// to tell its source files from harness and library files.
var repoRoot = "/repo/"

func inRepo(file string) bool {
	return strings.HasPrefix(file, repoRoot) && !strings.Contains(file, "zz_verif") && !strings.Contains(file, "/internal/verifh")
}

func Load(cfg LoadConfig) (*Program, error) {
	t0 := time.Now()
	if cfg.Dir != "" {
		repoRoot = strings.TrimSuffix(cfg.Dir, "/") + "/"
	}
	pc := &packages.Config{
		Mode:    packages.LoadAllSyntax,
		Dir:     cfg.Dir,
		Overlay: cfg.Overlay,
		Env:     append(os.Environ(), "GOFLAGS=-mod=mod", "GOPROXY=off", "GOSUMDB=off", "GOTOOLCHAIN=local"),
	}
	if len(cfg.BuildTags) > 0 {
		pc.BuildFlags = []string{"-tags=" + strings.Join(cfg.BuildTags, ",")}
	}
	pkgs, err := packages.Load(pc, cfg.Patterns...)
	if err != nil {
		return nil, err
	}
	var errs []string
	packages.Visit(pkgs, nil, func(p *packages.Package) {
		for _, e := range p.Errors {
			errs = append(errs, e.Error())
		}
	})
	if len(errs) > 0 {
		if len(errs) > 10 {
			errs = errs[:10]
		}
		return nil, fmt.Errorf("package load errors:\n%s", strings.Join(errs, "\n"))
	}
	prog, _ := ssautil.AllPackages(pkgs, ssa.InstantiateGenerics|ssa.SanityCheckFunctions&0)
	prog.Build()
	info := &progInfo{prog: prog, sizes: &types.StdSizes{WordSize: 8, MaxAlign: 8}}
	runtimePkg := prog.ImportedPackage("runtime")
	if runtimePkg == nil {
		return nil, fmt.Errorf("ssa.Program doesn't include runtime package")
	}
	info.runtimeErrorString = runtimePkg.Type("errorString").Object().Type()
	initReflectProg(info)
	for _, p := range prog.AllPackages() {
		if cfg.InitPrefix != "" && strings.HasPrefix(p.Pkg.Path(), cfg.InitPrefix) {
			info.initPkgs = append(info.initPkgs, p)
		}
	}
	sort.Slice(info.initPkgs, func(a, b int) bool { return info.initPkgs[a].Pkg.Path() < info.initPkgs[b].Pkg.Path() })
	info.initPrefix = cfg.InitPrefix
	return &Program{info: info, pkgs: pkgs, LoadTime: time.Since(t0)}, nil
}

func (pr *Program) NumPackages() int { return len(pr.info.prog.AllPackages()) }

// HarnessFuncs lists the functions of pkgPath whose name starts with prefix.
func (pr *Program) HarnessFuncs(pkgPath, prefix string) []string {
	var out []string
	for _, p := range pr.info.prog.AllPackages() {
		if p.Pkg.Path() == pkgPath {
			for name, m := range p.Members {
				if _, ok := m.(*ssa.Function); ok && strings.HasPrefix(name, prefix) {
					out = append(out, name)
				}
			}
		}
	}
	sort.Strings(out)
	return out
}

type RunConfig struct {
	Workers         int
	MaxPaths        int
	MaxSteps        int64
	MaxDepth        int
	SolverTimeoutMS int
	KeepScripts     bool
	Samples         int // completed paths for which a model and observations are extracted
	StopOnViolation bool
	Params          map[string]int
	Trace           bool
	Deadline        time.Time
}

type Sample struct {
	Model    map[string]uint64 `json:"model"`
	Order    []string          `json:"order"`
	Observed []string          `json:"observed"`
	Notes    []string          `json:"notes,omitempty"`
}

type Report struct {
	Harness      string
	Paths        int
	Completed    int
	Infeasible   int
	Unsupported  int
	Unwind       int
	EngineErrors int
	Forks        int64
	Decisions    int64
	Steps        int64
	Asserts      int64
	Violations   []Violation
	Inconclusive []string
	Samples      []Sample
	Scripts      []string
	Funcs        map[string]int64
	Solver       SolverStats
	Wall         time.Duration
	Truncated    bool
}

type engine struct {
	pr   *Program
	cfg  RunConfig
	fn   *ssa.Function
	mu   sync.Mutex
	cond *sync.Cond
	work [][]traceEntry
	busy int
	stop bool
	rep    *Report
	nsmp   int
	vcount map[string]int
}

type worker struct {
	eng      *engine
	bank     *TermBank
	solver   *Solver
	extCache map[*ssa.Function]externalFn
	funcs    map[*ssa.Function]int64
}

func (e *engine) push(prefix []traceEntry) {
	e.mu.Lock()
	e.work = append(e.work, prefix)
	e.mu.Unlock()
	e.cond.Signal()
}

func (e *engine) pop() ([]traceEntry, bool) {
	e.mu.Lock()
	defer e.mu.Unlock()
	for {
		if e.stop {
			return nil, false
		}
		if n := len(e.work); n > 0 {
			p := e.work[n-1]
			e.work = e.work[:n-1]
			e.busy++
			return p, true
		}
		if e.busy == 0 {
			e.cond.Broadcast()
			return nil, false
		}
		e.cond.Wait()
	}
}

func (e *engine) done() {
	e.mu.Lock()
	e.busy--
	if e.busy == 0 && len(e.work) == 0 {
		e.cond.Broadcast()
	}
	e.mu.Unlock()
}

// Run explores all paths of the harness function pkgPath.fname.
func (pr *Program) Run(pkgPath, fname string, cfg RunConfig) *Report {
	t0 := time.Now()
	rep := &Report{Harness: pkgPath + "." + fname, Funcs: map[string]int64{}}
	var fn *ssa.Function
	for _, p := range pr.info.prog.AllPackages() {
		if p.Pkg.Path() == pkgPath {
			fn = p.Func(fname)
		}
	}
	if fn == nil {
		rep.Inconclusive = append(rep.Inconclusive, "harness function not found: "+pkgPath+"."+fname)
		return rep
	}
	if cfg.Workers <= 0 {
		cfg.Workers = runtime.NumCPU()
	}
	if cfg.MaxPaths <= 0 {
		cfg.MaxPaths = 200000
	}
	if cfg.MaxSteps <= 0 {
		cfg.MaxSteps = 5_000_000
	}
	if cfg.MaxDepth <= 0 {
		cfg.MaxDepth = 400
	}
	if cfg.SolverTimeoutMS <= 0 {
		cfg.SolverTimeoutMS = 10000
	}
	e := &engine{pr: pr, cfg: cfg, fn: fn, rep: rep}
	e.cond = sync.NewCond(&e.mu)
	e.work = [][]traceEntry{nil}
	var wg sync.WaitGroup
	for k := 0; k < cfg.Workers; k++ {
		wg.Add(1)
		go func() {
			defer wg.Done()
			w := &worker{eng: e, bank: NewTermBank(), extCache: map[*ssa.Function]externalFn{}, funcs: map[*ssa.Function]int64{}}
			w.solver = NewSolver(w.bank, cfg.SolverTimeoutMS)
			defer w.solver.Close()
			for {
				prefix, ok := e.pop()
				if !ok {
					break
				}
				res := w.runPath(prefix)
				e.merge(res)
				e.done()
				// keep memory bounded: a fresh bank/solver after many terms
				if len(w.bank.all) > 150_000 {
					w.solver.Close()
					e.mu.Lock()
					rep.Solver.add(&w.solver.stats)
					e.mu.Unlock()
					w.bank = NewTermBank()
					w.solver = NewSolver(w.bank, cfg.SolverTimeoutMS)
				}
			}
			e.mu.Lock()
			rep.Solver.add(&w.solver.stats)
			for f, n := range w.funcs {
				rep.Funcs[f.String()] += n
			}
			e.mu.Unlock()
		}()
	}
	wg.Wait()
	rep.Wall = time.Since(t0)
	return rep
}

func (e *engine) merge(res *PathResult) {
	e.mu.Lock()
	defer e.mu.Unlock()
	r := e.rep
	r.Paths++
	r.Forks += int64(res.Forks)
	r.Decisions += int64(res.Decisions)
	r.Steps += res.Steps
	r.Asserts += int64(res.Asserts)
	switch res.Status {
	case "ok":
		r.Completed++
	case "infeasible":
		r.Infeasible++
	case "unsupported":
		r.Unsupported++
		if len(r.Inconclusive) < 20 {
			r.Inconclusive = append(r.Inconclusive, "unsupported: "+res.Detail)
		}
	case "unwind":
		r.Unwind++
		if len(r.Inconclusive) < 20 {
			r.Inconclusive = append(r.Inconclusive, "unwinding failure: "+res.Detail)
		}
	default:
		r.EngineErrors++
		if len(r.Inconclusive) < 20 {
			r.Inconclusive = append(r.Inconclusive, "engine error: "+res.Detail)
		}
	}
	for _, v := range res.Violations {
		mc := v.Msg
		if j := strings.Index(mc, " :: "); j >= 0 {
			mc = mc[:j]
		}
		k := v.Kind + "|" + mc + "|" + strings.Join(v.Known, ",")
		if e.vcount == nil {
			e.vcount = map[string]int{}
		}
		e.vcount[k]++
		if e.vcount[k] <= 3 && len(r.Violations) < 300 {
			r.Violations = append(r.Violations, v)
		}
	}
	if len(res.Violations) > 0 && e.cfg.StopOnViolation {
		e.stop = true
		e.cond.Broadcast()
	}
	if res.Sample != nil && len(r.Samples) < e.cfg.Samples {
		r.Samples = append(r.Samples, Sample{Model: res.Sample, Order: res.Order, Observed: res.Observed, Notes: res.Notes})
	}
	if len(r.Scripts) < 8 {
		r.Scripts = append(r.Scripts, res.Scripts...)
	}
	if r.Paths >= e.cfg.MaxPaths || (!e.cfg.Deadline.IsZero() && time.Now().After(e.cfg.Deadline)) {
		if len(e.work) > 0 || e.busy > 1 {
			r.Truncated = true
		}
		e.stop = true
		e.cond.Broadcast()
	}
}

func (e *engine) wantSample() bool {
	e.mu.Lock()
	defer e.mu.Unlock()
	if e.nsmp < e.cfg.Samples {
		e.nsmp++
		return true
	}
	return false
}

// runPath executes the harness once along the given decision prefix.
func (w *worker) runPath(prefix []traceEntry) (res *PathResult) {
	e := w.eng
	res = &PathResult{Status: "ok"}
	p := &pathState{
		w:        w,
		prefix:   prefix,
		pcset:    map[*Term]bool{},
		names:    map[string]int{},
		res:      res,
		maxSteps: e.cfg.MaxSteps,
		maxDepth: e.cfg.MaxDepth,
		env:      newEnvState(),
	}
	p.sched = newScheduler(p)
	i := &interpreter{progInfo: e.pr.info, globals: map[*ssa.Global]*value{}, path: p}
	if e.cfg.Trace {
		i.mode |= EnableTracing
	}
	finish := func() {
		p.sched.killAll()
		res.Decisions = len(p.taken)
		res.Forks = p.forks
		res.Steps = p.steps
		res.Notes = p.notes
	}
	defer func() {
		r := recover()
		func() {
			// killing parked threads must not mask the primary outcome
			defer func() { recover() }()
			finish()
		}()
		if r == nil {
			return
		}
		switch x := r.(type) {
		case pathAbort:
			if len(res.Violations) == 0 {
				res.Status = "infeasible"
				res.Detail = x.reason
			}
		case unsupported:
			res.Status = "unsupported"
			res.Detail = x.msg + posDetail(p)
		case unwindFail:
			res.Status = "unwind"
			res.Detail = x.msg + posDetail(p)
		case targetPanic, goroutinePanic:
			w.recordPanic(p, fmt.Sprintf("panic: %s", panicText(x)))
		case runtime.Error:
			msg := x.Error()
			if isInterpreterBug(msg) {
				res.Status = "error"
				res.Detail = "interpreter fault: " + msg + "\n" + string(debug.Stack())
			} else {
				w.recordPanic(p, "panic: "+msg)
			}
		case string:
			if strings.HasPrefix(x, "runtime error") || strings.Contains(x, "nil map") || strings.Contains(x, "closed channel") || strings.Contains(x, "negative shift") || strings.Contains(x, "interface conversion") || strings.Contains(x, "nil pointer") || strings.Contains(x, "nil channel") || strings.Contains(x, "nil function") || strings.HasPrefix(x, "value method") || strings.HasPrefix(x, "array length") {
				w.recordPanic(p, "panic: "+x)
			} else {
				res.Status = "error"
				res.Detail = "interpreter panic: " + x + posDetail(p)
			}
		default:
			res.Status = "error"
			res.Detail = fmt.Sprintf("interpreter panic: %T %v", r, r) + posDetail(p)
		}
	}()

	// package initialisation (datahub packages only)
	for _, pkg := range e.pr.info.initPkgs {
		if f := pkg.Func("init"); f != nil {
			call(i, nil, token.NoPos, f, nil)
		}
	}
	// harness argument: *verifh.H (all methods are intercepted)
	var args []value
	if e.fn.Signature.Params().Len() == 1 {
		ht := mustDeref(e.fn.Signature.Params().At(0).Type())
		args = []value{box2(zero(ht))}
	}
	call(i, nil, token.NoPos, e.fn, args)

	if len(p.prefix) > p.pos {
		res.Status = "error"
		res.Detail = fmt.Sprintf("replayed prefix not consumed (%d of %d): nondeterministic re-execution", p.pos, len(p.prefix))
		return
	}
	// completed path: optionally extract a model for evidence/concolic validation
	if e.wantSample() {
		w.sample(p)
	}
	return
}

func box2(v value) *value { return &v }

func posDetail(p *pathState) string {
	if p.sched != nil && p.sched.cur != nil && p.lastFrame != nil {
		s := stackString(p.lastFrame)
		if len(s) > 600 {
			s = s[:600] + "…"
		}
		return " @ " + s
	}
	return ""
}

func isInterpreterBug(msg string) bool {
	// host-level runtime errors that do not correspond to a target-level panic
	return strings.Contains(msg, "interface conversion: interp.value") || strings.Contains(msg, "interface conversion: interface {} is")
}

func panicText(x interface{}) string {
	switch v := x.(type) {
	case targetPanic:
		if iv, ok := v.v.(iface); ok {
			if s, ok := iv.v.(string); ok {
				return s
			}
			if iv.t != nil {
				return "(" + iv.t.String() + ") " + toString(iv.v)
			}
		}
		return toString(v.v)
	case goroutinePanic:
		return "in goroutine: " + panicText(v.v)
	case runtime.Error:
		return v.Error()
	case string:
		return v
	}
	return fmt.Sprint(x)
}

// recordPanic turns a target-level panic that escaped the harness into a
// violation of the implicit "no panic" assertion.
func (w *worker) recordPanic(p *pathState, msg string) {
	p.res.Asserts++
	_, m := w.solver.check(p.pc, true, p.drawTerms())
	model, order := p.modelOf(m)
	p.res.Violations = append(p.res.Violations, Violation{Kind: "panic", Msg: msg, Pos: p.panicStack, Model: model, Order: order, Notes: append([]string{}, p.notes...), Script: Script(p.pc), Known: append([]string{}, p.known...)})
}

func (w *worker) sample(p *pathState) {
	// observed symbolic leaves
	var want []*Term
	want = append(want, p.drawTerms()...)
	var leaves []*Term
	var collect func(v value)
	collect = func(v value) {
		switch x := v.(type) {
		case sym:
			leaves = append(leaves, x.t)
		case symstr:
			for _, c := range x {
				collect(c)
			}
		case []value:
			for _, c := range x {
				collect(c)
			}
		case iface:
			collect(x.v)
		}
	}
	for _, o := range p.observed {
		collect(o.v)
	}
	want = append(want, leaves...)
	r, m := w.solver.check(p.pc, false, want)
	if r != rSat {
		return
	}
	p.res.Sample, p.res.Order = p.modelOf(m)
	ev := func(t *Term) (uint64, bool) {
		if t.isConst {
			return t.cval, true
		}
		v, ok := m[t]
		return v, ok
	}
	p.res.Observed = renderObserved(p, m, ev)
}
