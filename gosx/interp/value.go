// Copyright 2013 The Go Authors. All rights reserved.
// Use of this source code is governed by a BSD-style
// license that can be found in the LICENSE file.

package interp

// Values
//
// All interpreter values are "boxed" in the empty interface, value.
// The range of possible dynamic types within value are:
//
// - bool
// - numbers (all built-in int/float/complex types are distinguished)
// - string
// - map[value]value --- maps for which  usesBuiltinMap(keyType)
//   *hashmap        --- maps for which !usesBuiltinMap(keyType)
// - chan value
// - []value --- slices
// - iface --- interfaces.
// - structure --- structs.  Fields are ordered and accessed by numeric indices.
// - array --- arrays.
// - *value --- pointers.  Careful: *value is a distinct type from *array etc.
// - *ssa.Function \
//   *ssa.Builtin   } --- functions.  A nil 'func' is always of type *ssa.Function.
//   *closure      /
// - tuple --- as returned by Return, Next, "value,ok" modes, etc.
// - iter --- iterators from 'range' over map or string.
// - bad --- a poison pill for locals that have gone out of scope.
// - rtype -- the interpreter's concrete implementation of reflect.Type
// - **deferred -- the address of a frame's defer stack for a Defer._Stack.
//
// Note that nil is not on this list.
//
// Pay close attention to whether or not the dynamic type is a pointer.
// The compiler cannot help you since value is an empty interface.

import (
	"bytes"
	"fmt"
	"go/types"
	"math"
	"sync"
	"unicode/utf8"

	"golang.org/x/tools/go/ssa"
	"golang.org/x/tools/go/types/typeutil"
)

type value interface{}

type tuple []value

type array []value

type iface struct {
	t types.Type // never an "untyped" type
	v value
}

type structure []value

// symstr is a string of concrete length whose bytes may be symbolic
// (each element is a uint8 or a sym of kind Uint8).
type symstr []value

// For map, array, *array, slice, string or channel.
type iter interface {
	// next returns a Tuple (key, value, ok).
	// key and value are unaliased, e.g. copies of the sequence element.
	next() tuple
}

type closure struct {
	Fn  *ssa.Function
	Env []value
}

// nativeFn is a func value implemented by the engine (e.g. context.CancelFunc).
type nativeFn struct {
	name string
	f    func(fr *frame, args []value) value
}

type bad struct{}

type rtype struct {
	t types.Type
}

func float64frombits(b uint64) float64 { return math.Float64frombits(b) }

var (
	mu     sync.Mutex
	hasher = typeutil.MakeHasher()
)

// nil-tolerant variant of types.Identical.
func sameType(x, y types.Type) bool {
	if x == nil {
		return y == nil
	}
	return y != nil && types.Identical(x, y)
}

// mkstr normalises a byte list to a Go string when fully concrete.
func mkstr(bs []value) value {
	buf := make([]byte, len(bs))
	for i, b := range bs {
		c, ok := b.(uint8)
		if !ok {
			return symstr(append([]value(nil), bs...))
		}
		buf[i] = c
	}
	return string(buf)
}

// strBytes views a string value as a list of byte values.
func strBytes(v value) []value {
	switch v := v.(type) {
	case string:
		out := make([]value, len(v))
		for i := 0; i < len(v); i++ {
			out[i] = v[i]
		}
		return out
	case symstr:
		return []value(v)
	}
	panic(fmt.Sprintf("strBytes(%T)", v))
}

func strLen(v value) int {
	switch v := v.(type) {
	case string:
		return len(v)
	case symstr:
		return len(v)
	}
	panic(fmt.Sprintf("strLen(%T)", v))
}

// bytesEqTerm: equality of two byte lists as a term.
func bytesEqTerm(b *TermBank, x, y []value) *Term {
	if len(x) != len(y) {
		return b.Bool(false)
	}
	var cs []*Term
	for i := range x {
		cx, okx := x[i].(uint8)
		cy, oky := y[i].(uint8)
		if okx && oky {
			if cx != cy {
				return b.Bool(false)
			}
			continue
		}
		cs = append(cs, b.Eq(termOf(b, x[i]), termOf(b, y[i])))
	}
	return b.And(cs...)
}

// bytesLessTerm: lexicographic x < y (orEq: x <= y).
func bytesLessTerm(b *TermBank, x, y []value, orEq bool) *Term {
	n := len(x)
	if len(y) < n {
		n = len(y)
	}
	// skip the common concrete-equal prefix
	i := 0
	for i < n {
		cx, okx := x[i].(uint8)
		cy, oky := y[i].(uint8)
		if !(okx && oky) {
			break
		}
		if cx != cy {
			return b.Bool(cx < cy)
		}
		i++
	}
	// tie-break on the common prefix: shorter is smaller
	var tie bool
	if orEq {
		tie = len(x) <= len(y)
	} else {
		tie = len(x) < len(y)
	}
	if i == n {
		return b.Bool(tie)
	}
	// build from the back: lt_i = x_i < y_i or (x_i == y_i and lt_{i+1})
	res := b.Bool(tie)
	for j := n - 1; j >= i; j-- {
		tx, ty := termOf(b, x[j]), termOf(b, y[j])
		res = b.Or(b.ULt(tx, ty), b.And(b.Eq(tx, ty), res))
	}
	return res
}

// eqv returns the term for x == y under Go's equivalence for type t.
// In a well-typed program the dynamic types of x and y agree.
func eqv(b *TermBank, t types.Type, x, y value) *Term {
	switch x := x.(type) {
	case sym:
		return b.Eq(x.t, termOf(b, y))
	case bool, int, int8, int16, int32, int64, uint, uint8, uint16, uint32, uint64, uintptr:
		if ys, ok := y.(sym); ok {
			return b.Eq(termOf(b, x), ys.t)
		}
		return b.Bool(x == y)
	case float32:
		return b.Bool(x == y.(float32))
	case float64:
		if ys, ok := y.(sym); ok {
			return b.Eq(termOf(b, x), ys.t)
		}
		return b.Bool(x == y.(float64))
	case complex64:
		return b.Bool(x == y.(complex64))
	case complex128:
		return b.Bool(x == y.(complex128))
	case string:
		if ys, ok := y.(string); ok {
			return b.Bool(x == ys)
		}
		return bytesEqTerm(b, strBytes(x), strBytes(y))
	case symstr:
		return bytesEqTerm(b, []value(x), strBytes(y))
	case *value:
		return b.Bool(x == y.(*value))
	case *mchan:
		return b.Bool(x == y.(*mchan))
	case structure:
		ys := y.(structure)
		var cs []*Term
		if t != nil {
			if tStruct, ok := t.Underlying().(*types.Struct); ok && tStruct.NumFields() == len(x) {
				for i, n := 0, tStruct.NumFields(); i < n; i++ {
					if f := tStruct.Field(i); f.Name() != "_" {
						cs = append(cs, eqv(b, f.Type(), x[i], ys[i]))
					}
				}
				return b.And(cs...)
			}
		}
		for i := range x {
			cs = append(cs, eqv(b, nil, x[i], ys[i]))
		}
		return b.And(cs...)
	case array:
		ya := y.(array)
		var tElt types.Type
		if t != nil {
			if ta, ok := t.Underlying().(*types.Array); ok {
				tElt = ta.Elem()
			}
		}
		var cs []*Term
		for i := range x {
			cs = append(cs, eqv(b, tElt, x[i], ya[i]))
		}
		return b.And(cs...)
	case iface:
		yi := y.(iface)
		if !sameType(x.t, yi.t) {
			return b.Bool(false)
		}
		if x.t == nil {
			return b.Bool(true)
		}
		return eqv(b, x.t, x.v, yi.v)
	case rtype:
		return b.Bool(types.Identical(x.t, y.(rtype).t))
	case *ssa.Function:
		return b.Bool(x == y)
	case *closure:
		return b.Bool(x == y)
	}

	// Since map, func and slice don't support comparison, this
	// case is only reachable if one of x or y is literally nil
	// (handled in eqnil) or via interface{} values.
	panic(fmt.Sprintf("runtime error: comparing uncomparable type %s (%T)", t, x))
}

// canon returns a canonical string for a fully concrete comparable value
// (used as the hash key of omap); ok is false if the value has symbolic parts.
func canon(buf *bytes.Buffer, x value) bool {
	switch x := x.(type) {
	case sym, symstr:
		return false
	case bool, int, int8, int16, int32, int64, uint, uint8, uint16, uint32, uint64, uintptr, float32, float64, complex64, complex128:
		fmt.Fprintf(buf, "%T:%v;", x, x)
	case string:
		fmt.Fprintf(buf, "s%d:%s;", len(x), x)
	case *value:
		fmt.Fprintf(buf, "p%p;", x)
	case *mchan:
		fmt.Fprintf(buf, "c%p;", x)
	case *ssa.Function:
		fmt.Fprintf(buf, "f%p;", x)
	case *closure:
		fmt.Fprintf(buf, "k%p;", x)
	case structure:
		buf.WriteString("{")
		for _, e := range x {
			if !canon(buf, e) {
				return false
			}
		}
		buf.WriteString("}")
	case array:
		buf.WriteString("[")
		for _, e := range x {
			if !canon(buf, e) {
				return false
			}
		}
		buf.WriteString("]")
	case iface:
		if x.t == nil {
			buf.WriteString("i<nil>;")
		} else {
			fmt.Fprintf(buf, "i%d/%s:", hasher.Hash(x.t), x.t.String())
			if !canon(buf, x.v) {
				return false
			}
		}
	case rtype:
		fmt.Fprintf(buf, "t%s;", x.t.String())
	default:
		panic(fmt.Sprintf("runtime error: hash of unhashable type %T", x))
	}
	return true
}

// equals returns true iff x and y are equal; the operands must be concrete
// (symbolic parts make the engine fork through decide in callers).
func equals(t types.Type, x, y value) bool {
	// a throw-away bank is fine: only constant folding is needed here
	r := eqv(constBank, t, x, y)
	if !r.isConst {
		panic(unsupported{"equals on symbolic operands outside a forking context"})
	}
	return r.cval == 1
}

var constBank = NewTermBank()

// reflect.Value struct values don't have a fixed shape, since the
// payload can be a scalar or an aggregate depending on the instance.
// So store (and load) can't simply use recursion over the shape of the
// rhs value, or the lhs, to copy the value; we need the static type
// information.  (We can't make reflect.Value a new basic data type
// because its "structness" is exposed to Go programs.)

// load returns the value of type T in *addr.
func load(T types.Type, addr *value) value {
	switch T := T.Underlying().(type) {
	case *types.Struct:
		v := (*addr).(structure)
		a := make(structure, len(v))
		for i := range a {
			a[i] = load(T.Field(i).Type(), &v[i])
		}
		return a
	case *types.Array:
		v := (*addr).(array)
		a := make(array, len(v))
		for i := range a {
			a[i] = load(T.Elem(), &v[i])
		}
		return a
	default:
		return *addr
	}
}

// store stores value v of type T into *addr.
func store(T types.Type, addr *value, v value) {
	switch T := T.Underlying().(type) {
	case *types.Struct:
		lhs := (*addr).(structure)
		rhs := v.(structure)
		for i := range lhs {
			store(T.Field(i).Type(), &lhs[i], rhs[i])
		}
	case *types.Array:
		lhs := (*addr).(array)
		rhs := v.(array)
		for i := range lhs {
			store(T.Elem(), &lhs[i], rhs[i])
		}
	default:
		*addr = v
	}
}

// Prints in the style of built-in println.
// (More or less; in gc println is actually a compiler intrinsic and
// can distinguish println(1) from println(interface{}(1)).)
func writeValue(buf *bytes.Buffer, v value) {
	switch v := v.(type) {
	case nil, bool, int, int8, int16, int32, int64, uint, uint8, uint16, uint32, uint64, uintptr, float32, float64, complex64, complex128, string:
		fmt.Fprintf(buf, "%v", v)

	case *omap:
		buf.WriteString("map[")
		if v != nil {
			for i, e := range v.ents {
				if i > 0 {
					buf.WriteString(" ")
				}
				writeValue(buf, e.key)
				buf.WriteString(":")
				writeValue(buf, e.val)
			}
		}
		buf.WriteString("]")

	case *mchan:
		fmt.Fprintf(buf, "chan(%p)", v)

	case sym:
		buf.WriteString("<sym " + v.t.ref() + ">")

	case symstr:
		buf.WriteString("<symstr len=")
		fmt.Fprintf(buf, "%d>", len(v))

	case *blob:
		buf.WriteString("<json blob>")

	case *value:
		if v == nil {
			buf.WriteString("<nil>")
		} else {
			fmt.Fprintf(buf, "%p", v)
		}

	case iface:
		fmt.Fprintf(buf, "(%s, ", v.t)
		writeValue(buf, v.v)
		buf.WriteString(")")

	case structure:
		buf.WriteString("{")
		for i, e := range v {
			if i > 0 {
				buf.WriteString(" ")
			}
			writeValue(buf, e)
		}
		buf.WriteString("}")

	case array:
		buf.WriteString("[")
		for i, e := range v {
			if i > 0 {
				buf.WriteString(" ")
			}
			writeValue(buf, e)
		}
		buf.WriteString("]")

	case []value:
		buf.WriteString("[")
		for i, e := range v {
			if i > 0 {
				buf.WriteString(" ")
			}
			writeValue(buf, e)
		}
		buf.WriteString("]")

	case *ssa.Function, *ssa.Builtin, *closure:
		fmt.Fprintf(buf, "%p", v) // (an address)

	case rtype:
		buf.WriteString(v.t.String())

	case tuple:
		// Unreachable in well-formed Go programs
		buf.WriteString("(")
		for i, e := range v {
			if i > 0 {
				buf.WriteString(", ")
			}
			writeValue(buf, e)
		}
		buf.WriteString(")")

	default:
		fmt.Fprintf(buf, "<%T>", v)
	}
}

// Implements printing of Go values in the style of built-in println.
func toString(v value) string {
	var b bytes.Buffer
	writeValue(&b, v)
	return b.String()
}

// ------------------------------------------------------------------------
// Iterators

type stringIter struct {
	bs []value
	p  *pathState
	i  int
}

func (it *stringIter) next() tuple {
	okv := make(tuple, 3)
	if it.i >= len(it.bs) {
		okv[0] = false
		return okv
	}
	okv[0] = true
	okv[1] = it.i
	switch c := it.bs[it.i].(type) {
	case uint8:
		if c < utf8.RuneSelf {
			okv[2] = rune(c)
			it.i++
			return okv
		}
		// decode a concrete multi-byte sequence if all of its bytes are concrete
		var tmp []byte
		for j := it.i; j < len(it.bs) && j < it.i+4; j++ {
			cb, ok := it.bs[j].(uint8)
			if !ok {
				break
			}
			tmp = append(tmp, cb)
		}
		r, n := utf8.DecodeRune(tmp)
		okv[2] = r
		it.i += n
		return okv
	case sym:
		// symbolic bytes are assumed ASCII when ranged over as runes
		b := it.p.bank()
		it.p.assume(b.ULt(c.t, b.BV(0x80, 8)))
		okv[2] = mkval(b.ZExt(c.t, 32), types.Int32)
		it.i++
		return okv
	}
	panic("stringIter: bad byte")
}

type omapIter struct {
	ents []*oentry
	i    int
}

func (it *omapIter) next() tuple {
	for it.i < len(it.ents) {
		e := it.ents[it.i]
		it.i++
		if e.alive {
			return []value{true, e.key, e.val}
		}
	}
	return []value{false, nil, nil}
}
