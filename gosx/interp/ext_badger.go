// gosx: model of the Badger v4 API surface datahub uses.
//
// Contract assumed of real Badger: snapshot isolation for reads, atomic and
// durable commit, no conflict detection (datahub opens with
// DetectConflicts=false), iterators of update transactions see the pending
// writes, Seek/Rewind/Valid/ValidForPrefix/Item/Next as in badger v4.2.0
// iterator.go, Sequence as in db.go (ported line by line).
//
// Keys are byte slices of concrete length whose bytes may be symbolic; the
// store is a list kept sorted, comparisons on symbolic bytes fork through
// pathState.decide.

package interp

import (
	"fmt"
	"go/token"
	"go/types"
	"sort"
	"strings"

	"golang.org/x/tools/go/ssa"
)

type kvEntry struct {
	key  []value
	val  value  // []value or *blob
	ver  uint64 // commit version that wrote the entry (Badger's item version)
	ck   string // the key as a string when every byte of it is concrete
	cc   bool   // ck is valid
	life int    // delete markers: the process lifetime (count of Opens of the disk) they were written in
}

type kvWrite struct {
	key []value
	val value
	del bool
	ck  string
	cc  bool
}

func mkWrite(key []value, val value, del bool) kvWrite {
	ck, cc := concKey(key)
	return kvWrite{key: key, val: val, del: del, ck: ck, cc: cc}
}

// concKey returns the key as a string if all its bytes are concrete.
func concKey(k []value) (string, bool) {
	b := make([]byte, len(k))
	for i, c := range k {
		cb, ok := c.(uint8)
		if !ok {
			return "", false
		}
		b[i] = cb
	}
	return string(b), true
}

// allConcrete reports whether every entry has a concrete key (then the slice
// is sorted by ck and can be searched and merged without the solver).
func allConcrete(ents []kvEntry) bool {
	for k := range ents {
		if !ents[k].cc {
			return false
		}
	}
	return true
}

// searchConc: index of the first entry with key >= ck in an all-concrete slice.
func searchConc(ents []kvEntry, ck string) int {
	return sort.Search(len(ents), func(i int) bool { return ents[i].ck >= ck })
}

type kvDisk struct {
	dir     string
	ents    []kvEntry // sorted by key, immutable slices (copy on commit)
	open    bool
	version uint64 // last commit version
	// delete markers (key, version of the commit that deleted it): what an incremental
	// backup has to carry besides the live entries
	tombs []kvEntry
	// number of times the database was opened
	lifetime int
}

// apply makes one commit durable: the next version, the live entries and the
// delete markers.
func (d *kvDisk) apply(p *pathState, ws []kvWrite) {
	d.version++
	d.ents = p.applyWritesV(d.ents, ws, d.version)
	for _, w := range ws {
		if w.del {
			d.tombs = append(d.tombs[:len(d.tombs):len(d.tombs)], kvEntry{key: w.key, ver: d.version, ck: w.ck, cc: w.cc, life: d.lifetime})
		}
	}
}

// reset empties the disk.
func (d *kvDisk) reset() { d.ents, d.tombs, d.version = nil, nil, 0 }

type kvDB struct {
	disk   *kvDisk
	closed bool
	// Options.CompactL0OnClose: Close compacts level 0, which discards the delete markers no open
	// transaction can still need — modelled as: those written in an earlier process lifetime (datahub
	// keeps a transaction open for the lifetime of the process, which pins the ones written in it)
	compactOnClose bool
	// badger's transaction limits (db.go: maxBatchSize = 15% of MemTableSize,
	// maxBatchCount = maxBatchSize / skl.MaxNodeSize (96)); a transaction reaching
	// either gets ErrTxnTooBig from Set/Delete (txn.go checkSize)
	maxBatchCount, maxBatchSize int64
}

type kvTxn struct {
	db        *kvDB
	snap      []kvEntry
	writes    []kvWrite
	update    bool
	discarded bool
	done      bool
	iters     int
	// cached: every key of snap is concrete
	snapConc, snapChecked bool
	// cached merged view for iterators of an update transaction
	view  []kvEntry
	viewN int
	// badger's per-transaction accounting (checkSize)
	count, size int64
}

type kvIter struct {
	txn     *kvTxn
	ents    []kvEntry
	pos     int // index into ents; -1 or len = exhausted
	valid   bool
	reverse bool
	prefix  []value
	closed  bool
	started bool
	// cached: every key of ents is concrete
	conc, concChecked bool
	// buffers handed out by Item().Key(): valid only until the iterator moves (badger reuses
	// the item and its key buffer); after h.RecycleIteratorKeys() they are overwritten when it does
	handed [][]value
}

// recycle overwrites the key buffers handed out for earlier positions with the
// key the iterator is at now (what reusing the item's buffer does), or with
// 0xEE bytes when the iterator is past the end.
func (it *kvIter) recycle() {
	if len(it.handed) == 0 {
		return
	}
	var cur []value
	if it.valid && it.pos >= 0 && it.pos < len(it.ents) {
		cur = it.ents[it.pos].key
	}
	for _, buf := range it.handed {
		for i := range buf {
			if i < len(cur) {
				buf[i] = cur[i]
			} else {
				buf[i] = uint8(0xEE)
			}
		}
	}
	it.handed = nil
}

type kvItem struct {
	e   kvEntry
	it  *kvIter // the iterator the item came from (nil for txn.Get items)
	del bool    // a delete marker (only a stream's ChooseKey sees those)
}

type kvSeq struct {
	db        *kvDB
	key       []value
	next      uint64
	leased    uint64
	bandwidth uint64
}

// effect is one durable state change (for crash modelling).
type effect struct {
	kind   string // "kv" or "fs"
	disk   *kvDisk
	writes []kvWrite
	path   string
	data   value
	remove bool
	label  string
}

func box(x interface{}) *value {
	var c value = x
	return &c
}

func unbox(v value, what string) interface{} {
	p, ok := v.(*value)
	if !ok {
		panic(fmt.Sprintf("gosx: %s: expected modelled object pointer, got %T", what, v))
	}
	if p == nil {
		panic("runtime error: invalid memory address or nil pointer dereference (" + what + ")")
	}
	return *p
}

func cloneBytes(v value) value {
	switch x := v.(type) {
	case *payloadFile:
		return x
	case []value:
		return append([]value{}, x...)
	case *blob:
		return x
	case string:
		return strBytes(x)
	case symstr:
		return append([]value{}, []value(x)...)
	}
	panic(fmt.Sprintf("cloneBytes(%T)", v))
}

func keyBytes(v value) []value {
	switch x := v.(type) {
	case []value:
		return append([]value{}, x...)
	case *blob:
		panic(unsupported{"JSON blob used as a key"})
	}
	panic(fmt.Sprintf("keyBytes(%T)", v))
}

func (p *pathState) keyLess(a, b []value) bool {
	return p.decide(bytesLessTerm(p.bank(), a, b, false))
}

func (p *pathState) keyLessEq(a, b []value) bool {
	return p.decide(bytesLessTerm(p.bank(), a, b, true))
}

func (p *pathState) keyEq(a, b []value) bool {
	return p.decide(bytesEqTerm(p.bank(), a, b))
}

func (p *pathState) hasPrefix(k, prefix []value) bool {
	if len(prefix) > len(k) {
		return false
	}
	return p.decide(bytesEqTerm(p.bank(), k[:len(prefix)], prefix))
}

// applyWrites returns ents with ws applied (new slice).
func (p *pathState) applyWrites(ents []kvEntry, ws []kvWrite) []kvEntry {
	return p.applyWritesV(ents, ws, 0)
}

func (p *pathState) applyWritesV(ents []kvEntry, ws []kvWrite, ver uint64) []kvEntry {
	// fast path: concrete keys everywhere — merge two sorted lists (the last write of a key wins)
	concWrites := true
	for k := range ws {
		if !ws[k].cc {
			concWrites = false
			break
		}
	}
	if concWrites && len(ents)+len(ws) > 8 && allConcrete(ents) {
		last := make(map[string]int, len(ws))
		for k := range ws {
			last[ws[k].ck] = k
		}
		order := make([]int, 0, len(last))
		for _, k := range last {
			order = append(order, k)
		}
		sort.Slice(order, func(a, b int) bool { return ws[order[a]].ck < ws[order[b]].ck })
		out := make([]kvEntry, 0, len(ents)+len(order))
		i := 0
		for _, k := range order {
			w := ws[k]
			for i < len(ents) && ents[i].ck < w.ck {
				out = append(out, ents[i])
				i++
			}
			if i < len(ents) && ents[i].ck == w.ck {
				i++ // replaced or deleted
			}
			if !w.del {
				out = append(out, kvEntry{key: w.key, val: w.val, ver: ver, ck: w.ck, cc: true})
			}
		}
		out = append(out, ents[i:]...)
		return out
	}
	out := append([]kvEntry(nil), ents...)
	for _, w := range ws {
		// find first index with key >= w.key
		i := 0
		for i < len(out) && p.keyLess(out[i].key, w.key) {
			i++
		}
		if i < len(out) && p.keyEq(out[i].key, w.key) {
			if w.del {
				out = append(out[:i:i], out[i+1:]...)
			} else {
				out[i] = kvEntry{key: w.key, val: w.val, ver: ver, ck: w.ck, cc: w.cc}
			}
			continue
		}
		if w.del {
			continue
		}
		n := make([]kvEntry, 0, len(out)+1)
		n = append(n, out[:i]...)
		n = append(n, kvEntry{key: w.key, val: w.val, ver: ver, ck: w.ck, cc: w.cc})
		n = append(n, out[i:]...)
		out = n
	}
	return out
}

func (t *kvTxn) get(p *pathState, key []value) (kvEntry, bool) {
	ck, cc := concKey(key)
	for i := len(t.writes) - 1; i >= 0; i-- {
		w := &t.writes[i]
		var eq bool
		if cc && w.cc {
			eq = ck == w.ck
		} else {
			eq = p.keyEq(w.key, key)
		}
		if eq {
			if w.del {
				return kvEntry{}, false
			}
			return kvEntry{key: w.key, val: w.val, ck: w.ck, cc: w.cc}, true
		}
	}
	if cc && len(t.snap) > 8 {
		if !t.snapChecked {
			t.snapConc, t.snapChecked = allConcrete(t.snap), true
		}
		if t.snapConc {
			i := searchConc(t.snap, ck)
			if i < len(t.snap) && t.snap[i].ck == ck {
				return t.snap[i], true
			}
			return kvEntry{}, false
		}
	}
	for _, e := range t.snap {
		if len(e.key) != len(key) {
			continue
		}
		if p.keyEq(e.key, key) {
			return e, true
		}
	}
	return kvEntry{}, false
}

func (t *kvTxn) commit(p *pathState) {
	if len(t.writes) == 0 {
		return
	}
	d := t.db.disk
	p.sched.yield("kv.commit")
	d.apply(p, t.writes)
	p.env.effects = append(p.env.effects, effect{kind: "kv", disk: d, writes: t.writes})
}

func (e *envState) disk(dir string) *kvDisk {
	if d, ok := e.disks[dir]; ok {
		return d
	}
	d := &kvDisk{dir: dir}
	e.disks[dir] = d
	e.diskOrder = append(e.diskOrder, dir)
	return d
}

func fieldIndex(t types.Type, name string) int {
	st := t.Underlying().(*types.Struct)
	for i := 0; i < st.NumFields(); i++ {
		if st.Field(i).Name() == name {
			return i
		}
	}
	panic("gosx: no field " + name + " in " + t.String())
}

func resultType(fr *frame, idx int) types.Type {
	return fr.fn.Signature.Results().At(idx).Type()
}

func badgerErr(i *interpreter, name string) value {
	msgs := map[string]string{
		"ErrKeyNotFound":  "Key not found",
		"ErrDiscardedTxn": "This transaction has been discarded. Create a new one",
		"ErrReadOnlyTxn":  "No sets or deletes are allowed in a read-only transaction",
		"ErrEmptyKey":     "Key cannot be empty",
		"ErrDBClosed":     "DB Closed",
		"ErrConflict":     "Transaction Conflict. Please retry",
		"ErrTxnTooBig":    "Txn is too big to fit into one request",
	}
	return iface{errorType, msgs[name]}
}

const badgerPkg = "github.com/dgraph-io/badger/v4"

func init() {
	B := func(name string, f externalFn) { externals[name] = f }
	pfx := badgerPkg + "."
	B(pfx+"DefaultOptions", func(fr *frame, args []value) value {
		t := resultType(fr, 0)
		o := zero(t).(structure)
		o[fieldIndex(t, "Dir")] = args[0]
		o[fieldIndex(t, "ValueDir")] = args[0]
		o[fieldIndex(t, "MaxLevels")] = 7
		o[fieldIndex(t, "BlockSize")] = 4096
		o[fieldIndex(t, "DetectConflicts")] = true
		o[fieldIndex(t, "NumVersionsToKeep")] = 1
		o[fieldIndex(t, "MemTableSize")] = int64(64 << 20)
		return o
	})
	B(pfx+"Open", func(fr *frame, args []value) value {
		p := fr.i.path
		t := fr.fn.Signature.Params().At(0).Type()
		o := args[0].(structure)
		dir, ok := o[fieldIndex(t, "Dir")].(string)
		if !ok {
			panic(unsupported{"badger.Open with symbolic directory"})
		}
		if dc, _ := o[fieldIndex(t, "DetectConflicts")].(bool); dc {
			panic(unsupported{"badger model assumes DetectConflicts=false"})
		}
		d := p.env.disk(dir)
		if d.open {
			return tuple{(*value)(nil), fr.i.mkError("Cannot acquire directory lock on \"" + dir + "\".  Another process is using this Badger database.")}
		}
		d.open = true
		d.lifetime++
		p.env.fsMkdir(dir)
		kd := &kvDB{disk: d}
		kd.compactOnClose, _ = o[fieldIndex(t, "CompactL0OnClose")].(bool)
		if mts, ok := o[fieldIndex(t, "MemTableSize")].(int64); ok && mts > 0 {
			kd.maxBatchSize = 15 * mts / 100
			kd.maxBatchCount = kd.maxBatchSize / 96
		}
		return tuple{box(kd), iface{}}
	})
	db := func(v value) *kvDB { return unbox(v, "*badger.DB").(*kvDB) }
	txn := func(v value) *kvTxn { return unbox(v, "*badger.Txn").(*kvTxn) }
	itr := func(v value) *kvIter { return unbox(v, "*badger.Iterator").(*kvIter) }
	item := func(v value) *kvItem { return unbox(v, "*badger.Item").(*kvItem) }
	seq := func(v value) *kvSeq { return unbox(v, "*badger.Sequence").(*kvSeq) }

	newTxn := func(p *pathState, d *kvDB, update bool) *kvTxn {
		if d.closed {
			panic(targetPanic{badgerErr(nil, "ErrDBClosed")})
		}
		p.sched.yield("kv.begin")
		return &kvTxn{db: d, snap: d.disk.ents, update: update}
	}
	M := func(recv, name string, f externalFn) { externals["(*"+pfx+recv+")."+name] = f }

	M("DB", "NewTransaction", func(fr *frame, args []value) value {
		txnPoint(fr)
		return box(newTxn(fr.i.path, db(args[0]), args[1].(bool)))
	})
	M("DB", "IsClosed", func(fr *frame, args []value) value { return db(args[0]).closed })
	M("DB", "Close", func(fr *frame, args []value) value {
		d := db(args[0])
		d.closed = true
		d.disk.open = false
		if d.compactOnClose {
			var keep []kvEntry
			for _, t := range d.disk.tombs {
				if t.life >= d.disk.lifetime {
					keep = append(keep, t)
				}
			}
			d.disk.tombs = keep
		}
		return iface{}
	})
	runIn := func(fr *frame, d *kvDB, update bool, fn value) value {
		p := fr.i.path
		t := newTxn(p, d, update)
		if update {
			txnBodyPoint(fr)
		}
		res := call(fr.i, fr, fr.fn.Pos(), fn, []value{box(t)})
		t.discarded = true
		if e, ok := res.(iface); ok && e.t != nil {
			return res
		}
		if update {
			t.commit(p)
		}
		t.done = true
		return iface{}
	}
	M("DB", "View", func(fr *frame, args []value) value {
		txnPoint(fr)
		return runIn(fr, db(args[0]), false, args[1])
	})
	M("DB", "Update", func(fr *frame, args []value) value {
		txnPoint(fr)
		commitPoint(fr)
		return runIn(fr, db(args[0]), true, args[1])
	})
	M("DB", "GetSequence", func(fr *frame, args []value) value {
		d := db(args[0])
		key := keyBytes(args[1])
		bw := uint64(fr.i.path.concInt(args[2], "sequence bandwidth"))
		if len(key) == 0 {
			return tuple{(*value)(nil), badgerErr(fr.i, "ErrEmptyKey")}
		}
		if bw == 0 {
			return tuple{(*value)(nil), iface{errorType, "Bandwidth must be greater than zero"}}
		}
		s := &kvSeq{db: d, key: key, bandwidth: bw}
		s.updateLease(fr.i.path)
		return tuple{box(s), iface{}}
	})
	M("DB", "RunValueLogGC", func(fr *frame, args []value) value {
		return iface{errorType, "Value log GC attempt didn't result in any cleanup"}
	})
	M("DB", "Flatten", func(fr *frame, args []value) value { return iface{} })
	M("DB", "Sync", func(fr *frame, args []value) value { return iface{} })
	M("DB", "Size", func(fr *frame, args []value) value { return tuple{int64(0), int64(0)} })
	M("DB", "Backup", func(fr *frame, args []value) value {
		txnPoint(fr) // the stream reads a snapshot: a scheduling point like a transaction start
		return kvBackup(fr, db(args[0]), args[1], args[2], nil)
	})
	// DB.NewStream / Stream.Backup: the stream framework behind DB.Backup, with its public knobs.
	// The Stream is the real struct (its exported fields are assigned by the caller); the model keeps
	// the database in the unexported db field. Of the knobs, SinceTs (entries up to it are skipped)
	// and ChooseKey (called with the latest item of every key, delete markers included; false leaves
	// the key out) decide what is written; NumGo, LogPrefix, Prefix=nil do not.
	M("DB", "NewStream", func(fr *frame, args []value) value {
		st := lookupNamed(fr.i.prog, badgerPkg, "Stream")
		sv := zero(st).(structure)
		*structField(sv, st, "db") = args[0]
		*structField(sv, st, "NumGo") = int64(8)
		var cell value = sv
		return &cell
	})
	M("Stream", "Backup", func(fr *frame, args []value) value {
		txnPoint(fr)
		st := lookupNamed(fr.i.prog, badgerPkg, "Stream")
		sp := args[0].(*value)
		if sp == nil {
			panic("runtime error: invalid memory address or nil pointer dereference (*badger.Stream)")
		}
		sv := (*sp).(structure)
		if pf, ok := (*structField(sv, st, "Prefix")).([]value); ok && len(pf) > 0 {
			panic(unsupported{"badger.Stream with a Prefix"})
		}
		since := args[2]
		if ts := fr.i.path.concInt(*structField(sv, st, "SinceTs"), "Stream.SinceTs"); uint64(ts) > uint64(fr.i.path.concInt(since, "backup since")) {
			since = uint64(ts)
		}
		return kvBackup(fr, db(*structField(sv, st, "db")), args[1], since, *structField(sv, st, "ChooseKey"))
	})
	// MaxVersion: the version of the last commit
	M("DB", "MaxVersion", func(fr *frame, args []value) value {
		txnPoint(fr)
		return db(args[0]).disk.version
	})

	M("Sequence", "Next", func(fr *frame, args []value) value {
		s := seq(args[0])
		if s.next >= s.leased {
			s.updateLease(fr.i.path)
		}
		v := s.next
		s.next++
		return tuple{v, iface{}}
	})
	M("Sequence", "Release", func(fr *frame, args []value) value {
		s := seq(args[0])
		p := fr.i.path
		t := newTxn(p, s.db, true)
		e, ok := t.get(p, s.key)
		if !ok {
			return badgerErr(fr.i, "ErrKeyNotFound")
		}
		num := beUint64(p, e.val)
		if num == s.leased {
			t.writes = append(t.writes, mkWrite(s.key, u64Bytes(s.next), false))
		}
		t.commit(p)
		s.leased = s.next
		return iface{}
	})

	M("Txn", "Get", func(fr *frame, args []value) value {
		t := txn(args[0])
		if t.discarded {
			return tuple{(*value)(nil), badgerErr(fr.i, "ErrDiscardedTxn")}
		}
		key := keyBytes(args[1])
		if len(key) == 0 {
			return tuple{(*value)(nil), badgerErr(fr.i, "ErrEmptyKey")}
		}
		e, ok := t.get(fr.i.path, key)
		if !ok {
			return tuple{(*value)(nil), badgerErr(fr.i, "ErrKeyNotFound")}
		}
		return tuple{box(&kvItem{e: e}), iface{}}
	})
	setDel := func(fr *frame, t *kvTxn, key []value, val value, del bool) value {
		switch {
		case !t.update:
			return badgerErr(fr.i, "ErrReadOnlyTxn")
		case t.discarded:
			return badgerErr(fr.i, "ErrDiscardedTxn")
		case len(key) == 0:
			return badgerErr(fr.i, "ErrEmptyKey")
		}
		if len(key) > 0 {
			if c, ok := key[0].(uint8); ok && c == '!' && len(key) >= 8 {
				var sb strings.Builder
				for _, b := range key[:8] {
					if cb, ok := b.(uint8); ok {
						sb.WriteByte(cb)
					}
				}
				if sb.String() == "!badger!" {
					return iface{errorType, "Key is using a reserved !badger! prefix"}
				}
			}
		}
		// txn.go checkSize: count and estimated size (key + value + 2 + 10; values of symbolic
		// length are counted with their key only)
		if t.db.maxBatchCount > 0 {
			sz := int64(len(key)) + 12
			if bs, ok := val.([]value); ok {
				sz += int64(len(bs))
			} else if bl, ok := val.(*blob); ok && bl != nil {
				if n, ok := bl.length(fr).(int); ok {
					sz += int64(n)
				}
			}
			if t.count+1 >= t.db.maxBatchCount || t.size+sz >= t.db.maxBatchSize {
				return badgerErr(fr.i, "ErrTxnTooBig")
			}
			t.count, t.size = t.count+1, t.size+sz
		}
		ck, cc := concKey(key)
		t.writes = append(t.writes, kvWrite{key: key, val: val, del: del, ck: ck, cc: cc})
		return iface{}
	}
	M("Txn", "Set", func(fr *frame, args []value) value {
		return setDel(fr, txn(args[0]), keyBytes(args[1]), cloneBytes(args[2]), false)
	})
	M("Txn", "Delete", func(fr *frame, args []value) value {
		return setDel(fr, txn(args[0]), keyBytes(args[1]), nil, true)
	})
	M("Txn", "Commit", func(fr *frame, args []value) value {
		commitSchedPoint(fr) // a commit is a Badger access: scheduling point commit:<file>:<line>
		commitPoint(fr)
		t := txn(args[0])
		if t.discarded {
			return badgerErr(fr.i, "ErrDiscardedTxn")
		}
		t.discarded = true
		if t.update {
			t.commit(fr.i.path)
		}
		t.done = true
		return iface{}
	})
	M("Txn", "Discard", func(fr *frame, args []value) value {
		t := txn(args[0])
		if t.discarded {
			return nil
		}
		if t.iters > 0 {
			panic(targetPanic{iface{types.Typ[types.String], "Unclosed iterator at time of Txn.Discard."}})
		}
		t.discarded = true
		return nil
	})
	M("Txn", "NewIterator", func(fr *frame, args []value) value {
		t := txn(args[0])
		p := fr.i.path
		if t.discarded {
			panic(targetPanic{badgerErr(fr.i, "ErrDiscardedTxn")})
		}
		if t.db.closed {
			panic(targetPanic{badgerErr(fr.i, "ErrDBClosed")})
		}
		ot := fr.fn.Signature.Params().At(0).Type()
		o := args[1].(structure)
		it := &kvIter{txn: t}
		it.reverse = o[fieldIndex(ot, "Reverse")].(bool)
		if pv, ok := o[fieldIndex(ot, "Prefix")].([]value); ok {
			it.prefix = append([]value{}, pv...)
		}
		it.ents = t.snap
		if t.update && len(t.writes) > 0 {
			// the merged view of snapshot and pending writes, reused while no further write is made
			if t.viewN != len(t.writes) || t.view == nil {
				t.view, t.viewN = p.applyWrites(t.snap, t.writes), len(t.writes)
			}
			it.ents = t.view
		}
		it.pos = -1
		t.iters++
		return box(it)
	})

	M("Iterator", "Close", func(fr *frame, args []value) value {
		it := itr(args[0])
		if !it.closed {
			it.closed = true
			it.txn.iters--
		}
		return nil
	})
	seek := func(fr *frame, it *kvIter, key []value) {
		p := fr.i.path
		if len(key) == 0 {
			key = it.prefix
		}
		it.started = true
		n := len(it.ents)
		if len(key) == 0 {
			if it.reverse {
				it.pos = n - 1
			} else {
				it.pos = 0
			}
			it.valid = it.pos >= 0 && it.pos < n
			return
		}
		// fast path: concrete keys everywhere — binary search
		if ck, cc := concKey(key); cc && n > 8 {
			if !it.concChecked {
				it.conc, it.concChecked = allConcrete(it.ents), true
			}
			if it.conc {
				if !it.reverse {
					it.pos = searchConc(it.ents, ck)
					it.valid = it.pos < n
				} else {
					// last key <= ck
					it.pos = sort.Search(n, func(i int) bool { return it.ents[i].ck > ck }) - 1
					it.valid = it.pos >= 0
				}
				return
			}
		}
		if !it.reverse {
			i := 0
			for i < n && p.keyLess(it.ents[i].key, key) {
				i++
			}
			it.pos = i
			it.valid = i < n
			return
		}
		// reverse: last key <= key
		i := n - 1
		for i >= 0 && p.keyLess(key, it.ents[i].key) {
			i--
		}
		it.pos = i
		it.valid = i >= 0
	}
	M("Iterator", "Seek", func(fr *frame, args []value) value {
		var key []value
		if kv, ok := args[1].([]value); ok {
			key = kv
		}
		seek(fr, itr(args[0]), key)
		itr(args[0]).recycle()
		return nil
	})
	M("Iterator", "Rewind", func(fr *frame, args []value) value {
		seek(fr, itr(args[0]), nil)
		itr(args[0]).recycle()
		return nil
	})
	M("Iterator", "Next", func(fr *frame, args []value) value {
		it := itr(args[0])
		if !it.valid {
			// badger dereferences the nil current item
			panic("runtime error: invalid memory address or nil pointer dereference (Iterator.Next past the end)")
		}
		if it.reverse {
			it.pos--
		} else {
			it.pos++
		}
		it.valid = it.pos >= 0 && it.pos < len(it.ents)
		it.recycle()
		return nil
	})
	valid := func(fr *frame, it *kvIter) bool {
		if !it.valid {
			return false
		}
		return fr.i.path.hasPrefix(it.ents[it.pos].key, it.prefix)
	}
	M("Iterator", "Valid", func(fr *frame, args []value) value { return valid(fr, itr(args[0])) })
	M("Iterator", "ValidForPrefix", func(fr *frame, args []value) value {
		it := itr(args[0])
		if !valid(fr, it) {
			return false
		}
		var pf []value
		if pv, ok := args[1].([]value); ok {
			pf = pv
		}
		return fr.i.path.hasPrefix(it.ents[it.pos].key, pf)
	})
	M("Iterator", "Item", func(fr *frame, args []value) value {
		it := itr(args[0])
		if !it.valid {
			return (*value)(nil)
		}
		return box(&kvItem{e: it.ents[it.pos], it: it})
	})

	M("Item", "Key", func(fr *frame, args []value) value {
		im := item(args[0])
		buf := append([]value{}, im.e.key...)
		if im.it != nil && fr.i.path.env.recycleKeys {
			im.it.handed = append(im.it.handed, buf)
		}
		return buf
	})
	M("Item", "KeyCopy", func(fr *frame, args []value) value { return append([]value{}, item(args[0]).e.key...) })
	M("Item", "Value", func(fr *frame, args []value) value {
		it := item(args[0])
		if isNilRef(args[1]) {
			return iface{}
		}
		return call(fr.i, fr, token.NoPos, args[1], []value{cloneBytes(it.e.val)})
	})
	M("Item", "ValueCopy", func(fr *frame, args []value) value {
		return tuple{cloneBytes(item(args[0]).e.val), iface{}}
	})
	M("Item", "ValueSize", func(fr *frame, args []value) value {
		switch v := item(args[0]).e.val.(type) {
		case []value:
			return int64(len(v))
		case *blob:
			return int64(fr.i.path.concInt(v.length(fr), "blob length"))
		}
		return int64(0)
	})
	M("Item", "IsDeletedOrExpired", func(fr *frame, args []value) value { return item(args[0]).del })
	M("Item", "Version", func(fr *frame, args []value) value { return uint64(1) })
}

func (s *kvSeq) updateLease(p *pathState) {
	t := &kvTxn{db: s.db, snap: s.db.disk.ents, update: true}
	e, ok := t.get(p, s.key)
	if !ok {
		s.next = 0
	} else {
		s.next = beUint64(p, e.val)
	}
	lease := s.next + s.bandwidth
	t.writes = append(t.writes, mkWrite(s.key, u64Bytes(lease), false))
	t.commit(p)
	s.leased = lease
}

func beUint64(p *pathState, v value) uint64 {
	bs, ok := v.([]value)
	if !ok || len(bs) < 8 {
		panic("runtime error: index out of range (sequence value shorter than 8 bytes)")
	}
	var n uint64
	for i := 0; i < 8; i++ {
		c, ok := bs[i].(uint8)
		if !ok {
			panic(unsupported{"symbolic sequence counter"})
		}
		n = n<<8 | uint64(c)
	}
	return n
}

func u64Bytes(n uint64) []value {
	out := make([]value, 8)
	for i := 0; i < 8; i++ {
		out[i] = uint8(n >> uint(56-8*i))
	}
	return out
}

// kvBackup models (*DB).Backup(w, since): it writes one record per entry to w
// (here: a single Write call carrying the snapshot) and returns a version
// counter. Contract: every committed entry with version > since is written;
// the returned value is the highest version. The model has one version per
// commit effect.
func kvBackup(fr *frame, d *kvDB, w value, since value, choose value) value {
	p := fr.i.path
	sinceV := uint64(p.concInt(since, "backup since"))
	var ents, tombs []kvEntry
	maxVer := uint64(0)
	chosen := func(e kvEntry, del bool) bool {
		if choose == nil {
			return true
		}
		if c, ok := choose.(*closure); ok && c == nil {
			return true
		}
		return p.concBool(call(fr.i, fr, token.NoPos, choose, []value{box(&kvItem{e: e, del: del})}))
	}
	for _, e := range d.disk.ents {
		if e.ver > sinceV && chosen(e, false) {
			ents = append(ents, e)
			if e.ver > maxVer {
				maxVer = e.ver
			}
		}
	}
	// delete markers since the cursor, unless the key has been written again since
	for _, e := range d.disk.tombs {
		if e.ver <= sinceV {
			continue
		}
		if _, live := (&kvTxn{db: d, snap: d.disk.ents}).get(p, e.key); live {
			continue
		}
		if !chosen(e, true) {
			continue
		}
		tombs = append(tombs, e)
		if e.ver > maxVer {
			maxVer = e.ver
		}
	}
	payload := &backupPayload{disk: d.disk, ents: ents, tombs: tombs, since: sinceV, upto: maxVer}
	wi := w.(iface)
	if wi.t == nil {
		panic("runtime error: invalid memory address or nil pointer dereference (nil writer)")
	}
	if pv, ok := wi.v.(*value); ok && pv == nil {
		// (*os.File)(nil).Write returns os.ErrInvalid
		return tuple{uint64(0), iface{errorType, "invalid argument"}}
	}
	if len(ents)+len(tombs) == 0 {
		return tuple{uint64(0), iface{}}
	}
	// call w.Write(payload)
	var wm *types.Func
	ms := fr.i.prog.MethodSets.MethodSet(wi.t)
	for k := 0; k < ms.Len(); k++ {
		if ms.At(k).Obj().Name() == "Write" {
			wm = ms.At(k).Obj().(*types.Func)
		}
	}
	if wm == nil {
		panic("gosx: writer without Write")
	}
	f := lookupMethod(fr.i, wi.t, wm)
	res := call(fr.i, fr, token.NoPos, f, []value{wi.v, box(payload)}).(tuple)
	if e, ok := res[1].(iface); ok && e.t != nil {
		return tuple{uint64(0), res[1]}
	}
	return tuple{maxVer, iface{}}
}

type backupPayload struct {
	disk  *kvDisk
	ents  []kvEntry
	tombs []kvEntry
	since uint64
	upto  uint64
}

var _ = ssa.BuilderMode(0)
