// gosx: type-directed model of encoding/json.
//
// json.Marshal(v) yields a *blob: the JSON tree of v (leaves may be symbolic)
// whose serialized length is computed exactly as encoding/json would produce
// it. json.Unmarshal(blob, &x) rebuilds a value of x's type following Go's
// decoding rules. Concrete byte input ([]byte built by the target program or
// supplied by a harness) is parsed with the real encoding/json into the same
// tree form first.

package interp

import (
	"math"
	"go/token"
	"bytes"
	"encoding/base64"
	"encoding/json"
	"fmt"
	"go/types"
	"reflect"
	"sort"
	"strconv"
	"strings"
	"unicode"
)

type jkind int

const (
	jNull jkind = iota
	jBool
	jNum
	jStr
	jArr
	jObj
)

type jfield struct {
	key  string // concrete key ("" with skey set for a symbolic one)
	skey symstr // key with symbolic bytes (map keys only)
	val  *jnode
}

type jnode struct {
	k      jkind
	v      value    // jBool: bool|sym ; jNum: int*/uint*/float64|sym ; jStr: string|symstr
	elems  []*jnode // jArr
	fields []jfield // jObj (in serialisation order)
}

type blob struct {
	root *jnode
	n    int // cached length, -1 if not computed
}

func (b *blob) length(fr *frame) value {
	if b == nil {
		return 0
	}
	if b.n < 0 {
		b.n = jsonLen(fr.i.path, b.root)
	}
	return b.n
}

func (b *blob) asString() value {
	var buf bytes.Buffer
	if !jsonText(&buf, b.root) {
		panic(unsupported{"string conversion of a JSON blob with symbolic leaves"})
	}
	return buf.String()
}

// ---- encoding

type jsonTag struct {
	name      string
	omitempty bool
	skip      bool
	asString  bool
}

func parseTag(f *types.Var, tag string) jsonTag {
	jt := jsonTag{name: f.Name()}
	if !f.Exported() {
		jt.skip = true
		return jt
	}
	tv, ok := reflect.StructTag(tag).Lookup("json")
	if !ok {
		return jt
	}
	if tv == "-" {
		jt.skip = true
		return jt
	}
	parts := strings.Split(tv, ",")
	if parts[0] != "" {
		jt.name = parts[0]
	}
	for _, o := range parts[1:] {
		switch o {
		case "omitempty":
			jt.omitempty = true
		case "string":
			jt.asString = true
		}
	}
	return jt
}

func isTimeType(t types.Type) bool {
	n, ok := t.(*types.Named)
	return ok && n.Obj().Pkg() != nil && n.Obj().Pkg().Path() == "time" && n.Obj().Name() == "Time"
}

func (i *interpreter) hasMethod(t types.Type, name string) bool {
	ms := i.prog.MethodSets.MethodSet(t)
	for k := 0; k < ms.Len(); k++ {
		if ms.At(k).Obj().Name() == name {
			return true
		}
	}
	return false
}

func isEmptyValue(p *pathState, t types.Type, v value) bool {
	switch tt := t.Underlying().(type) {
	case *types.Basic:
		switch x := v.(type) {
		case sym:
			b := p.bank()
			if x.k == types.Bool {
				return p.decide(b.Not(x.t))
			}
			if x.k == types.Float64 {
				return p.decide(b.Eq(x.t, b.FPConst(0)))
			}
			return p.decide(b.Eq(x.t, b.BV(0, x.t.sort.w)))
		case symstr:
			return len(x) == 0
		case string:
			return x == ""
		case bool:
			return !x
		case float64:
			return x == 0
		case float32:
			return x == 0
		default:
			return asInt64(v) == 0
		}
	case *types.Slice:
		switch x := v.(type) {
		case []value:
			return len(x) == 0
		case *blob:
			return x == nil
		}
	case *types.Map:
		return v.(*omap).len() == 0
	case *types.Pointer:
		return v.(*value) == nil
	case *types.Interface:
		return v.(iface).t == nil
	case *types.Array:
		return tt.Len() == 0
	}
	return false
}

func (i *interpreter) jsonEncode(t types.Type, v value, depth int) *jnode {
	p := i.path
	if depth > 64 {
		panic(unsupported{"json: nesting deeper than 64"})
	}
	if isTimeType(t) {
		// time.Time marshals as an RFC3339 string; modelled as an opaque
		// fixed-width string leaf carrying the instant.
		return &jnode{k: jStr, v: timeLeaf(v)}
	}
	if _, isPtr := t.Underlying().(*types.Pointer); !isPtr {
		if _, isIface := t.Underlying().(*types.Interface); !isIface && i.hasMethod(t, "MarshalJSON") {
			panic(unsupported{"json: custom MarshalJSON on " + t.String()})
		}
	}
	switch tt := t.Underlying().(type) {
	case *types.Basic:
		switch {
		case tt.Info()&types.IsBoolean != 0:
			return &jnode{k: jBool, v: v}
		case tt.Info()&types.IsString != 0:
			return &jnode{k: jStr, v: v}
		case tt.Info()&types.IsNumeric != 0:
			return &jnode{k: jNum, v: v}
		}
	case *types.Pointer:
		pv := v.(*value)
		if pv == nil {
			return &jnode{k: jNull}
		}
		return i.jsonEncode(tt.Elem(), load(tt.Elem(), pv), depth+1)
	case *types.Interface:
		iv := v.(iface)
		if iv.t == nil {
			return &jnode{k: jNull}
		}
		return i.jsonEncode(iv.t, iv.v, depth+1)
	case *types.Slice:
		if bl, ok := v.(*blob); ok {
			if bl == nil {
				return &jnode{k: jNull}
			}
			if eb, ok := tt.Elem().Underlying().(*types.Basic); ok && eb.Kind() == types.Byte {
				if isRawMessage(t) {
					return bl.root
				}
			}
			panic(unsupported{"json: encoding a blob as " + t.String()})
		}
		sv := v.([]value)
		if sv == nil {
			return &jnode{k: jNull}
		}
		if eb, ok := tt.Elem().Underlying().(*types.Basic); ok && eb.Kind() == types.Byte {
			raw, conc := concBytes(sv)
			if !conc {
				panic(unsupported{"json: base64 of symbolic []byte"})
			}
			return &jnode{k: jStr, v: base64.StdEncoding.EncodeToString(raw)}
		}
		n := &jnode{k: jArr}
		for _, e := range sv {
			n.elems = append(n.elems, i.jsonEncode(tt.Elem(), e, depth+1))
		}
		return n
	case *types.Array:
		n := &jnode{k: jArr}
		for _, e := range v.(array) {
			n.elems = append(n.elems, i.jsonEncode(tt.Elem(), e, depth+1))
		}
		return n
	case *types.Map:
		m := v.(*omap)
		if m == nil {
			return &jnode{k: jNull}
		}
		n := &jnode{k: jObj}
		for _, e := range m.ents {
			var ks string
			switch k := e.key.(type) {
			case string:
				ks = k
			case symstr:
				n.fields = append(n.fields, jfield{skey: k, val: i.jsonEncode(tt.Elem(), e.val, depth+1)})
				continue
			case sym:
				panic(unsupported{"json: map with symbolic non-string keys"})
			default:
				if kb, ok := tt.Key().Underlying().(*types.Basic); ok && kb.Info()&types.IsInteger != 0 {
					if kb.Info()&types.IsUnsigned != 0 {
						ks = strconv.FormatUint(uint64(asInt64(k)), 10)
					} else {
						ks = strconv.FormatInt(asInt64(k), 10)
					}
				} else {
					panic(unsupported{"json: map key type " + tt.Key().String()})
				}
			}
			n.fields = append(n.fields, jfield{key: ks, val: i.jsonEncode(tt.Elem(), e.val, depth+1)})
		}
		// (keys with symbolic bytes cannot be ordered; the order only matters for the text, not the length)
		sort.SliceStable(n.fields, func(a, b int) bool {
			if n.fields[a].skey != nil || n.fields[b].skey != nil {
				return false
			}
			return n.fields[a].key < n.fields[b].key
		})
		return n
	case *types.Struct:
		sv := v.(structure)
		n := &jnode{k: jObj}
		for fi := 0; fi < tt.NumFields(); fi++ {
			f := tt.Field(fi)
			jt := parseTag(f, tt.Tag(fi))
			if jt.skip {
				continue
			}
			if f.Anonymous() {
				if _, isStruct := f.Type().Underlying().(*types.Struct); isStruct && !strings.Contains(tt.Tag(fi), "json:") {
					// embedded struct: promote fields
					sub := i.jsonEncode(f.Type(), sv[fi], depth+1)
					n.fields = append(n.fields, sub.fields...)
					continue
				}
			}
			if jt.asString {
				panic(unsupported{"json: ,string option"})
			}
			if jt.omitempty && isEmptyValue(p, f.Type(), sv[fi]) {
				continue
			}
			n.fields = append(n.fields, jfield{key: jt.name, val: i.jsonEncode(f.Type(), sv[fi], depth+1)})
		}
		return n
	case *types.Signature, *types.Chan:
		panic(unsupported{"json: unsupported type " + t.String()})
	}
	panic(unsupported{"json: cannot encode " + t.String()})
}

func isRawMessage(t types.Type) bool {
	n, ok := t.(*types.Named)
	return ok && n.Obj().Pkg() != nil && n.Obj().Pkg().Path() == "encoding/json" && n.Obj().Name() == "RawMessage"
}

// timeLeaf renders a modelled time.Time as a string leaf. All instants of
// the modelled clock serialise to the same width (RFC3339Nano in UTC of a
// 19-digit nanosecond count), and the value is kept so that decoding
// restores it.
type timeStr struct{ t value }

func timeLeaf(v value) value { return timeStr{v} }

// jsonStringLen returns the encoded length of a concrete string.
func jsonStringLen(s string) int {
	b, _ := json.Marshal(s)
	return len(b)
}

func jsonLen(p *pathState, n *jnode) int {
	b := p.bank()
	switch n.k {
	case jNull:
		return 4
	case jBool:
		if p.concBool(n.v) {
			return 4
		}
		return 5
	case jNum:
		switch x := n.v.(type) {
		case sym:
			if x.k == types.Float64 {
				panic(unsupported{"json: length of a symbolic float"})
			}
			w := x.t.sort.w
			if kindSigned(x.k) {
				if p.decide(b.SLt(x.t, b.BV(0, w))) {
					panic(unsupported{"json: length of a negative symbolic integer"})
				}
			}
			lim := uint64(10)
			for d := 1; d < 20; d++ {
				if w < 64 && lim > mask(w) {
					return d
				}
				if p.decide(b.ULt(x.t, b.BV(lim, w))) {
					return d
				}
				if lim > (^uint64(0))/10 {
					return d + 1
				}
				lim *= 10
			}
			return 20
		case float64:
			bs, err := json.Marshal(x)
			if err != nil {
				panic(unsupported{"json: " + err.Error()})
			}
			return len(bs)
		case float32:
			bs, _ := json.Marshal(x)
			return len(bs)
		default:
			bs, _ := json.Marshal(x)
			return len(bs)
		}
	case jStr:
		switch x := n.v.(type) {
		case string:
			return jsonStringLen(x)
		case symstr:
			ln := 2
			for _, c := range x {
				switch c := c.(type) {
				case uint8:
					ln += jsonStringLen(string([]byte{c})) - 2
				case sym:
					// assumed: printable ASCII that needs no escape
					p.assume(plainByte(b, c.t))
					ln++
				}
			}
			return ln
		case timeStr:
			return 32 // "2006-01-02T15:04:05.999999999Z" + quotes, see timeLeaf
		}
	case jArr:
		ln := 2
		for i, e := range n.elems {
			if i > 0 {
				ln++
			}
			ln += jsonLen(p, e)
		}
		return ln
	case jObj:
		ln := 2
		for i, f := range n.fields {
			if i > 0 {
				ln++
			}
			if f.skey != nil {
				ln += jsonLen(p, &jnode{k: jStr, v: f.skey}) + 1 + jsonLen(p, f.val)
			} else {
				ln += jsonStringLen(f.key) + 1 + jsonLen(p, f.val)
			}
		}
		return ln
	}
	panic("jsonLen")
}

// plainByte: 0x20 <= c <= 0x7e and c not in {", \, <, >, &}
func plainByte(b *TermBank, c *Term) *Term {
	ne := func(x byte) *Term { return b.Not(b.Eq(c, b.BV(uint64(x), 8))) }
	return b.And(b.ULe(b.BV(0x20, 8), c), b.ULe(c, b.BV(0x7e, 8)), ne('"'), ne('\\'), ne('<'), ne('>'), ne('&'))
}

// jsonText renders a fully concrete tree exactly as encoding/json does.
func jsonText(buf *bytes.Buffer, n *jnode) bool {
	switch n.k {
	case jNull:
		buf.WriteString("null")
	case jBool:
		bv, ok := n.v.(bool)
		if !ok {
			return false
		}
		if bv {
			buf.WriteString("true")
		} else {
			buf.WriteString("false")
		}
	case jNum:
		if isSym(n.v) {
			return false
		}
		bs, err := json.Marshal(n.v)
		if err != nil {
			return false
		}
		buf.Write(bs)
	case jStr:
		s, ok := n.v.(string)
		if !ok {
			return false
		}
		bs, _ := json.Marshal(s)
		buf.Write(bs)
	case jArr:
		buf.WriteByte('[')
		for i, e := range n.elems {
			if i > 0 {
				buf.WriteByte(',')
			}
			if !jsonText(buf, e) {
				return false
			}
		}
		buf.WriteByte(']')
	case jObj:
		buf.WriteByte('{')
		for i, f := range n.fields {
			if i > 0 {
				buf.WriteByte(',')
			}
			if f.skey != nil {
				return false
			}
			bs, _ := json.Marshal(f.key)
			buf.Write(bs)
			buf.WriteByte(':')
			if !jsonText(buf, f.val) {
				return false
			}
		}
		buf.WriteByte('}')
	}
	return true
}

// ---- parsing concrete bytes into a tree

func parseJSONBytes(data []byte) (*jnode, error) {
	dec := json.NewDecoder(bytes.NewReader(data))
	dec.UseNumber()
	var v interface{}
	if err := dec.Decode(&v); err != nil {
		return nil, err
	}
	// trailing garbage?
	if dec.More() {
		return nil, fmt.Errorf("invalid character after top-level value")
	}
	// json.Unmarshal checks validity of the whole input first
	if !json.Valid(data) {
		return nil, fmt.Errorf("invalid JSON")
	}
	return fromGeneric(data, v), nil
}

// fromGeneric converts a generic decoded value into a tree. Object member
// order is taken from the input text so that duplicate keys and ordering
// behave as in the real decoder.
func fromGeneric(data []byte, v interface{}) *jnode {
	// re-walk the token stream to preserve order
	dec := json.NewDecoder(bytes.NewReader(data))
	dec.UseNumber()
	var walk func() *jnode
	walk = func() *jnode {
		tok, err := dec.Token()
		if err != nil {
			return &jnode{k: jNull}
		}
		switch t := tok.(type) {
		case json.Delim:
			switch t {
			case '{':
				n := &jnode{k: jObj}
				for dec.More() {
					kt, _ := dec.Token()
					ks, _ := kt.(string)
					n.fields = append(n.fields, jfield{key: ks, val: walk()})
				}
				dec.Token()
				return n
			case '[':
				n := &jnode{k: jArr}
				for dec.More() {
					n.elems = append(n.elems, walk())
				}
				dec.Token()
				return n
			}
		case bool:
			return &jnode{k: jBool, v: t}
		case json.Number:
			f, err := t.Float64()
			if err != nil {
				return &jnode{k: jNum, v: jsonNumText(string(t))}
			}
			// keep integers exact where possible
			if i64, err := strconv.ParseInt(string(t), 10, 64); err == nil {
				return &jnode{k: jNum, v: i64}
			}
			if u64, err := strconv.ParseUint(string(t), 10, 64); err == nil {
				return &jnode{k: jNum, v: u64}
			}
			return &jnode{k: jNum, v: f}
		case string:
			return &jnode{k: jStr, v: t}
		case nil:
			return &jnode{k: jNull}
		}
		return &jnode{k: jNull}
	}
	return walk()
}

type jsonNumText string

// ---- decoding

type jsonErr struct{ msg string }

func (i *interpreter) mkError(msg string) value {
	return iface{errorType, msg}
}

// jsonDecode stores node n into *addr of static type t. It returns the first
// type error message ("" if none), as encoding/json reports it after finishing.
func (i *interpreter) jsonDecode(n *jnode, t types.Type, addr *value, depth int) string {
	p := i.path
	if depth > 64 {
		panic(unsupported{"json: nesting deeper than 64"})
	}
	if isTimeType(t) {
		switch n.k {
		case jNull:
			return ""
		case jStr:
			if ts, ok := n.v.(timeStr); ok {
				*addr = ts.t
				return ""
			}
			panic(unsupported{"json: decoding a textual time"})
		}
		return "json: cannot unmarshal into time.Time"
	}
	if _, isIface := t.Underlying().(*types.Interface); !isIface {
		if i.hasMethod(types.NewPointer(t), "UnmarshalJSON") && !isRawMessage(t) {
			panic(unsupported{"json: custom UnmarshalJSON on " + t.String()})
		}
	}
	if isRawMessage(t) {
		*addr = &blob{root: n, n: -1}
		return ""
	}
	switch tt := t.Underlying().(type) {
	case *types.Pointer:
		if n.k == jNull {
			*addr = (*value)(nil)
			return ""
		}
		pv := (*addr).(*value)
		if pv == nil {
			cell := zero(tt.Elem())
			pv = &cell
			*addr = pv
		}
		return i.jsonDecode(n, tt.Elem(), pv, depth+1)
	case *types.Interface:
		if tt.NumMethods() != 0 {
			if n.k == jNull {
				*addr = iface{}
				return ""
			}
			return "json: cannot unmarshal into Go value of type " + t.String()
		}
		// if the interface holds a non-nil pointer, decode into it
		if cur, ok := (*addr).(iface); ok && cur.t != nil && n.k != jNull {
			if pt, ok := cur.t.Underlying().(*types.Pointer); ok && cur.v.(*value) != nil {
				return i.jsonDecode(n, pt.Elem(), cur.v.(*value), depth+1)
			}
		}
		*addr = i.jsonGeneric(n, depth)
		return ""
	case *types.Basic:
		switch n.k {
		case jNull:
			return ""
		case jBool:
			if tt.Info()&types.IsBoolean != 0 {
				*addr = n.v
				return ""
			}
			return "json: cannot unmarshal bool into Go value of type " + t.String()
		case jStr:
			if tt.Info()&types.IsString != 0 {
				if _, isT := n.v.(timeStr); isT {
					panic(unsupported{"json: time text into string"})
				}
				*addr = n.v
				return ""
			}
			return "json: cannot unmarshal string into Go value of type " + t.String()
		case jNum:
			if tt.Info()&types.IsNumeric == 0 {
				return "json: cannot unmarshal number into Go value of type " + t.String()
			}
			v, errs := i.numTo(n.v, tt.Kind(), t)
			if errs != "" {
				return errs
			}
			*addr = v
			return ""
		default:
			what := "array"
			if n.k == jObj {
				what = "object"
			}
			return "json: cannot unmarshal " + what + " into Go value of type " + t.String()
		}
	case *types.Slice:
		switch n.k {
		case jNull:
			*addr = []value(nil)
			return ""
		case jArr:
			first := ""
			out := make([]value, len(n.elems))
			for k, e := range n.elems {
				out[k] = zero(tt.Elem())
				if em := i.jsonDecode(e, tt.Elem(), &out[k], depth+1); em != "" && first == "" {
					first = em
				}
			}
			*addr = out
			return first
		case jStr:
			if eb, ok := tt.Elem().Underlying().(*types.Basic); ok && eb.Kind() == types.Byte {
				txt, ok := n.v.(string)
				if !ok {
					panic(unsupported{"json: base64 of symbolic text"})
				}
				raw, err := base64.StdEncoding.DecodeString(txt)
				if err != nil {
					return "illegal base64 data at input byte 0"
				}
				*addr = bytesVal(raw)
				return ""
			}
		}
		return "json: cannot unmarshal " + kindName(n.k) + " into Go value of type " + t.String()
	case *types.Array:
		if n.k == jNull {
			return ""
		}
		if n.k != jArr {
			return "json: cannot unmarshal " + kindName(n.k) + " into Go value of type " + t.String()
		}
		a := (*addr).(array)
		first := ""
		for k := range a {
			if k < len(n.elems) {
				if em := i.jsonDecode(n.elems[k], tt.Elem(), &a[k], depth+1); em != "" && first == "" {
					first = em
				}
			} else {
				a[k] = zero(tt.Elem())
			}
		}
		return first
	case *types.Map:
		switch n.k {
		case jNull:
			*addr = (*omap)(nil)
			return ""
		case jObj:
			m := (*addr).(*omap)
			if m == nil {
				m = makeMap(tt.Key(), 0).(*omap)
				*addr = m
			}
			first := ""
			for _, f := range n.fields {
				var kv value
				kb, _ := tt.Key().Underlying().(*types.Basic)
				switch {
				case kb != nil && kb.Info()&types.IsString != 0 && f.skey != nil:
					kv = f.skey
				case f.skey != nil:
					panic(unsupported{"json: symbolic key into a non-string map key"})
				case kb != nil && kb.Info()&types.IsString != 0:
					kv = f.key
				case kb != nil && kb.Info()&types.IsInteger != 0:
					if kb.Info()&types.IsUnsigned != 0 {
						u, err := strconv.ParseUint(f.key, 10, 64)
						if err != nil {
							if first == "" {
								first = "json: cannot unmarshal number " + f.key + " into Go value of type " + tt.Key().String()
							}
							continue
						}
						kv, _ = i.numTo(u, kb.Kind(), tt.Key())
					} else {
						s, err := strconv.ParseInt(f.key, 10, 64)
						if err != nil {
							if first == "" {
								first = "json: cannot unmarshal number " + f.key + " into Go value of type " + tt.Key().String()
							}
							continue
						}
						kv, _ = i.numTo(s, kb.Kind(), tt.Key())
					}
				default:
					panic(unsupported{"json: map key type " + tt.Key().String()})
				}
				cell := zero(tt.Elem())
				if em := i.jsonDecode(f.val, tt.Elem(), &cell, depth+1); em != "" && first == "" {
					first = em
				}
				m.insert(p, kv, cell)
			}
			return first
		}
		return "json: cannot unmarshal " + kindName(n.k) + " into Go value of type " + t.String()
	case *types.Struct:
		switch n.k {
		case jNull:
			return ""
		case jObj:
			sv := (*addr).(structure)
			first := ""
			for _, f := range n.fields {
				if f.skey != nil {
					panic(unsupported{"json: symbolic object key decoded into a struct"})
				}
				fi := findJSONField(tt, f.key)
				if fi < 0 {
					continue
				}
				if em := i.jsonDecode(f.val, tt.Field(fi).Type(), &sv[fi], depth+1); em != "" && first == "" {
					first = em
				}
			}
			return first
		}
		return "json: cannot unmarshal " + kindName(n.k) + " into Go value of type " + t.String()
	}
	panic(unsupported{"json: cannot decode into " + t.String()})
}

func kindName(k jkind) string {
	return [...]string{"null", "bool", "number", "string", "array", "object"}[k]
}

func findJSONField(tt *types.Struct, key string) int {
	fold := -1
	for fi := 0; fi < tt.NumFields(); fi++ {
		f := tt.Field(fi)
		jt := parseTag(f, tt.Tag(fi))
		if jt.skip {
			continue
		}
		if jt.name == key {
			return fi
		}
		if fold < 0 && strings.EqualFold(jt.name, key) {
			fold = fi
		}
	}
	return fold
}

// jsonGeneric decodes into interface{}.
func (i *interpreter) jsonGeneric(n *jnode, depth int) value {
	p := i.path
	tAny := types.NewInterfaceType(nil, nil).Complete()
	switch n.k {
	case jNull:
		return iface{}
	case jBool:
		return iface{types.Typ[types.Bool], n.v}
	case jNum:
		v, errs := i.numTo(n.v, types.Float64, types.Typ[types.Float64])
		if errs != "" {
			panic(unsupported{"json: " + errs})
		}
		return iface{types.Typ[types.Float64], v}
	case jStr:
		if _, isT := n.v.(timeStr); isT {
			panic(unsupported{"json: time text into interface{}"})
		}
		return iface{types.Typ[types.String], n.v}
	case jArr:
		out := make([]value, len(n.elems))
		for k, e := range n.elems {
			out[k] = i.jsonGeneric(e, depth+1)
		}
		return iface{types.NewSlice(tAny), out}
	case jObj:
		mt := types.NewMap(types.Typ[types.String], tAny)
		m := makeMap(types.Typ[types.String], 0).(*omap)
		for _, f := range n.fields {
			if f.skey != nil {
				m.insert(p, f.skey, i.jsonGeneric(f.val, depth+1))
			} else {
				m.insert(p, f.key, i.jsonGeneric(f.val, depth+1))
			}
		}
		return iface{mt, m}
	}
	panic("jsonGeneric")
}

// numTo converts a JSON number leaf to the basic kind k.
func (i *interpreter) numTo(v value, k types.BasicKind, t types.Type) (value, string) {
	p := i.path
	b := p.bank()
	switch x := v.(type) {
	case jsonNumText:
		return nil, "json: cannot unmarshal number " + string(x) + " into Go value of type " + t.String()
	case sym:
		if x.k == k {
			return x, ""
		}
		if x.k == types.Float64 {
			if k == types.Float32 {
				panic(unsupported{"json: symbolic float32"})
			}
			panic(unsupported{"json: symbolic float into integer field"})
		}
		if k == types.Float64 {
			return mkval(b.IntToFP(x.t, kindSigned(x.k)), k), ""
		}
		// integer to integer: must fit, else a type error
		sw, dw := kindWidth(x.k), kindWidth(k)
		if dw >= sw && kindSigned(x.k) == kindSigned(k) {
			if kindSigned(k) {
				return mkval(b.SExt(x.t, dw), k), ""
			}
			return mkval(b.ZExt(x.t, dw), k), ""
		}
		panic(unsupported{"json: symbolic integer narrowing " + fmt.Sprint(x.k, "→", k)})
	case float64:
		switch k {
		case types.Float64:
			return x, ""
		case types.Float32:
			return float32(x), ""
		}
		if x != float64(int64(x)) {
			return nil, "json: cannot unmarshal number " + strconv.FormatFloat(x, 'g', -1, 64) + " into Go value of type " + t.String()
		}
		return intToKind(int64(x), false, k, t)
	case float32:
		return i.numTo(float64(x), k, t)
	default:
		kk, _ := kindOf(v)
		if kindSigned(kk) {
			return intToKind(asInt64(v), false, k, t)
		}
		return intToKind(int64(asUint64OrInt(v)), asUint64OrInt(v) > 1<<63-1, k, t)
	}
}

func asUint64OrInt(v value) uint64 {
	switch x := v.(type) {
	case uint, uint8, uint16, uint32, uint64, uintptr:
		return asUint64(x)
	}
	return uint64(asInt64(v))
}

func intToKind(x int64, hugeUnsigned bool, k types.BasicKind, t types.Type) (value, string) {
	bad := func() (value, string) {
		var s string
		if hugeUnsigned {
			s = strconv.FormatUint(uint64(x), 10)
		} else {
			s = strconv.FormatInt(x, 10)
		}
		return nil, "json: cannot unmarshal number " + s + " into Go value of type " + t.String()
	}
	switch k {
	case types.Float64:
		if hugeUnsigned {
			return float64(uint64(x)), ""
		}
		return float64(x), ""
	case types.Float32:
		return float32(x), ""
	case types.Int:
		if hugeUnsigned {
			return bad()
		}
		return int(x), ""
	case types.Int64:
		if hugeUnsigned {
			return bad()
		}
		return x, ""
	case types.Int32:
		if hugeUnsigned || x != int64(int32(x)) {
			return bad()
		}
		return int32(x), ""
	case types.Int16:
		if hugeUnsigned || x != int64(int16(x)) {
			return bad()
		}
		return int16(x), ""
	case types.Int8:
		if hugeUnsigned || x != int64(int8(x)) {
			return bad()
		}
		return int8(x), ""
	case types.Uint:
		if !hugeUnsigned && x < 0 {
			return bad()
		}
		return uint(x), ""
	case types.Uint64:
		if !hugeUnsigned && x < 0 {
			return bad()
		}
		return uint64(x), ""
	case types.Uintptr:
		if !hugeUnsigned && x < 0 {
			return bad()
		}
		return uintptr(x), ""
	case types.Uint32:
		if hugeUnsigned || x < 0 || x != int64(uint32(x)) {
			return bad()
		}
		return uint32(x), ""
	case types.Uint16:
		if hugeUnsigned || x < 0 || x != int64(uint16(x)) {
			return bad()
		}
		return uint16(x), ""
	case types.Uint8:
		if hugeUnsigned || x < 0 || x != int64(uint8(x)) {
			return bad()
		}
		return uint8(x), ""
	}
	panic(fmt.Sprintf("intToKind %v", k))
}

// bytesToTree turns a []byte value (blob or concrete bytes) into a tree.
func (i *interpreter) bytesToTree(v value) (*jnode, string) {
	switch x := v.(type) {
	case *blob:
		if x == nil {
			return nil, "unexpected end of JSON input"
		}
		return x.root, ""
	case []value:
		buf := make([]byte, len(x))
		for k, c := range x {
			cb, ok := c.(uint8)
			if !ok {
				panic(unsupported{"json: decoding bytes with symbolic content"})
			}
			buf[k] = cb
		}
		if len(buf) == 0 {
			return nil, "unexpected end of JSON input"
		}
		n, err := parseJSONBytes(buf)
		if err != nil {
			return nil, err.Error()
		}
		return n, ""
	case string:
		n, err := parseJSONBytes([]byte(x))
		if err != nil {
			return nil, err.Error()
		}
		return n, ""
	}
	panic(fmt.Sprintf("bytesToTree(%T)", v))
}

func ext۰json۰Marshal(fr *frame, args []value) value {
	iv := args[0].(iface)
	var root *jnode
	if iv.t == nil {
		root = &jnode{k: jNull}
	} else {
		root = fr.i.jsonEncode(iv.t, iv.v, 0)
	}
	// encoding/json refuses NaN and the infinities (UnsupportedValueError)
	if bad := jsonBadFloat(root); bad != "" {
		return tuple{[]value(nil), iface{errorType, "json: unsupported value: " + bad}}
	}
	return tuple{&blob{root: root, n: -1}, iface{}}
}

// jsonBadFloat finds a concrete float leaf JSON cannot express.
func jsonBadFloat(n *jnode) string {
	if n == nil {
		return ""
	}
	if n.k == jNum {
		if f, ok := n.v.(float64); ok && (math.IsInf(f, 0) || math.IsNaN(f)) {
			return strconv.FormatFloat(f, 'g', -1, 64)
		}
	}
	for _, e := range n.elems {
		if s := jsonBadFloat(e); s != "" {
			return s
		}
	}
	for _, f := range n.fields {
		if s := jsonBadFloat(f.val); s != "" {
			return s
		}
	}
	return ""
}

func ext۰json۰Unmarshal(fr *frame, args []value) value {
	n, errs := fr.i.bytesToTree(args[0])
	if errs != "" {
		return fr.i.mkError(errs)
	}
	iv := args[1].(iface)
	if iv.t == nil {
		return fr.i.mkError("json: Unmarshal(nil)")
	}
	pt, ok := iv.t.Underlying().(*types.Pointer)
	if !ok || iv.v.(*value) == nil {
		return fr.i.mkError("json: Unmarshal(non-pointer " + iv.t.String() + ")")
	}
	if em := fr.i.jsonDecode(n, pt.Elem(), iv.v.(*value), 0); em != "" {
		return fr.i.mkError(em)
	}
	return iface{}
}

func ext۰json۰Valid(fr *frame, args []value) value {
	_, errs := fr.i.bytesToTree(args[0])
	return errs == ""
}

var _ = unicode.IsUpper

func init() {
	externals["encoding/json.Marshal"] = ext۰json۰Marshal
	externals["encoding/json.Unmarshal"] = ext۰json۰Unmarshal
	externals["encoding/json.Valid"] = ext۰json۰Valid
}

// ---- json.Decoder over concrete input: the real decoder does the lexing,
// tokens and decoded values are converted to interpreter values.

type jsonDecModel struct {
	dec *json.Decoder
}

func readerBytes(fr *frame, r value) []byte {
	iv, ok := r.(iface)
	if !ok || iv.t == nil {
		panic("runtime error: invalid memory address or nil pointer dereference (nil reader)")
	}
	pt, ok := iv.t.Underlying().(*types.Pointer)
	pv, _ := iv.v.(*value)
	if pv != nil {
		if fm, isFile := (*pv).(*fileModel); isFile {
			// a modelled file (also the body of a scripted remote's response)
			bs, _ := fr.i.path.env.files[fm.path].([]value)
			b, conc := concBytes(bs[min(fm.pos, len(bs)):])
			if !conc {
				panic(unsupported{"json.Decoder over a file with symbolic bytes"})
			}
			fm.pos = len(bs)
			return b
		}
	}
	if ok && pv != nil {
		if n, isNamed := pt.Elem().(*types.Named); isNamed && n.Obj().Pkg() != nil {
			full := n.Obj().Pkg().Path() + "." + n.Obj().Name()
			st, isStruct := (*pv).(structure)
			if isStruct && (full == "strings.Reader" || full == "bytes.Reader") {
				pos := int(asInt64(st[fieldIndex(n, "i")]))
				switch s := st[fieldIndex(n, "s")].(type) {
				case string:
					return []byte(s[pos:])
				case []value:
					b, conc := concBytes(s)
					if !conc {
						panic(unsupported{"json.Decoder over symbolic bytes"})
					}
					return b[pos:]
				case symstr:
					panic(unsupported{"json.Decoder over symbolic text"})
				}
			}
		}
	}
	// a wrapper struct around a reader (io.NopCloser, a harness body type): look inside
	var st structure
	var stType types.Type = iv.t
	switch v := iv.v.(type) {
	case structure:
		st = v
	case *value:
		if v != nil {
			if s2, ok := (*v).(structure); ok {
				st = s2
				if p2, ok := iv.t.Underlying().(*types.Pointer); ok {
					stType = p2.Elem()
				}
			}
		}
	}
	if st != nil {
		if sts, ok := stType.Underlying().(*types.Struct); ok {
			for k := 0; k < sts.NumFields() && k < len(st); k++ {
				ft := sts.Field(k).Type()
				switch fv := st[k].(type) {
				case iface:
					if fv.t != nil {
						return readerBytes(fr, fv)
					}
				case *value:
					if _, isPtr := ft.Underlying().(*types.Pointer); isPtr && fv != nil {
						return readerBytes(fr, iface{t: ft, v: fv})
					}
				}
			}
		}
	}
	panic(unsupported{"json.NewDecoder over reader type " + iv.t.String()})
}

// jsonEncModel: json.NewEncoder(w) — Encode marshals with the JSON model and
// hands the blob to w.Write (the trailing newline is not modelled).
type jsonEncModel struct{ w iface }

// callIfaceMethod invokes the named method of the dynamic value of iv.
func callIfaceMethod(fr *frame, iv iface, name string, args ...value) value {
	if iv.t == nil {
		panic("runtime error: invalid memory address or nil pointer dereference (method invoked on nil interface)")
	}
	ms := fr.i.prog.MethodSets.MethodSet(iv.t)
	for k := 0; k < ms.Len(); k++ {
		if ms.At(k).Obj().Name() == name {
			f := lookupMethod(fr.i, iv.t, ms.At(k).Obj().(*types.Func))
			return call(fr.i, fr, token.NoPos, f, append([]value{iv.v}, args...))
		}
	}
	panic("gosx: no method " + name + " on " + iv.t.String())
}

func init() {
	readAll := func(fr *frame, args []value) value {
		return tuple{bytesVal(readerBytes(fr, args[0])), iface{}}
	}
	externals["io.ReadAll"] = readAll
	externals["io/ioutil.ReadAll"] = readAll
	externals["encoding/json.NewEncoder"] = func(fr *frame, args []value) value {
		return box(&jsonEncModel{w: args[0].(iface)})
	}
	externals["(*encoding/json.Encoder).SetIndent"] = func(fr *frame, args []value) value { return nil }
	externals["(*encoding/json.Encoder).SetEscapeHTML"] = func(fr *frame, args []value) value { return nil }
	externals["(*encoding/json.Encoder).Encode"] = func(fr *frame, args []value) value {
		em := unbox(args[0], "*json.Encoder").(*jsonEncModel)
		res := ext۰json۰Marshal(fr, []value{args[1]}).(tuple)
		if e, ok := res[1].(iface); ok && e.t != nil {
			return res[1]
		}
		wres := callIfaceMethod(fr, em.w, "Write", res[0]).(tuple)
		return wres[1]
	}
	externals["encoding/json.NewDecoder"] = func(fr *frame, args []value) value {
		data := readerBytes(fr, args[0])
		return box(&jsonDecModel{dec: json.NewDecoder(bytes.NewReader(data))})
	}
	dm := func(v value) *jsonDecModel { return unbox(v, "*json.Decoder").(*jsonDecModel) }
	jerr := func(err error) value {
		if err == nil {
			return iface{}
		}
		return iface{errorType, err.Error()}
	}
	externals["(*encoding/json.Decoder).Token"] = func(fr *frame, args []value) value {
		tok, err := dm(args[0]).dec.Token()
		if err != nil {
			return tuple{iface{}, jerr(err)}
		}
		switch t := tok.(type) {
		case json.Delim:
			return tuple{iface{lookupNamed(fr.i.prog, "encoding/json", "Delim"), int32(t)}, iface{}}
		case string:
			return tuple{iface{types.Typ[types.String], t}, iface{}}
		case float64:
			return tuple{iface{types.Typ[types.Float64], t}, iface{}}
		case bool:
			return tuple{iface{types.Typ[types.Bool], t}, iface{}}
		case nil:
			return tuple{iface{}, iface{}}
		case json.Number:
			return tuple{iface{lookupNamed(fr.i.prog, "encoding/json", "Number"), string(t)}, iface{}}
		}
		panic(unsupported{"json token type"})
	}
	externals["(*encoding/json.Decoder).More"] = func(fr *frame, args []value) value {
		return dm(args[0]).dec.More()
	}
	externals["(*encoding/json.Decoder).Decode"] = func(fr *frame, args []value) value {
		var raw json.RawMessage
		if err := dm(args[0]).dec.Decode(&raw); err != nil {
			return jerr(err)
		}
		n, err := parseJSONBytes(raw)
		if err != nil {
			return jerr(err)
		}
		iv := args[1].(iface)
		if iv.t == nil {
			return iface{errorType, "json: Unmarshal(nil)"}
		}
		pt, ok := iv.t.Underlying().(*types.Pointer)
		if !ok || iv.v.(*value) == nil {
			return iface{errorType, "json: Unmarshal(non-pointer " + iv.t.String() + ")"}
		}
		if em := fr.i.jsonDecode(n, pt.Elem(), iv.v.(*value), 0); em != "" {
			return iface{errorType, em}
		}
		return iface{}
	}
	externals["(*encoding/json.Decoder).UseNumber"] = func(fr *frame, args []value) value {
		dm(args[0]).dec.UseNumber()
		return nil
	}
}

// jnodeEq: the term "the serialisations of x and y are byte-equal", decided
// structurally (see bytes.Equal).
func jnodeEq(p *pathState, x, y *jnode) *Term {
	b := p.bank()
	if x == nil || y == nil {
		return b.Bool(x == y)
	}
	if x.k != y.k {
		return b.Bool(false)
	}
	switch x.k {
	case jNull:
		return b.Bool(true)
	case jBool:
		return eqv(b, nil, x.v, y.v)
	case jNum:
		xs, xsym := x.v.(sym)
		ys, ysym := y.v.(sym)
		if !xsym && !ysym {
			return b.Bool(fmt.Sprint(x.v) == fmt.Sprint(y.v))
		}
		if xsym && ysym && xs.k == ys.k {
			return eqv(b, nil, x.v, y.v)
		}
		panic(unsupported{"bytes.Equal on JSON blobs: numbers of different symbolic kinds"})
	case jStr:
		xb, yb := strBytes(x.v), strBytes(y.v)
		return bytesEqTerm(b, xb, yb)
	case jArr:
		if len(x.elems) != len(y.elems) {
			return b.Bool(false)
		}
		var cs []*Term
		for k := range x.elems {
			cs = append(cs, jnodeEq(p, x.elems[k], y.elems[k]))
		}
		return b.And(cs...)
	case jObj:
		if len(x.fields) != len(y.fields) {
			return b.Bool(false)
		}
		var cs []*Term
		for k := range x.fields {
			fx, fy := x.fields[k], y.fields[k]
			kx, ky := strBytes(value(fx.key)), strBytes(value(fy.key))
			if fx.key == "" && len(fx.skey) > 0 {
				kx = strBytes(value(fx.skey))
			}
			if fy.key == "" && len(fy.skey) > 0 {
				ky = strBytes(value(fy.skey))
			}
			cs = append(cs, bytesEqTerm(b, kx, ky), jnodeEq(p, fx.val, fy.val))
		}
		return b.And(cs...)
	}
	panic(unsupported{"bytes.Equal on JSON blobs: unknown node kind"})
}
