// gosx: contract stub of github.com/golang-jwt/jwt/v4.ParseWithClaims.
//
// Contract (jwt v4.5.0 parser.go): the returned error is nil iff the token is
// well formed, the key function succeeds, the signature verifies with the
// returned key for the token's algorithm (an HMAC algorithm with an RSA public
// key is an invalid key type), and the claims' time fields are valid; exactly
// then token.Valid is true. The claims object passed in is filled from the
// token body. The harness supplies the token shape through verifh.StubJWT.

package interp

import (
	"go/types"
)

const jwtPkg = "github.com/golang-jwt/jwt/v4"

type jwtShape struct {
	aud, iss, alg int
	sigOK, fresh  bool
}

func structField(v value, t types.Type, name string) *value {
	s := v.(structure)
	return &s[fieldIndex(t, name)]
}

func init() {
	externals["(*"+verifhPkg+".H).StubJWT"] = func(fr *frame, args []value) value {
		p := fr.i.path
		p.env.jwt = &jwtShape{
			aud: int(p.concInt(args[1], "aud")), iss: int(p.concInt(args[2], "iss")), alg: int(p.concInt(args[3], "alg")),
			sigOK: p.concBool(args[4]), fresh: p.concBool(args[5]),
		}
		return nil
	}
	externals[jwtPkg+".ParseWithClaims"] = func(fr *frame, args []value) value {
		p := fr.i.path
		sh := p.env.jwt
		if sh == nil {
			panic(unsupported{"jwt.ParseWithClaims without a StubJWT shape"})
		}
		tokT := mustDeref(fr.fn.Signature.Results().At(0).Type())
		tok := zero(tokT).(structure)
		*structField(tok, tokT, "Raw") = args[0]
		// method
		var mname, mtype string
		switch sh.alg {
		case 0:
			mname, mtype = "RS256", "SigningMethodRSA"
		case 1:
			mname, mtype = "RS384", "SigningMethodRSA"
		default:
			mname, mtype = "HS256", "SigningMethodHMAC"
		}
		mt := lookupNamed(fr.i.prog, jwtPkg, mtype)
		mv := zero(mt).(structure)
		*structField(mv, mt, "Name") = mname
		var mcell value = mv
		*structField(tok, tokT, "Method") = iface{types.NewPointer(mt), &mcell}
		// claims: fill the object passed in (a *CustomClaims embedding RegisteredClaims)
		claims := args[1].(iface)
		*structField(tok, tokT, "Claims") = claims
		if cp, ok := claims.v.(*value); ok && cp != nil {
			ct := mustDeref(claims.t)
			rcT := lookupNamed(fr.i.prog, jwtPkg, "RegisteredClaims")
			var rc structure
			if types.Identical(ct, rcT) {
				rc = (*cp).(structure)
			} else {
				rc = (*structField(*cp, ct, "RegisteredClaims")).(structure)
			}
			switch sh.aud {
			case 1:
				*structField(rc, rcT, "Audience") = []value{"node:n1"}
			case 2:
				*structField(rc, rcT, "Audience") = []value{"node:other"}
			}
			switch sh.iss {
			case 1:
				*structField(rc, rcT, "Issuer") = "node:n1"
			case 2:
				*structField(rc, rcT, "Issuer") = "node:other"
			}
			*structField(rc, rcT, "Subject") = "client-1"
		}
		ok := sh.sigOK && sh.fresh && sh.alg != 2
		*structField(tok, tokT, "Valid") = ok
		var tcell value = tok
		if ok {
			return tuple{&tcell, iface{}}
		}
		msg := "crypto/rsa: verification error"
		switch {
		case sh.alg == 2:
			msg = "key is of invalid type"
		case sh.sigOK && !sh.fresh:
			msg = "token is expired"
		}
		return tuple{&tcell, iface{errorType, msg}}
	}
}
