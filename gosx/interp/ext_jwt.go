// gosx: contract stub of github.com/golang-jwt/jwt/v4.ParseWithClaims.
//
// Contract (jwt v4.5.0 parser.go): the returned error is nil iff the token is
// well formed, the key function succeeds, the signature verifies with the
// returned key for the token's algorithm (an HMAC algorithm with an RSA public
// key is an invalid key type), and the claims' time fields are valid; exactly
// then token.Valid is true. The claims object passed in is filled from the
// token body. The harness supplies the token shape through verifh.StubJWT.

package interp

import (
	"go/token"
	"go/types"
)

const jwtPkg = "github.com/golang-jwt/jwt/v4"

type jwtShape struct {
	aud, iss, alg int
	sigOK, fresh  bool
	// a client assertion (StubAssertion): subject and issuer are client numbers (issuer 0: no iss
	// claim), signed RS256 with the private key of client number signer; the signature verifies
	// exactly with that client's public key (identified by the modelled key's E)
	assertion        bool
	sub, signer      int
}

func structField(v value, t types.Type, name string) *value {
	s := v.(structure)
	return &s[fieldIndex(t, name)]
}

func init() {
	externals["(*"+verifhPkg+".H).StubJWT"] = func(fr *frame, args []value) value {
		p := fr.i.path
		p.env.jwt = &jwtShape{
			aud: int(p.concInt(args[1], "aud")), iss: int(p.concInt(args[2], "iss")), alg: int(p.concInt(args[3], "alg")),
			sigOK: p.concBool(args[4]), fresh: p.concBool(args[5]),
		}
		return nil
	}
	externals["(*"+verifhPkg+".H).StubAssertion"] = func(fr *frame, args []value) value {
		p := fr.i.path
		p.env.jwt = &jwtShape{assertion: true, sub: int(p.concInt(args[1], "sub")), iss: int(p.concInt(args[2], "iss")), signer: int(p.concInt(args[3], "signer")), fresh: p.concBool(args[4])}
		return nil
	}
	// the public key of client k, as the PEM text the harness registers ("VERIF-PUBLIC-KEY-k")
	externals["github.com/mimiro-io/datahub/internal/security.ParseRsaPublicKeyFromPem"] = func(fr *frame, args []value) value {
		bs, _ := args[0].([]value)
		txt := ""
		for _, c := range bs {
			b, ok := c.(uint8)
			if !ok {
				panic(unsupported{"ParseRsaPublicKeyFromPem of symbolic bytes"})
			}
			txt += string(rune(b))
		}
		const pfx = "VERIF-PUBLIC-KEY-"
		if len(txt) != len(pfx)+1 || txt[:len(pfx)] != pfx {
			return tuple{(*value)(nil), iface{errorType, "failed to parse PEM block containing the key"}}
		}
		kt := lookupNamed(fr.i.prog, "crypto/rsa", "PublicKey")
		kv := zero(kt).(structure)
		*structField(kv, kt, "E") = int64(txt[len(pfx)] - '0')
		var cell value = kv
		return tuple{&cell, iface{}}
	}
	externals[jwtPkg+".NewNumericDate"] = func(fr *frame, args []value) value {
		nt := lookupNamed(fr.i.prog, jwtPkg, "NumericDate")
		nv := zero(nt).(structure)
		*structField(nv, nt, "Time") = args[0]
		var cell value = nv
		return &cell
	}
	// NewWithClaims / SignedString: the text of a minted token names its subject (that is all a
	// harness reads back from it)
	externals[jwtPkg+".NewWithClaims"] = func(fr *frame, args []value) value {
		tokT := lookupNamed(fr.i.prog, jwtPkg, "Token")
		tok := zero(tokT).(structure)
		*structField(tok, tokT, "Method") = args[0]
		*structField(tok, tokT, "Claims") = args[1]
		var cell value = tok
		return &cell
	}
	externals["(*"+jwtPkg+".Token).SignedString"] = func(fr *frame, args []value) value {
		tokT := lookupNamed(fr.i.prog, jwtPkg, "Token")
		tok := (*args[0].(*value)).(structure)
		if kp, ok := args[1].(iface); !ok || kp.t == nil {
			return tuple{"", iface{errorType, "key is invalid"}}
		} else if pv, isPtr := kp.v.(*value); isPtr && pv == nil {
			return tuple{"", iface{errorType, "key is invalid"}}
		}
		claims := (*structField(tok, tokT, "Claims")).(iface)
		rcT := lookupNamed(fr.i.prog, jwtPkg, "RegisteredClaims")
		cv := claims.v
		if cp, ok := cv.(*value); ok {
			cv = *cp
		}
		ct := claims.t
		if pt, ok := ct.(*types.Pointer); ok {
			ct = pt.Elem()
		}
		var rc structure
		if types.Identical(ct, rcT) {
			rc = cv.(structure)
		} else {
			rc = (*structField(cv, ct, "RegisteredClaims")).(structure)
		}
		sub, _ := (*structField(rc, rcT, "Subject")).(string)
		return tuple{"minted-for:" + sub, iface{}}
	}
	externals[jwtPkg+".ParseWithClaims"] = func(fr *frame, args []value) value {
		p := fr.i.path
		sh := p.env.jwt
		if sh == nil {
			panic(unsupported{"jwt.ParseWithClaims without a StubJWT shape"})
		}
		if sh.assertion {
			return parseAssertion(fr, sh, args)
		}
		tokT := mustDeref(fr.fn.Signature.Results().At(0).Type())
		tok := zero(tokT).(structure)
		*structField(tok, tokT, "Raw") = args[0]
		// method
		var mname, mtype string
		switch sh.alg {
		case 0:
			mname, mtype = "RS256", "SigningMethodRSA"
		case 1:
			mname, mtype = "RS384", "SigningMethodRSA"
		default:
			mname, mtype = "HS256", "SigningMethodHMAC"
		}
		mt := lookupNamed(fr.i.prog, jwtPkg, mtype)
		mv := zero(mt).(structure)
		*structField(mv, mt, "Name") = mname
		var mcell value = mv
		*structField(tok, tokT, "Method") = iface{types.NewPointer(mt), &mcell}
		// claims: fill the object passed in (a *CustomClaims embedding RegisteredClaims)
		claims := args[1].(iface)
		*structField(tok, tokT, "Claims") = claims
		if cp, ok := claims.v.(*value); ok && cp != nil {
			ct := mustDeref(claims.t)
			rcT := lookupNamed(fr.i.prog, jwtPkg, "RegisteredClaims")
			var rc structure
			if types.Identical(ct, rcT) {
				rc = (*cp).(structure)
			} else {
				rc = (*structField(*cp, ct, "RegisteredClaims")).(structure)
			}
			switch sh.aud {
			case 1:
				*structField(rc, rcT, "Audience") = []value{"node:n1"}
			case 2:
				*structField(rc, rcT, "Audience") = []value{"node:other"}
			}
			switch sh.iss {
			case 1:
				*structField(rc, rcT, "Issuer") = "node:n1"
			case 2:
				*structField(rc, rcT, "Issuer") = "node:other"
			}
			*structField(rc, rcT, "Subject") = "client-1"
		}
		ok := sh.sigOK && sh.fresh && sh.alg != 2
		*structField(tok, tokT, "Valid") = ok
		var tcell value = tok
		if ok {
			return tuple{&tcell, iface{}}
		}
		msg := "crypto/rsa: verification error"
		switch {
		case sh.alg == 2:
			msg = "key is of invalid type"
		case sh.sigOK && !sh.fresh:
			msg = "token is expired"
		}
		return tuple{&tcell, iface{errorType, msg}}
	}
}

// parseAssertion: ParseWithClaims over a client assertion (see jwtShape).
func parseAssertion(fr *frame, sh *jwtShape, args []value) value {
	tokT := mustDeref(fr.fn.Signature.Results().At(0).Type())
	tok := zero(tokT).(structure)
	*structField(tok, tokT, "Raw") = args[0]
	mt := lookupNamed(fr.i.prog, jwtPkg, "SigningMethodRSA")
	mv := zero(mt).(structure)
	*structField(mv, mt, "Name") = "RS256"
	var mcell value = mv
	*structField(tok, tokT, "Method") = iface{types.NewPointer(mt), &mcell}
	claims := args[1].(iface)
	*structField(tok, tokT, "Claims") = claims
	name := func(k int) string { return "client-" + string(rune('0'+k)) }
	if cp, ok := claims.v.(*value); ok && cp != nil {
		ct := mustDeref(claims.t)
		rcT := lookupNamed(fr.i.prog, jwtPkg, "RegisteredClaims")
		var rc structure
		if types.Identical(ct, rcT) {
			rc = (*cp).(structure)
		} else {
			rc = (*structField(*cp, ct, "RegisteredClaims")).(structure)
		}
		*structField(rc, rcT, "Subject") = name(sh.sub)
		if sh.iss != 0 {
			*structField(rc, rcT, "Issuer") = name(sh.iss)
		}
	}
	var tcell value = tok
	// the key function decides which key the signature is checked with
	res := call(fr.i, fr, token.NoPos, args[2], []value{&tcell}).(tuple)
	if e, ok := res[1].(iface); ok && e.t != nil {
		return tuple{&tcell, res[1]}
	}
	key, _ := res[0].(iface)
	kt := lookupNamed(fr.i.prog, "crypto/rsa", "PublicKey")
	kp, isPtr := key.v.(*value)
	if key.t == nil || !isPtr || kp == nil || !types.Identical(mustDeref(key.t), kt) {
		return tuple{&tcell, iface{errorType, "key is of invalid type"}}
	}
	e, _ := (*structField(*kp, kt, "E")).(int64)
	switch {
	case int(e) != sh.signer:
		return tuple{&tcell, iface{errorType, "crypto/rsa: verification error"}}
	case !sh.fresh:
		return tuple{&tcell, iface{errorType, "token is expired"}}
	}
	*structField(tok, tokT, "Valid") = true
	tcell = tok
	return tuple{&tcell, iface{}}
}
