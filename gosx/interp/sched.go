// gosx: interpreter threads (goroutines of the target program), channels and
// the sync primitives. Exactly one thread runs at a time (baton passing), so
// a path is a deterministic function of its decision trace.

package interp

import (
	"fmt"
	"go/token"
	"go/types"
	"strings"

	"golang.org/x/tools/go/ssa"
)

type thread struct {
	id        int
	resume    chan struct{}
	done      chan struct{}
	state     int // 0 runnable, 1 blocked, 2 finished
	cond      func() bool
	what      string
	locks     []*value // mutexes currently held (lock trace)
	parent    *thread  // thread that spawned this one (gets the baton back first)
	pointHits map[string]int
}

type scheduler struct {
	p        *pathState
	threads  []*thread
	cur      *thread
	killed   bool
	fatal    interface{} // engine or target panic raised in a non-main thread
	symbolic bool        // symbolic scheduling at yield points
	preempt  int         // remaining preemptive switches
	mapOrder int         // remaining map range statements whose start is a symbolic choice
	lockPoints bool      // Lock/RLock calls of /repo code are scheduling points
	txnPoints  bool      // Badger transaction starts of /repo code are scheduling points
	switches int
	preempted int // preemptive switches made so far
	harnessGos int // h.Go calls so far
}

func newScheduler(p *pathState) *scheduler {
	s := &scheduler{p: p}
	main := &thread{id: 0, resume: make(chan struct{}, 1), done: make(chan struct{})}
	s.threads = []*thread{main}
	s.cur = main
	return s
}

// transfer hands the baton from the current thread to t and waits until the
// current thread is resumed.
func (s *scheduler) transfer(t *thread) {
	me := s.cur
	if t == me {
		return
	}
	s.cur = t
	s.switches++
	t.resume <- struct{}{}
	<-me.resume
	s.afterResume(me)
}

func (s *scheduler) afterResume(me *thread) {
	if s.killed && me.id != 0 {
		panic(threadKill{})
	}
	if me.id == 0 && s.fatal != nil {
		f := s.fatal
		s.fatal = nil
		panic(f)
	}
}

func (s *scheduler) ready(t *thread) bool {
	if t.state == 2 {
		return false
	}
	if t.state == 1 {
		return t.cond != nil && t.cond()
	}
	return true
}

// pickOther returns a thread other than the current one that can run.
func (s *scheduler) pickOther() *thread {
	var cands []*thread
	for _, t := range s.threads {
		if t != s.cur && s.ready(t) {
			cands = append(cands, t)
		}
	}
	if len(cands) == 0 {
		return nil
	}
	if s.symbolic && len(cands) > 1 {
		k := s.p.choose(len(cands), "sched")
		return cands[k]
	}
	// deterministic policy: the spawner chain first (run-to-block, then return)
	for a := s.cur.parent; a != nil; a = a.parent {
		for _, c := range cands {
			if c == a {
				return c
			}
		}
	}
	return cands[0]
}

// block suspends the current thread until cond() holds.
func (s *scheduler) block(cond func() bool, what string) {
	me := s.cur
	for !cond() {
		me.state, me.cond, me.what = 1, cond, what
		s.p.note("thread %d blocks on %s", me.id, what)
		t := s.pickOther()
		if t == nil {
			me.state = 0
			if s.p.env != nil && s.p.env.fireForProgress(s.p) {
				continue
			}
			var desc []string
			for _, th := range s.threads {
				if th.state == 1 {
					desc = append(desc, fmt.Sprintf("thread %d waits on %s", th.id, th.what))
				}
			}
			s.p.res.Asserts++
			s.p.violation("deadlock", "all threads blocked: "+fmt.Sprint(desc))
			panic(pathAbort{"deadlock"})
		}
		s.transfer(t)
	}
	me.state, me.cond = 0, nil
}

// runOthers lets every other ready thread run until it blocks or finishes
// (used when an event such as a context cancellation wakes goroutines that in
// a real execution react promptly).
func (s *scheduler) runOthers() {
	if s.symbolic {
		return // under symbolic scheduling the interleaving is chosen at yield points
	}
	for n := 0; n < 64; n++ {
		var t *thread
		for _, c := range s.threads {
			if c != s.cur && s.ready(c) && c.state == 1 {
				t = c
				break
			}
		}
		if t == nil {
			return
		}
		// the woken thread hands the baton back when it blocks or finishes
		saved := t.parent
		t.parent = s.cur
		s.transfer(t)
		t.parent = saved
	}
}

// yield is a scheduling point: under symbolic scheduling another runnable
// thread may be chosen (bounded number of preemptions).
func (s *scheduler) yield(what string) {
	if !s.symbolic || s.preempt <= 0 {
		return
	}
	// preemption happens only at verifhook.Point boundaries (and wherever a thread
	// blocks): these are the places a native replay can hold a goroutine
	if !strings.HasPrefix(what, "point:") && !strings.HasPrefix(what, "Yield@") {
		return
	}
	var cands []*thread
	for _, t := range s.threads {
		if t != s.cur && s.ready(t) {
			cands = append(cands, t)
		}
	}
	if len(cands) == 0 {
		return
	}
	k := s.p.choose(len(cands)+1, "preempt@"+what)
	if k == 0 {
		return
	}
	s.preempt--
	s.preempted++
	s.p.note("preempt at %s: thread %d -> %d", what, s.cur.id, cands[k-1].id)
	s.transfer(cands[k-1])
}

// spawn starts a new thread running fn(args).
func (s *scheduler) spawn(fr *frame, pos token.Pos, fn value, args []value) {
	if len(s.threads) > 64 {
		panic(unwindFail{"more than 64 goroutines on one path"})
	}
	t := &thread{id: len(s.threads), resume: make(chan struct{}, 1), done: make(chan struct{}), parent: s.cur}
	s.threads = append(s.threads, t)
	s.p.note("thread %d spawned by thread %d", t.id, s.cur.id)
	i := fr.i
	go func() {
		<-t.resume
		if !s.killed && s.symbolic {
			// when the thread first runs: what a native replay holds its goroutine back for
			var fin []string
			for _, o := range s.threads {
				if o.state == 2 {
					fin = append(fin, fmt.Sprint(o.id))
				}
			}
			s.p.note("thread %d starts after %d preemptions; finished: %s", t.id, s.preempted, strings.Join(fin, ","))
		}
		defer close(t.done)
		defer func() {
			r := recover()
			t.state = 2
			if _, isKill := r.(threadKill); isKill || s.killed {
				return
			}
			s.p.note("thread %d finished (panic=%v)", t.id, r != nil)
			if r != nil {
				if !isEnginePanic(r) {
					// a panic escaping a goroutine kills the process
					r = goroutinePanic{r}
				}
				s.fatal = r
				s.handTo(s.threads[0])
				return
			}
			// finished normally: hand the baton on
			nt := s.pickOtherFrom(t)
			if nt == nil {
				// nobody can run: only possible if main is blocked for good
				s.fatal = pathAbortDeadlock(s)
				nt = s.threads[0]
			}
			s.handTo(nt)
		}()
		if s.killed {
			panic(threadKill{})
		}
		call(i, nil, pos, fn, args)
	}()
	if s.symbolic {
		// new thread is runnable; the spawner continues (choice happens at yield points)
		return
	}
	// default policy: run the new thread until it blocks or finishes
	s.transfer(t)
}

type goroutinePanic struct{ v interface{} }

func pathAbortDeadlock(s *scheduler) interface{} {
	var desc []string
	for _, th := range s.threads {
		if th.state == 1 {
			desc = append(desc, fmt.Sprintf("thread %d waits on %s", th.id, th.what))
		}
	}
	s.p.res.Asserts++
	s.p.violation("deadlock", "all threads blocked: "+fmt.Sprint(desc))
	return pathAbort{"deadlock"}
}

func (s *scheduler) pickOtherFrom(me *thread) *thread {
	for a := me.parent; a != nil; a = a.parent {
		if s.ready(a) {
			return a
		}
	}
	var cands []*thread
	for _, t := range s.threads {
		if t != me && s.ready(t) {
			cands = append(cands, t)
		}
	}
	if len(cands) == 0 {
		return nil
	}
	if s.symbolic && len(cands) > 1 {
		// under symbolic scheduling the thread that runs after a finished one is a choice too
		return cands[s.p.choose(len(cands), "sched")]
	}
	return cands[0]
}

// handTo passes the baton without waiting (used by finishing threads).
func (s *scheduler) handTo(t *thread) {
	s.cur = t
	t.resume <- struct{}{}
}

// killAll terminates all parked threads at the end of a path.
func (s *scheduler) killAll() {
	s.killed = true
	for _, t := range s.threads[1:] {
		if t.state != 2 {
			select {
			case t.resume <- struct{}{}:
			default:
			}
			<-t.done
		}
	}
}

// choose draws a symbolic choice in [0,n) recorded like any other draw.
func (p *pathState) choose(n int, name string) int {
	if n <= 1 {
		return 0
	}
	v := p.fresh(name, bvSort(8), "choice")
	return p.chooseFree(v, n)
}

func (p *pathState) violation(kind, msg string) {
	_, m := p.w.solver.check(p.pc, true, p.drawTerms())
	model, order := p.modelOf(m)
	p.res.Violations = append(p.res.Violations, Violation{Kind: kind, Msg: msg, Model: model, Order: order, Notes: append([]string{}, p.notes...), Script: Script(p.pc), Known: append([]string{}, p.known...)})
}

// ---- channels

type mchan struct {
	buf      []value
	capacity int
	closed   bool
	elem     types.Type
	recvWait int // receivers currently blocked (for unbuffered rendezvous)
}

func newChan(capacity int, elem types.Type) *mchan {
	return &mchan{capacity: capacity, elem: elem}
}

func (c *mchan) length() int {
	if c == nil {
		return 0
	}
	return len(c.buf)
}

func chanSend(fr *frame, cv value, v value) {
	c := cv.(*mchan)
	s := fr.i.path.sched
	if c == nil {
		s.block(func() bool { return false }, "send on nil channel")
	}
	if c.closed {
		panic("send on closed channel")
	}
	if c.capacity > 0 {
		s.block(func() bool { return c.closed || len(c.buf) < c.capacity }, "chan send")
		if c.closed {
			panic("send on closed channel")
		}
		c.buf = append(c.buf, v)
		return
	}
	// unbuffered: deposit, then wait until taken
	s.block(func() bool { return len(c.buf) == 0 }, "chan send (slot)")
	c.buf = append(c.buf, v)
	item := len(c.buf)
	_ = item
	s.block(func() bool { return len(c.buf) == 0 || c.closed }, "chan send (rendezvous)")
}

func chanRecv(fr *frame, cv value, elem types.Type) (value, bool) {
	c := cv.(*mchan)
	s := fr.i.path.sched
	if c == nil {
		s.block(func() bool { return false }, "receive on nil channel")
	}
	c.recvWait++
	s.block(func() bool { return len(c.buf) > 0 || c.closed }, "chan receive")
	c.recvWait--
	if len(c.buf) > 0 {
		v := c.buf[0]
		c.buf = c.buf[1:]
		return v, true
	}
	return zero(elem), false
}

func chanClose(fr *frame, cv value) {
	c := cv.(*mchan)
	if c == nil {
		panic("close of nil channel")
	}
	if c.closed {
		panic("close of closed channel")
	}
	c.closed = true
}

func chanSelect(fr *frame, instr *ssa.Select) value {
	s := fr.i.path.sched
	type st struct {
		c    *mchan
		send value
		recv bool
	}
	var states []st
	for _, state := range instr.States {
		c, _ := fr.get(state.Chan).(*mchan)
		x := st{c: c, recv: state.Dir == types.RecvOnly}
		if state.Send != nil {
			x.send = fr.get(state.Send)
		}
		states = append(states, x)
	}
	readyIdx := func() int {
		for i, x := range states {
			if x.c == nil {
				continue
			}
			if x.recv {
				if len(x.c.buf) > 0 || x.c.closed {
					return i
				}
			} else {
				if x.c.closed {
					return i // will panic
				}
				if x.c.capacity > 0 && len(x.c.buf) < x.c.capacity {
					return i
				}
				if x.c.capacity == 0 && len(x.c.buf) == 0 && x.c.recvWait > 0 {
					return i
				}
			}
		}
		return -1
	}
	chosen := readyIdx()
	if chosen < 0 && instr.Blocking {
		for _, x := range states {
			if x.c != nil && x.recv {
				x.c.recvWait++
			}
		}
		s.block(func() bool { return readyIdx() >= 0 }, "select")
		for _, x := range states {
			if x.c != nil && x.recv {
				x.c.recvWait--
			}
		}
		chosen = readyIdx()
	}
	var recvVal value
	recvOk := false
	if chosen >= 0 {
		x := states[chosen]
		if x.recv {
			if len(x.c.buf) > 0 {
				recvVal = x.c.buf[0]
				x.c.buf = x.c.buf[1:]
				recvOk = true
			}
		} else {
			if x.c.closed {
				panic("send on closed channel")
			}
			x.c.buf = append(x.c.buf, x.send)
		}
	}
	r := tuple{chosen, recvOk}
	for i, stt := range instr.States {
		if stt.Dir == types.RecvOnly {
			var v value
			if i == chosen && recvOk {
				v = recvVal
			} else {
				v = zero(stt.Chan.Type().Underlying().(*types.Chan).Elem())
			}
			r = append(r, v)
		}
	}
	return r
}
