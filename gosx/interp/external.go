// Copyright 2013 The Go Authors. All rights reserved.
// Use of this source code is governed by a BSD-style
// license that can be found in the LICENSE file.

package interp

// Emulated functions that we cannot interpret because they are
// external or because they use "unsafe" or "reflect" operations.

import (
	"math"
	"runtime"
	"unicode/utf8"
)

type externalFn func(fr *frame, args []value) value

// TODO(adonovan): fix: reflect.Value abstracts an lvalue or an
// rvalue; Set() causes mutations that can be observed via aliases.
// We have not captured that correctly here.

// Key strings are from Function.String().
var externals = make(map[string]externalFn)

func init() {
	// That little dot ۰ is an Arabic zero numeral (U+06F0), categories [Nd].
	for k, v := range map[string]externalFn{
		"(reflect.Value).Bool":            ext۰reflect۰Value۰Bool,
		"(reflect.Value).CanAddr":         ext۰reflect۰Value۰CanAddr,
		"(reflect.Value).CanInterface":    ext۰reflect۰Value۰CanInterface,
		"(reflect.Value).Elem":            ext۰reflect۰Value۰Elem,
		"(reflect.Value).Field":           ext۰reflect۰Value۰Field,
		"(reflect.Value).Float":           ext۰reflect۰Value۰Float,
		"(reflect.Value).Index":           ext۰reflect۰Value۰Index,
		"(reflect.Value).Int":             ext۰reflect۰Value۰Int,
		"(reflect.Value).Interface":       ext۰reflect۰Value۰Interface,
		"(reflect.Value).IsNil":           ext۰reflect۰Value۰IsNil,
		"(reflect.Value).IsValid":         ext۰reflect۰Value۰IsValid,
		"(reflect.Value).Kind":            ext۰reflect۰Value۰Kind,
		"(reflect.Value).Len":             ext۰reflect۰Value۰Len,
		"(reflect.Value).NumField":        ext۰reflect۰Value۰NumField,
		"(reflect.Value).NumMethod":       ext۰reflect۰Value۰NumMethod,
		"(reflect.Value).Pointer":         ext۰reflect۰Value۰Pointer,
		"(reflect.Value).Set":             ext۰reflect۰Value۰Set,
		"(reflect.Value).String":          ext۰reflect۰Value۰String,
		"(reflect.Value).Type":            ext۰reflect۰Value۰Type,
		"(reflect.Value).Uint":            ext۰reflect۰Value۰Uint,
		"(reflect.error).Error":           ext۰reflect۰error۰Error,
		"(reflect.rtype).Bits":            ext۰reflect۰rtype۰Bits,
		"(reflect.rtype).Elem":            ext۰reflect۰rtype۰Elem,
		"(reflect.rtype).Field":           ext۰reflect۰rtype۰Field,
		"(reflect.rtype).In":              ext۰reflect۰rtype۰In,
		"(reflect.rtype).Kind":            ext۰reflect۰rtype۰Kind,
		"(reflect.rtype).NumField":        ext۰reflect۰rtype۰NumField,
		"(reflect.rtype).NumIn":           ext۰reflect۰rtype۰NumIn,
		"(reflect.rtype).NumMethod":       ext۰reflect۰rtype۰NumMethod,
		"(reflect.rtype).NumOut":          ext۰reflect۰rtype۰NumOut,
		"(reflect.rtype).Out":             ext۰reflect۰rtype۰Out,
		"(reflect.rtype).Size":            ext۰reflect۰rtype۰Size,
		"(reflect.rtype).String":          ext۰reflect۰rtype۰String,
		"math.Abs":                        ext۰math۰Abs,
		"math.Copysign":                   ext۰math۰Copysign,
		"math.Exp":                        ext۰math۰Exp,
		"math.Float32bits":                ext۰math۰Float32bits,
		"math.Float32frombits":            ext۰math۰Float32frombits,
		"math.Float64bits":                ext۰math۰Float64bits,
		"math.Float64frombits":            ext۰math۰Float64frombits,
		"math.Inf":                        ext۰math۰Inf,
		"math.IsNaN":                      ext۰math۰IsNaN,
		"math.Ldexp":                      ext۰math۰Ldexp,
		"math.Log":                        ext۰math۰Log,
		"math.NaN":                        ext۰math۰NaN,
		"math.Sqrt":                       ext۰math۰Sqrt,
		"os.Exit":                         ext۰os۰Exit,
		"reflect.New":                     ext۰reflect۰New,
		"reflect.SliceOf":                 ext۰reflect۰SliceOf,
		"reflect.TypeOf":                  ext۰reflect۰TypeOf,
		"reflect.ValueOf":                 ext۰reflect۰ValueOf,
		"reflect.Zero":                    ext۰reflect۰Zero,
		"runtime.Breakpoint":              ext۰runtime۰Breakpoint,
		"runtime.GOMAXPROCS":              ext۰runtime۰GOMAXPROCS,
		"runtime.GOROOT":                  ext۰runtime۰GOROOT,
		"runtime.Goexit":                  ext۰runtime۰Goexit,
		"runtime.NumCPU":                  ext۰runtime۰NumCPU,
		"unicode/utf8.DecodeRuneInString": ext۰unicode۰utf8۰DecodeRuneInString,
	} {
		externals[k] = v
	}
}



func ext۰math۰Float64frombits(fr *frame, args []value) value {
	return math.Float64frombits(args[0].(uint64))
}

func ext۰math۰Float64bits(fr *frame, args []value) value {
	return math.Float64bits(args[0].(float64))
}

func ext۰math۰Float32frombits(fr *frame, args []value) value {
	return math.Float32frombits(args[0].(uint32))
}

func ext۰math۰Abs(fr *frame, args []value) value {
	return math.Abs(args[0].(float64))
}

func ext۰math۰Copysign(fr *frame, args []value) value {
	return math.Copysign(args[0].(float64), args[1].(float64))
}

func ext۰math۰Exp(fr *frame, args []value) value {
	return math.Exp(args[0].(float64))
}

func ext۰math۰Float32bits(fr *frame, args []value) value {
	return math.Float32bits(args[0].(float32))
}


func ext۰math۰NaN(fr *frame, args []value) value {
	return math.NaN()
}

func ext۰math۰IsNaN(fr *frame, args []value) value {
	return math.IsNaN(args[0].(float64))
}

func ext۰math۰Inf(fr *frame, args []value) value {
	return math.Inf(args[0].(int))
}

func ext۰math۰Ldexp(fr *frame, args []value) value {
	return math.Ldexp(args[0].(float64), args[1].(int))
}

func ext۰math۰Log(fr *frame, args []value) value {
	return math.Log(args[0].(float64))
}

func ext۰math۰Sqrt(fr *frame, args []value) value {
	return math.Sqrt(args[0].(float64))
}

func ext۰runtime۰Breakpoint(fr *frame, args []value) value {
	runtime.Breakpoint()
	return nil
}








func ext۰runtime۰GOMAXPROCS(fr *frame, args []value) value {
	// Ignore args[0]; don't let the interpreted program
	// set the interpreter's GOMAXPROCS!
	return runtime.GOMAXPROCS(0)
}

func ext۰runtime۰Goexit(fr *frame, args []value) value {
	// TODO(adonovan): don't kill the interpreter's main goroutine.
	runtime.Goexit()
	return nil
}

func ext۰runtime۰GOROOT(fr *frame, args []value) value {
	return runtime.GOROOT()
}



func ext۰runtime۰NumCPU(fr *frame, args []value) value {
	return runtime.NumCPU()
}



func ext۰os۰Exit(fr *frame, args []value) value {
	panic(exitPanic(args[0].(int)))
}

func ext۰unicode۰utf8۰DecodeRuneInString(fr *frame, args []value) value {
	r, n := utf8.DecodeRuneInString(args[0].(string))
	return tuple{r, n}
}

