// gosx: modelled environment: clock, timers, contexts, sync, atomic, files.

package interp

import (
	"path/filepath"
	"fmt"
	"go/token"
	"go/types"
	"sort"
	"strings"

	"golang.org/x/tools/go/ssa"
)

type timerModel struct {
	id       int
	deadline value // int64 nanos (concrete or sym)
	fire     func(fr *frame)
	fired    bool
	stopped  bool
	what     string
}

type ctxModel struct {
	parent      value // iface of the parent context
	done        *mchan
	err         value // iface error
	deadline    value // time structure or nil
	children    []*ctxModel
	timer       *timerModel
	cancelCause string
}

type mutexState struct {
	locked  bool
	owner   int
	readers int
}

type wgState struct{ n int64 }

type fileModel struct {
	path     string
	readonly bool
	closed   bool
	pos      int
}

type envState struct {
	disks     map[string]*kvDisk
	diskOrder []string
	effects   []effect

	files map[string]value // path → []value bytes | *blob | dirMarker
	dirs  map[string]bool

	clockSym bool
	now      value // int64 nanos; concrete int64 or sym
	nowCount int
	sleepDue int64

	timers      []*timerModel
	mutexes     map[*value]*mutexState
	wgs         map[*value]*wgState
	onces       map[*value]bool
	syncMaps    map[*value]*omap
	lockLog     []string
	envVars     map[string]string
	b64         map[string]b64Token
	jwt         *jwtShape
	cronEntries int
	pointHits   map[string]int
	crashWindow int
	crashCommits bool
	// scripted remote (h.Remote)
	remotePages    []string
	remoteServed   int
	remoteRequests []string
	remoteLog      []string
	uuids          int
	// failWriteSuffix: writes to files whose path ends with it fail (h.FailWrites)
	failWriteSuffix string
	recycleKeys  bool
	acked       bool
}

func newEnvState() *envState {
	return &envState{
		disks:     map[string]*kvDisk{},
		files:     map[string]value{},
		dirs:      map[string]bool{},
		now:       int64(1_700_000_000_000_000_000),
		mutexes:   map[*value]*mutexState{},
		wgs:       map[*value]*wgState{},
		onces:     map[*value]bool{},
		syncMaps:  map[*value]*omap{},
		envVars:   map[string]string{},
		pointHits: map[string]int{},
	}
}

// ---- clock

const clockLo = uint64(1_000_000_000_000_000_000)
const clockHi = uint64(1) << 62

func mkTime(nanos value) value {
	return structure{uint64(0), nanos, (*value)(nil)}
}

func timeNanos(t value) value { return t.(structure)[1] }

func (e *envState) readClock(p *pathState) value {
	b := p.bank()
	if !e.clockSym {
		n := e.now.(int64) + 1000 + e.sleepDue
		e.sleepDue = 0
		e.now = n
		return n
	}
	v := p.fresh("clock", bvSort(64), "i64")
	prev := termOf(b, e.now)
	lo := b.Add(prev, b.BV(uint64(e.sleepDue), 64))
	e.sleepDue = 0
	p.assume(b.And(b.ULe(lo, v), b.ULe(b.BV(clockLo, 64), v), b.ULt(v, b.BV(clockHi, 64))))
	e.now = mkval(v, types.Int64)
	return e.now
}

// advanceTo moves the clock strictly past deadline d.
func (e *envState) advanceTo(p *pathState, d value) {
	b := p.bank()
	if !e.clockSym {
		if dv, ok := d.(int64); ok {
			if e.now.(int64) <= dv {
				e.now = dv + 1
			}
			return
		}
	}
	v := p.fresh("clock", bvSort(64), "i64")
	p.assume(b.And(b.ULe(termOf(b, e.now), v), b.ULt(termOf(b, d), v), b.ULt(v, b.BV(clockHi, 64))))
	e.now = mkval(v, types.Int64)
	e.clockSym = true
}

func (e *envState) newTimer(deadline value, what string, fire func(fr *frame)) *timerModel {
	t := &timerModel{id: len(e.timers), deadline: deadline, fire: fire, what: what}
	e.timers = append(e.timers, t)
	return t
}

func (e *envState) pendingTimers() []*timerModel {
	var out []*timerModel
	for _, t := range e.timers {
		if !t.fired && !t.stopped {
			out = append(out, t)
		}
	}
	return out
}

// fireForProgress fires the earliest pending timer when every thread is
// blocked (time passes while the program waits).
func (e *envState) fireForProgress(p *pathState) bool {
	ts := e.pendingTimers()
	if len(ts) == 0 {
		return false
	}
	t := ts[0]
	e.fireTimer(p, nil, t)
	return true
}

func (e *envState) fireTimer(p *pathState, fr *frame, t *timerModel) {
	t.fired = true
	e.advanceTo(p, t.deadline)
	p.note("timer fired: %s", t.what)
	t.fire(fr)
}

// ---- contexts

func ctxOf(v value) *ctxModel {
	iv, ok := v.(iface)
	if !ok || iv.t == nil {
		return nil
	}
	pv, ok := iv.v.(*value)
	if !ok || pv == nil {
		return nil
	}
	c, _ := (*pv).(*ctxModel)
	return c
}

func (c *ctxModel) cancel(err value) {
	if c.err != nil {
		return
	}
	c.err = err
	if !c.done.closed {
		c.done.closed = true
	}
	if c.timer != nil {
		c.timer.stopped = true
	}
	for _, ch := range c.children {
		ch.cancel(err)
	}
}

func lookupNamed(prog *ssa.Program, pkg, name string) types.Type {
	p := prog.ImportedPackage(pkg)
	if p == nil {
		panic(unsupported{"package " + pkg + " not loaded"})
	}
	o := p.Pkg.Scope().Lookup(name)
	if o == nil {
		panic(unsupported{"no " + pkg + "." + name})
	}
	return o.Type()
}

func ctxErr(name string) value {
	if name == "Canceled" {
		return iface{errorType, "context canceled"}
	}
	return iface{errorType, "context deadline exceeded"}
}

func (i *interpreter) newCtx(parent value, deadline value) (value, *ctxModel) {
	c := &ctxModel{parent: parent, done: newChan(0, types.NewStruct(nil, nil)), deadline: deadline}
	if pc := ctxOf(parent); pc != nil {
		if pc.err != nil {
			c.cancel(pc.err)
		} else {
			pc.children = append(pc.children, c)
		}
		if deadline == nil {
			c.deadline = pc.deadline
		}
	}
	t := types.NewPointer(lookupNamed(i.prog, "context", "cancelCtx"))
	return iface{t, box(c)}, c
}

// ---- sync

func (e *envState) mutex(p *value) *mutexState {
	m, ok := e.mutexes[p]
	if !ok {
		m = &mutexState{}
		e.mutexes[p] = m
	}
	return m
}

func recvPtr(v value, what string) *value {
	p, ok := v.(*value)
	if !ok || p == nil {
		panic("runtime error: invalid memory address or nil pointer dereference (" + what + ")")
	}
	return p
}

func (fr *frame) curThread() *thread { return fr.i.path.sched.cur }

func mutexLock(fr *frame, mp *value, what string) {
	p := fr.i.path
	m := p.env.mutex(mp)
	lockPoint(fr, what)
	th := p.sched.cur
	if m.locked && m.owner == th.id {
		// self-deadlock: Go mutexes are not reentrant
		p.res.Asserts++
		p.violation("deadlock", fmt.Sprintf("thread %d locks %s which it already holds", th.id, what))
		panic(pathAbort{"self deadlock"})
	}
	p.sched.block(func() bool { return !m.locked && m.readers == 0 }, "mutex "+what)
	m.locked = true
	m.owner = th.id
	th.locks = append(th.locks, mp)
}

// lockPoint: after h.SymbolicLocks() every Lock/RLock call made by /repo code
// (not by harness files) is a scheduling point named lock:<file>:<line>, with
// the same per-thread hit counting as verifhook.Point. Natively the replay
// build inserts verifhook.Point("lock:<file>:<line>") before the same calls.
func lockPoint(fr *frame, what string) {
	p := fr.i.path
	s := p.sched
	if !s.lockPoints || fr.caller == nil || fr.caller.fn == nil {
		return
	}
	file := fr.i.prog.Fset.Position(fr.caller.fn.Pos()).Filename
	if !inRepo(file) {
		return
	}
	name := "lock:" + what
	th := s.cur
	if th.pointHits == nil {
		th.pointHits = map[string]int{}
	}
	th.pointHits[name]++
	s.yield(fmt.Sprintf("point:%s#%d", name, th.pointHits[name]))
}

// txnPoint: after h.SymbolicTxns() the start of every Badger transaction
// (View, Update, NewTransaction) made by /repo code is a scheduling point named
// txn:<file>:<line> — the granularity at which snapshot reads of concurrent
// clients interleave. The replay build has verifhook.Point inserted before the
// same statements.
// txnBodyPoint: the start of the closure of a DB.Update — after the transaction took its
// snapshot, before it commits — is a scheduling point txnbody:<file>:<line> under
// h.SymbolicTxns(): this is where another client's commit lands inside an optimistic
// read-modify-write. The replay build has verifhook.Point as the first statement of the closure.
func txnBodyPoint(fr *frame) {
	p := fr.i.path
	s := p.sched
	if s == nil || !s.txnPoints || fr.caller == nil || fr.caller.fn == nil {
		return
	}
	file := fr.i.prog.Fset.Position(fr.caller.fn.Pos()).Filename
	if !inRepo(file) {
		return
	}
	name := "txnbody:" + mutexName(fr)
	th := s.cur
	if th.pointHits == nil {
		th.pointHits = map[string]int{}
	}
	th.pointHits[name]++
	s.yield(fmt.Sprintf("point:%s#%d", name, th.pointHits[name]))
}

func txnPoint(fr *frame) {
	p := fr.i.path
	s := p.sched
	if s == nil || !s.txnPoints || fr.caller == nil || fr.caller.fn == nil {
		return
	}
	file := fr.i.prog.Fset.Position(fr.caller.fn.Pos()).Filename
	if !inRepo(file) {
		return
	}
	name := "txn:" + mutexName(fr)
	th := s.cur
	if th.pointHits == nil {
		th.pointHits = map[string]int{}
	}
	th.pointHits[name]++
	s.yield(fmt.Sprintf("point:%s#%d", name, th.pointHits[name]))
}

// commitSchedPoint: with h.SymbolicTxns() an explicit txn.Commit() made by /repo code is a
// scheduling point named commit:<file>:<line> (the replay build has a verifhook.Point of that
// name before the same statements, which also serves as crash candidate).
func commitSchedPoint(fr *frame) {
	p := fr.i.path
	s := p.sched
	if s == nil || !s.txnPoints || fr.caller == nil || fr.caller.fn == nil {
		return
	}
	file := fr.i.prog.Fset.Position(fr.caller.fn.Pos()).Filename
	if !inRepo(file) {
		return
	}
	name := "commit:" + mutexName(fr)
	th := s.cur
	if th.pointHits == nil {
		th.pointHits = map[string]int{}
	}
	th.pointHits[name]++
	s.yield(fmt.Sprintf("point:%s#%d", name, th.pointHits[name]))
}

func mutexUnlock(fr *frame, mp *value, what string) {
	p := fr.i.path
	m := p.env.mutex(mp)
	if !m.locked {
		panic(targetPanic{iface{types.Typ[types.String], "sync: unlock of unlocked mutex"}})
	}
	m.locked = false
	for _, th := range p.sched.threads {
		for k, l := range th.locks {
			if l == mp {
				th.locks = append(th.locks[:k:k], th.locks[k+1:]...)
				break
			}
		}
	}
	p.sched.yield("unlock:" + what)
}

func mutexName(fr *frame) string {
	if fr.caller != nil && fr.caller.curInstr != nil {
		pos := fr.caller.fn.Prog.Fset.Position(fr.caller.curInstr.Pos())
		return fmt.Sprintf("%s:%d", shortFile(pos.Filename), pos.Line)
	}
	return "?"
}

func shortFile(f string) string {
	if k := strings.LastIndex(f, "/"); k >= 0 {
		return f[k+1:]
	}
	return f
}

func (e *envState) syncMap(p *value) *omap {
	m, ok := e.syncMaps[p]
	if !ok {
		m = makeMap(types.NewInterfaceType(nil, nil).Complete(), 0).(*omap)
		e.syncMaps[p] = m
	}
	return m
}

// ---- files

type dirMarker struct{}

func (e *envState) fsMkdir(path string) {
	path = strings.TrimRight(path, "/")
	for path != "" && path != "/" {
		e.dirs[path] = true
		k := strings.LastIndex(path, "/")
		if k <= 0 {
			break
		}
		path = path[:k]
	}
}

func (e *envState) fsExists(path string) bool {
	path = strings.TrimRight(path, "/")
	if _, ok := e.files[path]; ok {
		return true
	}
	return e.dirs[path]
}

func concStr(v value, what string) string {
	s, ok := v.(string)
	if !ok {
		panic(unsupported{what + ": symbolic string"})
	}
	return s
}

func fsNotExist(path, op string) value {
	return iface{errorType, op + " " + path + ": no such file or directory"}
}

func isNotExistErr(v value) bool {
	iv, ok := v.(iface)
	if !ok || iv.t == nil {
		return false
	}
	s, ok := iv.v.(string)
	return ok && (strings.HasSuffix(s, "no such file or directory") || s == "file does not exist")
}

func init() {
	E := func(name string, f externalFn) { externals[name] = f }

	// ---- time
	E("time.Now", func(fr *frame, args []value) value { return mkTime(fr.i.path.env.readClock(fr.i.path)) })
	E("time.Sleep", func(fr *frame, args []value) value {
		d := fr.i.path.concInt(args[0], "sleep duration")
		if d > 0 {
			fr.i.path.env.sleepDue += d
		}
		fr.i.path.sched.yield("sleep")
		return nil
	})
	E("time.Since", func(fr *frame, args []value) value {
		p := fr.i.path
		now := p.env.readClock(p)
		return binop(fr, token.SUB, types.Typ[types.Int64], now, timeNanos(args[0]))
	})
	E("time.Until", func(fr *frame, args []value) value {
		p := fr.i.path
		now := p.env.readClock(p)
		return binop(fr, token.SUB, types.Typ[types.Int64], timeNanos(args[0]), now)
	})
	E("time.Unix", func(fr *frame, args []value) value {
		sec := fr.i.path.concInt(args[0], "time.Unix sec")
		ns := fr.i.path.concInt(args[1], "time.Unix nsec")
		return mkTime(sec*1_000_000_000 + ns)
	})
	E("time.UnixMilli", func(fr *frame, args []value) value {
		ms := fr.i.path.concInt(args[0], "time.UnixMilli")
		return mkTime(ms * 1_000_000)
	})
	E("(time.Time).UnixNano", func(fr *frame, args []value) value { return timeNanos(args[0]) })
	E("(time.Time).Unix", func(fr *frame, args []value) value {
		return binop(fr, token.QUO, types.Typ[types.Int64], timeNanos(args[0]), int64(1_000_000_000))
	})
	E("(time.Time).UnixMilli", func(fr *frame, args []value) value {
		return binop(fr, token.QUO, types.Typ[types.Int64], timeNanos(args[0]), int64(1_000_000))
	})
	E("(time.Time).After", func(fr *frame, args []value) value {
		return binop(fr, token.GTR, types.Typ[types.Int64], timeNanos(args[0]), timeNanos(args[1]))
	})
	E("(time.Time).Before", func(fr *frame, args []value) value {
		return binop(fr, token.LSS, types.Typ[types.Int64], timeNanos(args[0]), timeNanos(args[1]))
	})
	E("(time.Time).Equal", func(fr *frame, args []value) value {
		return binop(fr, token.EQL, types.Typ[types.Int64], timeNanos(args[0]), timeNanos(args[1]))
	})
	E("(time.Time).Sub", func(fr *frame, args []value) value {
		return binop(fr, token.SUB, types.Typ[types.Int64], timeNanos(args[0]), timeNanos(args[1]))
	})
	E("(time.Time).Add", func(fr *frame, args []value) value {
		return mkTime(binop(fr, token.ADD, types.Typ[types.Int64], timeNanos(args[0]), args[1]))
	})
	E("(time.Time).IsZero", func(fr *frame, args []value) value {
		return binop(fr, token.EQL, types.Typ[types.Int64], timeNanos(args[0]), int64(0))
	})
	E("(time.Time).UTC", func(fr *frame, args []value) value { return args[0] })
	E("(time.Time).Local", func(fr *frame, args []value) value { return args[0] })
	E("(time.Time).Format", func(fr *frame, args []value) value { return "<time>" })
	E("(time.Time).String", func(fr *frame, args []value) value { return "<time>" })
	E("(time.Duration).String", func(fr *frame, args []value) value { return "<duration>" })
	E("(time.Duration).Seconds", func(fr *frame, args []value) value {
		d := fr.i.path.concInt(args[0], "Duration.Seconds")
		return float64(d) / 1e9
	})
	E("(time.Duration).Milliseconds", func(fr *frame, args []value) value {
		return binop(fr, token.QUO, types.Typ[types.Int64], args[0], int64(1_000_000))
	})
	E("time.ParseDuration", func(fr *frame, args []value) value {
		s := concStr(args[0], "time.ParseDuration")
		d, err := parseDuration(s)
		if err != nil {
			return tuple{int64(0), iface{errorType, err.Error()}}
		}
		return tuple{int64(d), iface{}}
	})
	E("time.AfterFunc", func(fr *frame, args []value) value {
		p := fr.i.path
		d := args[0]
		fn := args[1]
		dl := binop(fr, token.ADD, types.Typ[types.Int64], p.env.now, d)
		i := fr.i
		t := p.env.newTimer(dl, "AfterFunc@"+mutexName(fr), func(cfr *frame) {
			p.sched.spawn(&frame{i: i}, token.NoPos, fn, nil)
		})
		return box(t)
	})
	E("(*time.Timer).Stop", func(fr *frame, args []value) value {
		t := unbox(args[0], "*time.Timer").(*timerModel)
		was := !t.fired && !t.stopped
		t.stopped = true
		return was
	})

	// ---- context
	E("context.WithCancel", func(fr *frame, args []value) value {
		cv, c := fr.i.newCtx(args[0], nil)
		return tuple{cv, &nativeFn{name: "cancel", f: func(fr *frame, a []value) value {
			c.cancel(ctxErr("Canceled"))
			fr.i.path.sched.runOthers()
			return nil
		}}}
	})
	withDeadline := func(fr *frame, parent value, dl value) value {
		p := fr.i.path
		cv, c := fr.i.newCtx(parent, mkTime(dl))
		c.timer = p.env.newTimer(dl, "context deadline@"+mutexName(fr), func(cfr *frame) {
			c.cancel(ctxErr("DeadlineExceeded"))
		})
		return tuple{cv, &nativeFn{name: "cancel", f: func(fr *frame, a []value) value {
			c.cancel(ctxErr("Canceled"))
			fr.i.path.sched.runOthers()
			return nil
		}}}
	}
	E("context.WithTimeout", func(fr *frame, args []value) value {
		p := fr.i.path
		dl := binop(fr, token.ADD, types.Typ[types.Int64], p.env.now, args[1])
		return withDeadline(fr, args[0], dl)
	})
	E("context.WithDeadline", func(fr *frame, args []value) value {
		return withDeadline(fr, args[0], timeNanos(args[1]))
	})
	E("context.WithValue", func(fr *frame, args []value) value { return args[0] })
	E("context.WithCancelCause", func(fr *frame, args []value) value {
		cv, c := fr.i.newCtx(args[0], nil)
		return tuple{cv, &nativeFn{name: "cancelCause", f: func(fr *frame, a []value) value {
			c.cancel(ctxErr("Canceled"))
			return nil
		}}}
	})
	E("(*context.cancelCtx).Done", func(fr *frame, args []value) value {
		return unbox(args[0], "context").(*ctxModel).done
	})
	E("(*context.cancelCtx).Err", func(fr *frame, args []value) value {
		c := unbox(args[0], "context").(*ctxModel)
		if c.err == nil {
			return iface{}
		}
		return c.err
	})
	E("(*context.cancelCtx).Deadline", func(fr *frame, args []value) value {
		c := unbox(args[0], "context").(*ctxModel)
		if c.deadline == nil {
			return tuple{mkTime(int64(0)), false}
		}
		return tuple{c.deadline, true}
	})
	E("(*context.cancelCtx).Value", func(fr *frame, args []value) value { return iface{} })

	// ---- sync
	E("(*sync.Mutex).Lock", func(fr *frame, args []value) value {
		mutexLock(fr, recvPtr(args[0], "Mutex.Lock"), mutexName(fr))
		return nil
	})
	E("(*sync.Mutex).Unlock", func(fr *frame, args []value) value {
		mutexUnlock(fr, recvPtr(args[0], "Mutex.Unlock"), mutexName(fr))
		return nil
	})
	E("(*sync.Mutex).TryLock", func(fr *frame, args []value) value {
		p := fr.i.path
		mp := recvPtr(args[0], "Mutex.TryLock")
		m := p.env.mutex(mp)
		if m.locked || m.readers > 0 {
			return false
		}
		m.locked, m.owner = true, p.sched.cur.id
		return true
	})
	E("(*sync.RWMutex).Lock", func(fr *frame, args []value) value {
		mutexLock(fr, recvPtr(args[0], "RWMutex.Lock"), mutexName(fr))
		return nil
	})
	E("(*sync.RWMutex).Unlock", func(fr *frame, args []value) value {
		mutexUnlock(fr, recvPtr(args[0], "RWMutex.Unlock"), mutexName(fr))
		return nil
	})
	E("(*sync.RWMutex).RLock", func(fr *frame, args []value) value {
		p := fr.i.path
		m := p.env.mutex(recvPtr(args[0], "RWMutex.RLock"))
		lockPoint(fr, mutexName(fr))
		p.sched.block(func() bool { return !m.locked }, "rwmutex (read) "+mutexName(fr))
		m.readers++
		return nil
	})
	E("(*sync.RWMutex).RUnlock", func(fr *frame, args []value) value {
		m := fr.i.path.env.mutex(recvPtr(args[0], "RWMutex.RUnlock"))
		if m.readers <= 0 {
			panic(targetPanic{iface{types.Typ[types.String], "sync: RUnlock of unlocked RWMutex"}})
		}
		m.readers--
		return nil
	})
	wg := func(fr *frame, v value) *wgState {
		e := fr.i.path.env
		p := recvPtr(v, "WaitGroup")
		w, ok := e.wgs[p]
		if !ok {
			w = &wgState{}
			e.wgs[p] = w
		}
		return w
	}
	E("(*sync.WaitGroup).Add", func(fr *frame, args []value) value {
		w := wg(fr, args[0])
		w.n += fr.i.path.concInt(args[1], "WaitGroup.Add")
		if w.n < 0 {
			panic(targetPanic{iface{types.Typ[types.String], "sync: negative WaitGroup counter"}})
		}
		return nil
	})
	E("(*sync.WaitGroup).Done", func(fr *frame, args []value) value {
		w := wg(fr, args[0])
		w.n--
		if w.n < 0 {
			panic(targetPanic{iface{types.Typ[types.String], "sync: negative WaitGroup counter"}})
		}
		return nil
	})
	E("(*sync.WaitGroup).Wait", func(fr *frame, args []value) value {
		w := wg(fr, args[0])
		fr.i.path.sched.block(func() bool { return w.n == 0 }, "WaitGroup "+mutexName(fr))
		return nil
	})
	E("(*sync.Once).Do", func(fr *frame, args []value) value {
		e := fr.i.path.env
		p := recvPtr(args[0], "Once")
		if !e.onces[p] {
			e.onces[p] = true
			call(fr.i, fr, token.NoPos, args[1], nil)
		}
		return nil
	})
	sm := func(fr *frame, v value) *omap { return fr.i.path.env.syncMap(recvPtr(v, "sync.Map")) }
	E("(*sync.Map).Load", func(fr *frame, args []value) value {
		v, ok := sm(fr, args[0]).lookup(fr.i.path, args[1])
		if !ok {
			return tuple{iface{}, false}
		}
		return tuple{v, true}
	})
	E("(*sync.Map).Store", func(fr *frame, args []value) value {
		sm(fr, args[0]).insert(fr.i.path, args[1], args[2])
		return nil
	})
	E("(*sync.Map).LoadOrStore", func(fr *frame, args []value) value {
		m := sm(fr, args[0])
		if v, ok := m.lookup(fr.i.path, args[1]); ok {
			return tuple{v, true}
		}
		m.insert(fr.i.path, args[1], args[2])
		return tuple{args[2], false}
	})
	E("(*sync.Map).LoadAndDelete", func(fr *frame, args []value) value {
		m := sm(fr, args[0])
		if v, ok := m.lookup(fr.i.path, args[1]); ok {
			m.delete(fr.i.path, args[1])
			return tuple{v, true}
		}
		return tuple{iface{}, false}
	})
	E("(*sync.Map).Delete", func(fr *frame, args []value) value {
		sm(fr, args[0]).delete(fr.i.path, args[1])
		return nil
	})
	E("(*sync.Map).Range", func(fr *frame, args []value) value {
		m := sm(fr, args[0])
		it := m.iter()
		for {
			t := it.next()
			if !t[0].(bool) {
				break
			}
			r := call(fr.i, fr, token.NoPos, args[1], []value{t[1], t[2]})
			if !fr.i.path.concBool(r) {
				break
			}
		}
		return nil
	})

	// ---- sync/atomic (single running thread: plain read-modify-write)
	for _, k := range []struct {
		n string
		t types.BasicKind
	}{{"Int32", types.Int32}, {"Int64", types.Int64}, {"Uint32", types.Uint32}, {"Uint64", types.Uint64}} {
		k := k
		E("sync/atomic.Add"+k.n, func(fr *frame, args []value) value {
			p := recvPtr(args[0], "atomic.Add")
			*p = binop(fr, token.ADD, types.Typ[k.t], *p, args[1])
			return *p
		})
		E("sync/atomic.Load"+k.n, func(fr *frame, args []value) value { return *recvPtr(args[0], "atomic.Load") })
		E("sync/atomic.Store"+k.n, func(fr *frame, args []value) value {
			*recvPtr(args[0], "atomic.Store") = args[1]
			return nil
		})
		E("sync/atomic.CompareAndSwap"+k.n, func(fr *frame, args []value) value {
			p := recvPtr(args[0], "atomic.CAS")
			if fr.i.path.concBool(binop(fr, token.EQL, types.Typ[k.t], *p, args[1])) {
				*p = args[2]
				return true
			}
			return false
		})
		// typed atomics: struct{_ noCopy; [_ align64;] v T}
		typed := "(*sync/atomic." + k.n + ")."
		fld := func(v value) *value {
			s := (*recvPtr(v, "atomic")).(structure)
			return &s[len(s)-1]
		}
		E(typed+"Add", func(fr *frame, args []value) value {
			p := fld(args[0])
			*p = binop(fr, token.ADD, types.Typ[k.t], *p, args[1])
			return *p
		})
		E(typed+"Load", func(fr *frame, args []value) value { return *fld(args[0]) })
		E(typed+"Store", func(fr *frame, args []value) value { *fld(args[0]) = args[1]; return nil })
		E(typed+"CompareAndSwap", func(fr *frame, args []value) value {
			p := fld(args[0])
			if fr.i.path.concBool(binop(fr, token.EQL, types.Typ[k.t], *p, args[1])) {
				*p = args[2]
				return true
			}
			return false
		})
	}
	E("(*sync/atomic.Bool).Load", func(fr *frame, args []value) value {
		s := (*recvPtr(args[0], "atomic.Bool")).(structure)
		return asInt64(s[len(s)-1]) != 0
	})
	E("(*sync/atomic.Bool).Store", func(fr *frame, args []value) value {
		s := (*recvPtr(args[0], "atomic.Bool")).(structure)
		if fr.i.path.concBool(args[1]) {
			s[len(s)-1] = uint32(1)
		} else {
			s[len(s)-1] = uint32(0)
		}
		return nil
	})

	// ---- os / files
	statRes := func(fr *frame, path string) value {
		e := fr.i.path.env
		if !e.fsExists(path) {
			return tuple{iface{}, fsNotExist(path, "stat")}
		}
		fi := &fileInfoModel{path: path, dir: e.dirs[strings.TrimRight(path, "/")]}
		if f, ok := e.files[path]; ok {
			fi.size = fileLen(fr, f)
		}
		return tuple{iface{types.NewPointer(lookupNamed(fr.i.prog, "os", "fileStat")), box(fi)}, iface{}}
	}
	E("os.Stat", func(fr *frame, args []value) value { return statRes(fr, concStr(args[0], "os.Stat")) })
	E("os.Lstat", func(fr *frame, args []value) value { return statRes(fr, concStr(args[0], "os.Lstat")) })
	E("(*os.fileStat).IsDir", func(fr *frame, args []value) value {
		return unbox(args[0], "FileInfo").(*fileInfoModel).dir
	})
	E("(*os.fileStat).Size", func(fr *frame, args []value) value {
		return int64(unbox(args[0], "FileInfo").(*fileInfoModel).size)
	})
	E("(*os.fileStat).Name", func(fr *frame, args []value) value {
		return shortFile(unbox(args[0], "FileInfo").(*fileInfoModel).path)
	})
	E("os.IsNotExist", func(fr *frame, args []value) value { return isNotExistErr(args[0]) })
	E("os.IsExist", func(fr *frame, args []value) value { return false })
	writeFile := func(fr *frame, args []value) value {
		p := fr.i.path
		path := concStr(args[0], "WriteFile")
		dir := path
		if k := strings.LastIndex(path, "/"); k > 0 {
			dir = path[:k]
			if !p.env.dirs[dir] {
				return fsNotExist(path, "open")
			}
		}
		data := cloneBytes(args[1])
		p.env.files[path] = data
		p.env.effects = append(p.env.effects, effect{kind: "fs", path: path, data: data})
		return iface{}
	}
	readFile := func(fr *frame, args []value) value {
		p := fr.i.path
		path := concStr(args[0], "ReadFile")
		f, ok := p.env.files[path]
		if !ok {
			return tuple{[]value(nil), fsNotExist(path, "open")}
		}
		if pf, isPayload := f.(*payloadFile); isPayload {
			// a file holding modelled backup payloads: its concrete parts as they are, every
			// payload as an opaque run of bytes of its length (enough for the program under test
			// or a harness to see that the file is not what it was)
			var out []value
			for _, part := range pf.parts {
				switch x := part.(type) {
				case []value:
					out = append(out, x...)
				case *backupPayload:
					for k := 0; k < 16+8*len(x.ents); k++ {
						out = append(out, uint8(0xBA))
					}
				}
			}
			return tuple{out, iface{}}
		}
		return tuple{cloneBytes(f), iface{}}
	}
	E("os.WriteFile", writeFile)
	E("io/ioutil.WriteFile", writeFile)
	E("os.ReadFile", readFile)
	E("io/ioutil.ReadFile", readFile)
	mkdir := func(fr *frame, args []value) value {
		p := fr.i.path
		path := concStr(args[0], "MkdirAll")
		if !p.env.dirs[strings.TrimRight(path, "/")] {
			p.env.fsMkdir(path)
			p.env.effects = append(p.env.effects, effect{kind: "fs", path: path, data: dirMarker{}})
		}
		return iface{}
	}
	E("os.MkdirAll", mkdir)
	E("os.Mkdir", mkdir)
	E("os.RemoveAll", func(fr *frame, args []value) value {
		p := fr.i.path
		path := strings.TrimRight(concStr(args[0], "RemoveAll"), "/")
		for f := range p.env.files {
			if f == path || strings.HasPrefix(f, path+"/") {
				delete(p.env.files, f)
			}
		}
		for d := range p.env.dirs {
			if d == path || strings.HasPrefix(d, path+"/") {
				delete(p.env.dirs, d)
			}
		}
		if d, ok := p.env.disks[path]; ok {
			d.ents, d.tombs = nil, nil
		}
		p.env.effects = append(p.env.effects, effect{kind: "fs", path: path, remove: true})
		return iface{}
	})
	// A Badger directory shows up in the file model as the files Badger keeps there (names only);
	// removing its MANIFEST, a table or a value log file loses the database's content.
	E("path/filepath.Glob", func(fr *frame, args []value) value {
		p := fr.i.path
		pattern := concStr(args[0], "filepath.Glob")
		dir := filepath.Dir(pattern)
		var names []string
		for f := range p.env.files {
			if filepath.Dir(f) == dir {
				names = append(names, f)
			}
		}
		if d, ok := p.env.disks[dir]; ok && (d.open || len(d.ents) > 0 || d.version > 0) {
			for _, n := range kvPseudoFiles(d) {
				names = append(names, dir+"/"+n)
			}
		}
		sort.Strings(names)
		out := []value{}
		for _, n := range names {
			if ok, err := filepath.Match(pattern, n); err == nil && ok {
				out = append(out, n)
			}
		}
		return tuple{out, iface{}}
	})
	E("os.Remove", func(fr *frame, args []value) value {
		p := fr.i.path
		path := concStr(args[0], "Remove")
		if d, ok := p.env.disks[filepath.Dir(path)]; ok {
			for _, n := range kvPseudoFiles(d) {
				if n == filepath.Base(path) {
					if n != "LOCK" && n != "KEYREGISTRY" && n != "DISCARD" {
						d.ents, d.tombs = nil, nil // the database's content is gone
					}
					p.env.effects = append(p.env.effects, effect{kind: "fs", path: path, remove: true})
					return iface{}
				}
			}
		}
		if _, ok := p.env.files[path]; !ok {
			return fsNotExist(path, "remove")
		}
		delete(p.env.files, path)
		p.env.effects = append(p.env.effects, effect{kind: "fs", path: path, remove: true})
		return iface{}
	})
	fileT := func(fr *frame) types.Type { return types.NewPointer(lookupNamed(fr.i.prog, "os", "File")) }
	_ = fileT
	E("os.Open", func(fr *frame, args []value) value {
		p := fr.i.path
		path := concStr(args[0], "os.Open")
		if !p.env.fsExists(path) {
			return tuple{(*value)(nil), fsNotExist(path, "open")}
		}
		return tuple{box(&fileModel{path: path, readonly: true}), iface{}}
	})
	E("os.Create", func(fr *frame, args []value) value {
		p := fr.i.path
		path := concStr(args[0], "os.Create")
		if k := strings.LastIndex(path, "/"); k > 0 && !p.env.dirs[path[:k]] {
			return tuple{(*value)(nil), fsNotExist(path, "open")}
		}
		p.env.files[path] = []value{}
		p.env.effects = append(p.env.effects, effect{kind: "fs", path: path, data: []value{}})
		return tuple{box(&fileModel{path: path}), iface{}}
	})
	E("(*os.File).Write", func(fr *frame, args []value) value {
		p := fr.i.path
		if pv, ok := args[0].(*value); ok && pv == nil {
			return tuple{0, iface{errorType, "invalid argument"}}
		}
		f := unbox(args[0], "*os.File").(*fileModel)
		if f.closed {
			return tuple{0, iface{errorType, "write " + f.path + ": file already closed"}}
		}
		if f.readonly {
			return tuple{0, iface{errorType, "write " + f.path + ": bad file descriptor"}}
		}
		// injected fault (h.FailWrites): the volume holding this file is full
		if sfx := p.env.failWriteSuffix; sfx != "" && strings.HasSuffix(f.path, sfx) {
			return tuple{0, iface{errorType, "write " + f.path + ": no space left on device"}}
		}
		var n int
		var data value
		if pv, ok := args[1].(*value); ok {
			// modelled payload (backup stream)
			data = appendPayload(p.env.files[f.path], *pv)
			n = 1
		} else {
			cur, _ := p.env.files[f.path].([]value)
			nb := args[1].([]value)
			data = append(append([]value{}, cur...), nb...)
			n = len(nb)
		}
		p.env.files[f.path] = data
		p.env.effects = append(p.env.effects, effect{kind: "fs", path: f.path, data: data})
		return tuple{n, iface{}}
	})
	E("os.OpenFile", func(fr *frame, args []value) value {
		p := fr.i.path
		path := concStr(args[0], "os.OpenFile")
		flag := int(p.concInt(args[1], "open flags"))
		const oCreate, oTrunc, oExcl = 0x40, 0x200, 0x80
		_, exists := p.env.files[path]
		if !exists {
			if flag&oCreate == 0 {
				return tuple{(*value)(nil), fsNotExist(path, "open")}
			}
			if k := strings.LastIndex(path, "/"); k > 0 && !p.env.dirs[path[:k]] {
				return tuple{(*value)(nil), fsNotExist(path, "open")}
			}
			p.env.files[path] = []value{}
			p.env.effects = append(p.env.effects, effect{kind: "fs", path: path, data: []value{}})
		} else if flag&oExcl != 0 && flag&oCreate != 0 {
			return tuple{(*value)(nil), iface{errorType, "open " + path + ": file exists"}}
		} else if flag&oTrunc != 0 {
			p.env.files[path] = []value{}
			p.env.effects = append(p.env.effects, effect{kind: "fs", path: path, data: []value{}})
		}
		// (writes always append in the model; seeking writers are not modelled)
		return tuple{box(&fileModel{path: path, readonly: flag&3 == 0}), iface{}}
	})
	E("(*os.File).Read", func(fr *frame, args []value) value {
		p := fr.i.path
		f := unbox(args[0], "*os.File").(*fileModel)
		buf := args[1].([]value)
		content, ok := p.env.files[f.path].([]value)
		if !ok {
			if _, isPayload := p.env.files[f.path].(*payloadFile); isPayload {
				panic(unsupported{"byte-level read of a modelled backup stream"})
			}
			return tuple{0, iface{errorType, "read " + f.path + ": is a directory"}}
		}
		if f.pos >= len(content) {
			return tuple{0, iface{errorType, "EOF"}}
		}
		n := copy(buf, content[f.pos:])
		f.pos += n
		return tuple{n, iface{}}
	})
	E("io.Copy", func(fr *frame, args []value) value {
		p := fr.i.path
		dst, ok1 := args[0].(iface)
		src, ok2 := args[1].(iface)
		if !ok1 || !ok2 {
			panic(unsupported{"io.Copy on non-interface values"})
		}
		dp, _ := dst.v.(*value)
		sp, _ := src.v.(*value)
		if dp == nil || sp == nil {
			panic("runtime error: invalid memory address or nil pointer dereference (io.Copy)")
		}
		df, okd := (*dp).(*fileModel)
		sf, oks := (*sp).(*fileModel)
		if !okd || !oks {
			panic(unsupported{"io.Copy between non-file streams"})
		}
		if df.readonly {
			return tuple{int64(0), iface{errorType, "write " + df.path + ": bad file descriptor"}}
		}
		content := cloneBytes(p.env.files[sf.path])
		var cur []value
		if c, ok := p.env.files[df.path].([]value); ok {
			cur = c
		}
		if cb, ok := content.([]value); ok {
			data := append(append([]value{}, cur...), cb[sf.pos:]...)
			p.env.files[df.path] = data
			p.env.effects = append(p.env.effects, effect{kind: "fs", path: df.path, data: data})
			return tuple{int64(len(cb) - sf.pos), iface{}}
		}
		panic(unsupported{"io.Copy of a modelled stream"})
	})
	E("(*os.File).Close", func(fr *frame, args []value) value {
		if pv, ok := args[0].(*value); ok && pv == nil {
			return iface{errorType, "invalid argument"}
		}
		f := unbox(args[0], "*os.File").(*fileModel)
		if f.closed {
			return iface{errorType, "close " + f.path + ": file already closed"}
		}
		f.closed = true
		return iface{}
	})
	E("(*os.File).Sync", func(fr *frame, args []value) value { return iface{} })
	E("(*os.File).Name", func(fr *frame, args []value) value {
		return unbox(args[0], "*os.File").(*fileModel).path
	})
	E("os.LookupEnv", func(fr *frame, args []value) value {
		v, ok := fr.i.path.env.envVars[concStr(args[0], "LookupEnv")]
		return tuple{v, ok}
	})
	E("os.Getenv", func(fr *frame, args []value) value {
		return fr.i.path.env.envVars[concStr(args[0], "Getenv")]
	})
	E("os.Getwd", func(fr *frame, args []value) value { return tuple{"/hub", iface{}} })
	// bufio.Writer: writes are kept until Flush (or until the buffer size is exceeded) and then
	// handed to the underlying writer in order; the first error is kept, as bufio does
	newBufW := func(fr *frame, args []value) value {
		size := 4096
		if len(args) > 1 {
			size = int(fr.i.path.concInt(args[1], "bufio size"))
		}
		return box(&bufWModel{w: args[0].(iface), size: size})
	}
	E("bufio.NewWriter", newBufW)
	E("bufio.NewWriterSize", newBufW)
	bw := func(v value) *bufWModel { return unbox(v, "*bufio.Writer").(*bufWModel) }
	flushBufW := func(fr *frame, b *bufWModel) value {
		if b.err != nil {
			return b.err
		}
		for _, part := range b.parts {
			res := callIfaceMethod(fr, b.w, "Write", part).(tuple)
			if e, ok := res[1].(iface); ok && e.t != nil {
				b.err = e
				b.parts, b.n = nil, 0
				return e
			}
		}
		b.parts, b.n = nil, 0
		return iface{}
	}
	E("(*bufio.Writer).Write", func(fr *frame, args []value) value {
		b := bw(args[0])
		if b.err != nil {
			return tuple{0, b.err}
		}
		n := 1
		if bs, ok := args[1].([]value); ok {
			n = len(bs)
			args[1] = append([]value{}, bs...)
		}
		b.parts = append(b.parts, args[1])
		b.n += n
		if b.n > b.size {
			if e := flushBufW(fr, b); e.(iface).t != nil {
				return tuple{0, e}
			}
		}
		return tuple{n, iface{}}
	})
	E("(*bufio.Writer).Flush", func(fr *frame, args []value) value { return flushBufW(fr, bw(args[0])) })
	// sync.Pool: no pooling — Get builds a fresh object with New, Put drops it.
	E("(*sync.Pool).Get", func(fr *frame, args []value) value {
		pp := recvPtr(args[0], "sync.Pool")
		pt := lookupNamed(fr.i.prog, "sync", "Pool")
		newFn := (*pp).(structure)[fieldIndex(pt, "New")]
		if newFn == nil {
			return iface{}
		}
		if c, ok := newFn.(*closure); ok && c == nil {
			return iface{}
		}
		return call(fr.i, fr, token.NoPos, newFn, nil)
	})
	E("(*sync.Pool).Put", func(fr *frame, args []value) value { return nil })
	E("path/filepath.Join", func(fr *frame, args []value) value {
		var parts []string
		for _, a := range args[0].([]value) {
			parts = append(parts, concStr(a, "filepath.Join"))
		}
		return filepathJoin(parts)
	})
}

// kvPseudoFiles: the file names a Badger directory holds, as far as code that
// manages the directory by file name can tell.
func kvPseudoFiles(d *kvDisk) []string {
	out := []string{"000001.vlog", "DISCARD", "KEYREGISTRY", "MANIFEST"}
	if len(d.ents) > 0 {
		out = append(out, "000001.sst", "00001.mem")
	}
	if d.open {
		out = append(out, "LOCK")
	}
	return out
}

type bufWModel struct {
	w     iface
	size  int
	parts []value
	n     int
	err   value
}

type fileInfoModel struct {
	path string
	dir  bool
	size int
}

func fileLen(fr *frame, f value) int {
	switch x := f.(type) {
	case *payloadFile:
		n := 0
		for _, part := range x.parts {
			if bp, ok := part.(*backupPayload); ok {
				n += 16 + 8*len(bp.ents) + 4*len(bp.tombs)
			} else if bs, ok := part.([]value); ok {
				n += len(bs)
			}
		}
		return n
	case []value:
		return len(x)
	case *blob:
		return int(fr.i.path.concInt(x.length(fr), "file length"))
	}
	return 0
}

// appendPayload appends a modelled backup payload to a file's content list.
type payloadFile struct{ parts []interface{} }

func appendPayload(cur value, pl interface{}) value {
	pf, _ := cur.(*payloadFile)
	n := &payloadFile{}
	if pf != nil {
		n.parts = append(n.parts, pf.parts...)
	} else if bs, isBytes := cur.([]value); isBytes && len(bs) > 0 {
		// appending to a file with ordinary content keeps that content
		n.parts = append(n.parts, append([]value{}, bs...))
	}
	n.parts = append(n.parts, pl)
	return n
}

func sortedDisks(e *envState) []string {
	out := append([]string{}, e.diskOrder...)
	sort.Strings(out)
	return out
}
