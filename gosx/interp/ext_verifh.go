// gosx: the verifh harness API (intercepted by name).

package interp

import (
	"fmt"
	"go/token"
	"go/types"
	"strings"
)

const verifhPkg = "github.com/mimiro-io/datahub/internal/verifh"

func (e *envState) b64Token(enc string, bs []value) value {
	if e.b64 == nil {
		e.b64 = map[string]b64Token{}
	}
	s := fmt.Sprintf("b64~%s~%d", enc, len(e.b64))
	e.b64[s] = b64Token{enc: enc, bytes: append([]value{}, bs...)}
	return s
}

func (e *envState) b64Lookup(s string) (b64Token, bool) {
	t, ok := e.b64[s]
	return t, ok
}

func init() {
	H := func(name string, f externalFn) { externals["(*"+verifhPkg+".H)."+name] = f }
	nameOf := func(v value) string { return concStr(v, "verifh draw name") }

	H("Symbolic", func(fr *frame, args []value) value { return true })
	boolList := func(fr *frame, v value) []*Term {
		b := fr.i.path.bank()
		var ts []*Term
		for _, x := range v.([]value) {
			ts = append(ts, termOf(b, x))
		}
		return ts
	}
	H("And", func(fr *frame, args []value) value {
		return mkval(fr.i.path.bank().And(boolList(fr, args[1])...), types.Bool)
	})
	H("Or", func(fr *frame, args []value) value {
		return mkval(fr.i.path.bank().Or(boolList(fr, args[1])...), types.Bool)
	})
	H("Not", func(fr *frame, args []value) value {
		b := fr.i.path.bank()
		return mkval(b.Not(termOf(b, args[1])), types.Bool)
	})
	H("Implies", func(fr *frame, args []value) value {
		b := fr.i.path.bank()
		return mkval(b.Implies(termOf(b, args[1]), termOf(b, args[2])), types.Bool)
	})
	H("Iff", func(fr *frame, args []value) value {
		b := fr.i.path.bank()
		return mkval(b.Eq(termOf(b, args[1]), termOf(b, args[2])), types.Bool)
	})
	H("StrEq", func(fr *frame, args []value) value {
		return mkval(bytesEqTerm(fr.i.path.bank(), strBytes(args[1]), strBytes(args[2])), types.Bool)
	})
	H("HasPrefix", func(fr *frame, args []value) value {
		s, p := strBytes(args[1]), strBytes(args[2])
		if len(p) > len(s) {
			return false
		}
		return mkval(bytesEqTerm(fr.i.path.bank(), s[:len(p)], p), types.Bool)
	})
	H("HasSuffix", func(fr *frame, args []value) value {
		s, p := strBytes(args[1]), strBytes(args[2])
		if len(p) > len(s) {
			return false
		}
		return mkval(bytesEqTerm(fr.i.path.bank(), s[len(s)-len(p):], p), types.Bool)
	})
	H("Param", func(fr *frame, args []value) value {
		if v, ok := fr.i.path.w.eng.cfg.Params[nameOf(args[1])]; ok {
			return v
		}
		return int(fr.i.path.concInt(args[2], "param default"))
	})
	H("Known", func(fr *frame, args []value) value {
		p := fr.i.path
		if p.concBool(args[2]) {
			p.known = append(p.known, nameOf(args[1]))
			return true
		}
		return false
	})
	drawInt := func(fr *frame, name string, lo, hi int64, k types.BasicKind) value {
		p := fr.i.path
		b := p.bank()
		if lo > hi {
			panic(pathAbort{"empty range"})
		}
		if lo == hi {
			// still recorded so that the replay finds the draw
			v := p.fresh(name, bvSort(64), "int")
			p.assume(b.Eq(v, b.BV(uint64(lo), 64)))
			return mkval(b.BV(uint64(lo), 64), k)
		}
		v := p.fresh(name, bvSort(64), "int")
		p.assume(b.And(b.SLe(b.BV(uint64(lo), 64), v), b.SLe(v, b.BV(uint64(hi), 64))))
		return mkval(v, k)
	}
	H("Int", func(fr *frame, args []value) value {
		p := fr.i.path
		return drawInt(fr, nameOf(args[1]), p.concInt(args[2], "lo"), p.concInt(args[3], "hi"), types.Int)
	})
	H("I64", func(fr *frame, args []value) value {
		p := fr.i.path
		return drawInt(fr, nameOf(args[1]), p.concInt(args[2], "lo"), p.concInt(args[3], "hi"), types.Int64)
	})
	H("U64", func(fr *frame, args []value) value {
		return mkval(fr.i.path.fresh(nameOf(args[1]), bvSort(64), "u64"), types.Uint64)
	})
	narrow := func(w int, k types.BasicKind) externalFn {
		return func(fr *frame, args []value) value {
			p := fr.i.path
			b := p.bank()
			v := p.fresh(nameOf(args[1]), bvSort(64), "u64")
			p.assume(b.ULe(v, b.BV(mask(w), 64)))
			return mkval(b.Extract(w-1, 0, v), k)
		}
	}
	H("U32", narrow(32, types.Uint32))
	H("U16", narrow(16, types.Uint16))
	H("Byte", narrow(8, types.Uint8))
	H("Bool", func(fr *frame, args []value) value {
		p := fr.i.path
		b := p.bank()
		v := p.fresh(nameOf(args[1]), bvSort(64), "bool")
		p.assume(b.ULe(v, b.BV(1, 64)))
		return mkval(b.Eq(v, b.BV(1, 64)), types.Bool)
	})
	H("Choice", func(fr *frame, args []value) value {
		p := fr.i.path
		b := p.bank()
		n := int(p.concInt(args[2], "choice n"))
		if n <= 0 {
			panic(pathAbort{"empty choice"})
		}
		v := p.fresh(nameOf(args[1]), bvSort(64), "choice")
		_ = b
		return p.chooseFree(v, n)
	})
	str := func(fr *frame, name string, n int, alphabet string) []value {
		p := fr.i.path
		b := p.bank()
		out := make([]value, n)
		for k := 0; k < n; k++ {
			v := p.fresh(fmt.Sprintf("%s[%d]", name, k), bvSort(64), "byte")
			p.assume(b.ULe(v, b.BV(255, 64)))
			c := b.Extract(7, 0, v)
			if alphabet != "" {
				var alts []*Term
				for j := 0; j < len(alphabet); j++ {
					alts = append(alts, b.Eq(c, b.BV(uint64(alphabet[j]), 8)))
				}
				p.assume(b.Or(alts...))
			}
			out[k] = mkval(c, types.Uint8)
		}
		return out
	}
	H("Str", func(fr *frame, args []value) value {
		n := int(fr.i.path.concInt(args[2], "Str length"))
		return mkstr(str(fr, nameOf(args[1]), n, ""))
	})
	H("StrOver", func(fr *frame, args []value) value {
		n := int(fr.i.path.concInt(args[2], "Str length"))
		return mkstr(str(fr, nameOf(args[1]), n, concStr(args[3], "alphabet")))
	})
	H("Bytes", func(fr *frame, args []value) value {
		n := int(fr.i.path.concInt(args[2], "Bytes length"))
		return str(fr, nameOf(args[1]), n, "")
	})
	H("Assume", func(fr *frame, args []value) value {
		fr.i.path.assume(termOf(fr.i.path.bank(), args[1]))
		return nil
	})
	H("Assert", func(fr *frame, args []value) value {
		p := fr.i.path
		msg, _ := args[2].(string)
		p.assert(termOf(p.bank(), args[1]), "assert", msg, posString(fr.caller))
		p.known = nil // a known-finding tag covers exactly the next assertion
		return nil
	})
	H("Fail", func(fr *frame, args []value) value {
		p := fr.i.path
		msg, _ := args[1].(string)
		p.assert(p.bank().Bool(false), "assert", msg, posString(fr.caller))
		return nil
	})
	H("Observe", func(fr *frame, args []value) value {
		p := fr.i.path
		iv := args[2].(iface)
		p.observed = append(p.observed, obsEntry{nameOf(args[1]), iv.v})
		return nil
	})
	H("Note", func(fr *frame, args []value) value {
		if s, ok := args[1].(string); ok {
			fr.i.path.note("%s", s)
		}
		return nil
	})
	H("Conc", func(fr *frame, args []value) value {
		return int(fr.i.path.concInt(args[1], "Conc"))
	})
	H("TempDir", func(fr *frame, args []value) value {
		fr.i.path.env.fsMkdir("/gosx/tmp")
		return "/gosx/tmp"
	})
	H("Cleanup", func(fr *frame, args []value) value { return nil })
	H("KeyLess", func(fr *frame, args []value) value {
		return mkval(bytesLessTerm(fr.i.path.bank(), args[1].([]value), args[2].([]value), false), types.Bool)
	})
	H("ClockSymbolic", func(fr *frame, args []value) value {
		fr.i.path.env.clockSym = true
		return nil
	})
	H("FireTimer", func(fr *frame, args []value) value {
		p := fr.i.path
		b := p.bank()
		v := p.fresh(nameOf(args[1]), bvSort(64), "bool")
		p.assume(b.ULe(v, b.BV(1, 64)))
		ts := p.env.pendingTimers()
		if len(ts) == 0 {
			p.addPC(b.Eq(v, b.BV(0, 64)))
			return false
		}
		if p.decide(b.Eq(v, b.BV(1, 64))) {
			p.env.fireTimer(p, fr, ts[0])
			p.sched.runOthers()
			return true
		}
		return false
	})
	H("Preload", func(fr *frame, args []value) value {
		p := fr.i.path
		d := unbox(args[1], "*badger.DB").(*kvDB)
		w := []kvWrite{mkWrite(keyBytes(args[2]), cloneBytes(args[3]), false)}
		d.disk.apply(p, w)
		p.env.effects = append(p.env.effects, effect{kind: "kv", disk: d.disk, writes: w})
		return nil
	})
	H("RestoreBackup", func(fr *frame, args []value) value {
		p := fr.i.path
		file := concStr(args[1], "backup file")
		dir := concStr(args[2], "restore dir")
		d := p.env.disk(dir)
		d.reset()
		p.env.fsMkdir(dir)
		pf, _ := p.env.files[file].(*payloadFile)
		if pf == nil {
			return nil
		}
		for _, part := range pf.parts {
			bp, ok := part.(*backupPayload)
			if !ok {
				continue
			}
			// (a key deleted and written again since the cursor is live: markers first)
			var ws []kvWrite
			for _, e := range bp.tombs {
				ws = append(ws, mkWrite(e.key, nil, true))
			}
			for _, e := range bp.ents {
				ws = append(ws, mkWrite(e.key, e.val, false))
			}
			d.apply(p, ws)
		}
		return nil
	})
	H("Go", func(fr *frame, args []value) value {
		s := fr.i.path.sched
		s.harnessGos++
		fr.i.path.note("harness goroutine %d is thread %d", s.harnessGos, len(s.threads))
		s.spawn(fr, token.NoPos, args[1], nil)
		return nil
	})
	H("Wait", func(fr *frame, args []value) value {
		p := fr.i.path
		s := p.sched
		me := s.cur
		s.block(func() bool {
			for _, t := range s.threads {
				if t != me && t.state != 2 {
					return false
				}
			}
			return true
		}, "Wait for harness goroutines")
		return true
	})
	H("SymbolicSched", func(fr *frame, args []value) value {
		p := fr.i.path
		p.sched.symbolic = true
		p.sched.preempt = int(p.concInt(args[1], "preemptions"))
		return nil
	})
	H("Pause", func(fr *frame, args []value) value { return nil })
	H("MarkGoroutines", func(fr *frame, args []value) value { return nil })
	H("SymbolicTxns", func(fr *frame, args []value) value {
		fr.i.path.sched.txnPoints = true
		return nil
	})
	H("SymbolicLocks", func(fr *frame, args []value) value {
		fr.i.path.sched.lockPoints = true
		return nil
	})
	H("SymbolicMapOrder", func(fr *frame, args []value) value {
		p := fr.i.path
		p.sched.mapOrder = int(p.concInt(args[1], "map order budget"))
		return nil
	})
	H("Yield", func(fr *frame, args []value) value {
		fr.i.path.sched.yield("Yield@" + mutexName(fr))
		return nil
	})
}

// renderObserved renders the Observe values under a model, in the textual
// form the native verifh produces (fmt %v of the Go value).
func renderObserved(p *pathState, m map[*Term]uint64, evalTerm func(*Term) (uint64, bool)) []string {
	var out []string
	for _, o := range p.observed {
		s, ok := renderValue(o.v, evalTerm)
		if !ok {
			s = "?"
		}
		out = append(out, o.name+"="+s)
	}
	return out
}

func renderValue(v value, ev func(*Term) (uint64, bool)) (string, bool) {
	switch x := v.(type) {
	case sym:
		n, ok := ev(x.t)
		if !ok {
			return "", false
		}
		c := mkval(constTermFor(x, n), x.k)
		return fmt.Sprintf("%v", c), true
	case symstr:
		buf := make([]byte, len(x))
		for k, c := range x {
			switch cc := c.(type) {
			case uint8:
				buf[k] = cc
			case sym:
				n, ok := ev(cc.t)
				if !ok {
					return "", false
				}
				buf[k] = byte(n)
			}
		}
		return string(buf), true
	case []value:
		var parts []string
		for _, e := range x {
			s, ok := renderValue(e, ev)
			if !ok {
				return "", false
			}
			parts = append(parts, s)
		}
		return "[" + strings.Join(parts, " ") + "]", true
	case iface:
		if x.t == nil {
			return "<nil>", true
		}
		return renderValue(x.v, ev)
	case nil:
		return "<nil>", true
	case bool, int, int8, int16, int32, int64, uint, uint8, uint16, uint32, uint64, uintptr, float64, string:
		return fmt.Sprintf("%v", x), true
	}
	return "", false
}

func constTermFor(x sym, n uint64) *Term {
	switch x.t.sort.k {
	case sBool:
		return constBank.Bool(n != 0)
	case sFP:
		return constBank.FPConst(float64frombits(n))
	}
	return constBank.BV(n, x.t.sort.w)
}
