// gosx: externals for strings/bytes/strconv/fmt/errors/base64/math/reflect,
// logging stubs, modelled globals, and the external lookup policy.

package interp

import (
	"bytes"
	"encoding/base64"
	"fmt"
	"go/token"
	"go/types"
	"math"
	"path/filepath"
	"strconv"
	"sort"
	nethttp "net/http"
	"strings"
	"time"

	"golang.org/x/tools/go/ssa"
)

func parseDuration(s string) (time.Duration, error) { return time.ParseDuration(s) }
func filepathJoin(parts []string) string           { return filepath.Join(parts...) }

// packages whose functions are replaced by "return zero values" stubs
// (logging and metrics sinks); Panic*/Fatal* keep their control effect.
var stubPkgs = []string{
	"go.uber.org/zap",
	"go.uber.org/zap/zapcore",
	"go.uber.org/fx",
	"github.com/DataDog/datadog-go/v5/statsd",
	"github.com/mustafaturan/bus",
	"log",
	"github.com/labstack/gommon/log",
	"github.com/labstack/gommon/color",
	"github.com/lestrrat-go/jwx/v2/jwk",
}

// packages that are modelled: a function of these packages that has no
// external is outside the modelled world (unsupported), never interpreted.
var modelledPkgs = []string{
	"github.com/dgraph-io/badger/v4",
	"encoding/json",
	"time",
	"context",
	"sync",
	"sync/atomic",
	"os",
	"os/exec",
	"io/ioutil",
	"net/http",
	"net",
	"reflect",
	"runtime",
	"unsafe",
	"crypto/rsa",
	"crypto/rand",
	"crypto/x509",
	"github.com/golang-jwt/jwt/v4",
	"github.com/mimiro-io/goja",
	"github.com/lestrrat-go/jwx/v2/jwk",
	"github.com/bamzi/jobrunner",
	"github.com/robfig/cron/v3",
	"github.com/spf13/viper",
}

// functions of modelled packages that are simple enough to interpret from source
var interpretablePrefixes = []string{
	"context.Background", "context.TODO", "(context.emptyCtx).", "(context.backgroundCtx).", "(context.todoCtx).",
	"(time.Duration).", "(time.Month).", "(time.Weekday).",
	"(*sync.Map).CompareAndSwap",
	"(reflect.Kind).String",
	"(net/http.Header).", "net/http.CanonicalHeaderKey", "net/http.StatusText",
	"(encoding/json.Delim).String", "(encoding/json.Number).",
	"io.NopCloser", "(io.nopCloser).", "(io.nopCloserWriterTo).",
	"github.com/labstack/echo/v4.NewHTTPError", "(*github.com/labstack/echo/v4.HTTPError).",
	"(runtime.errorString).", "(*runtime.TypeAssertionError).",
	"(*net/http.Request).Context", "(*net/http.Request).WithContext", "(*net/http.Request).UserAgent", "(*net/http.Request).Referer",
	"(*github.com/golang-jwt/jwt/v4.SigningMethodRSA).Alg", "(*github.com/golang-jwt/jwt/v4.SigningMethodHMAC).Alg",
	"(*github.com/golang-jwt/jwt/v4.RegisteredClaims).Verify", "(github.com/golang-jwt/jwt/v4.RegisteredClaims).Verify",
	"github.com/golang-jwt/jwt/v4.verifyAud", "github.com/golang-jwt/jwt/v4.verifyIss",
}

func interpretable(name string) bool {
	for _, p := range interpretablePrefixes {
		if strings.HasPrefix(name, p) {
			return true
		}
	}
	return false
}

func pkgPathOf(fn *ssa.Function) string {
	if fn.Pkg != nil {
		return fn.Pkg.Pkg.Path()
	}
	if o := fn.Object(); o != nil && o.Pkg() != nil {
		return o.Pkg().Path()
	}
	// instantiated generics / wrappers
	if fn.Origin() != nil {
		return pkgPathOf(fn.Origin())
	}
	return ""
}

func inList(p string, l []string) bool {
	for _, x := range l {
		if p == x {
			return true
		}
	}
	return false
}

func zeroResults(fr *frame, args []value) value {
	res := fr.fn.Signature.Results()
	mk := func(k int) value {
		t := res.At(k).Type()
		// fluent loggers return their receiver
		if recv := fr.fn.Signature.Recv(); recv != nil && len(args) > 0 && types.Identical(recv.Type(), t) {
			return args[0]
		}
		return zero(t)
	}
	switch res.Len() {
	case 0:
		return nil
	case 1:
		return mk(0)
	}
	out := make(tuple, res.Len())
	for k := range out {
		out[k] = mk(k)
	}
	return out
}

func logStub(name string) externalFn {
	base := name
	if k := strings.LastIndex(base, "."); k >= 0 {
		base = base[k+1:]
	}
	switch {
	case strings.HasPrefix(base, "Panic") || strings.HasPrefix(base, "DPanic"):
		return func(fr *frame, args []value) value {
			panic(targetPanic{iface{types.Typ[types.String], "log panic: " + describeArgs(args)}})
		}
	case strings.HasPrefix(base, "Fatal"):
		return func(fr *frame, args []value) value {
			panic(targetPanic{iface{types.Typ[types.String], "log fatal (process exit): " + describeArgs(args)}})
		}
	}
	return zeroResults
}

func describeArgs(args []value) string {
	var parts []string
	for _, a := range args {
		switch x := a.(type) {
		case string:
			parts = append(parts, x)
		case []value:
			for _, e := range x {
				if iv, ok := e.(iface); ok {
					if s, ok := iv.v.(string); ok {
						parts = append(parts, s)
					}
				}
			}
		}
	}
	return strings.Join(parts, " ")
}

// findExternal decides how a function without a parent is executed.
func findExternal(i *interpreter, fn *ssa.Function) externalFn {
	w := i.path.w
	if e, ok := w.extCache[fn]; ok {
		return e
	}
	name := fn.String()
	var e externalFn
	if x, ok := externals[name]; ok {
		e = x
	} else if fn.Origin() != nil {
		if x, ok := externals[fn.Origin().String()]; ok {
			e = x
		}
	}
	if e == nil {
		pp := pkgPathOf(fn)
		switch {
		case inList(pp, stubPkgs):
			e = logStub(name)
		case inList(pp, modelledPkgs):
			// synthetic wrappers ($bound, $thunk) around modelled methods are interpreted
			if (fn.Synthetic == "" || fn.Blocks == nil) && !interpretable(name) {
				msg := "call into modelled package without a model: " + name
				e = func(fr *frame, args []value) value { panic(unsupported{msg}) }
			}
		}
	}
	w.extCache[fn] = e
	return e
}

// modelledGlobal supplies values for package-level variables of packages
// whose init functions are not executed.
func modelledGlobal(i *interpreter, g *ssa.Global) (*value, bool) {
	if g.Pkg == nil {
		return nil, false
	}
	pp := g.Pkg.Pkg.Path()
	full := pp + "." + g.Name()
	mk := func(v value) (*value, bool) { return &v, true }
	switch full {
	case badgerPkg + ".DefaultIteratorOptions":
		t := mustDeref(g.Type())
		o := zero(t).(structure)
		o[fieldIndex(t, "PrefetchValues")] = true
		o[fieldIndex(t, "PrefetchSize")] = 100
		return mk(o)
	case "io.EOF":
		return mk(iface{errorType, "EOF"})
	case "io.ErrUnexpectedEOF":
		return mk(iface{errorType, "unexpected EOF"})
	case "os.ErrNotExist", "io/fs.ErrNotExist":
		return mk(iface{errorType, "file does not exist"})
	case "context.Canceled":
		return mk(ctxErr("Canceled"))
	case "context.DeadlineExceeded":
		return mk(ctxErr("DeadlineExceeded"))
	case "encoding/base64.StdEncoding", "encoding/base64.URLEncoding", "encoding/base64.RawStdEncoding", "encoding/base64.RawURLEncoding":
		return mk(box(&b64Enc{name: g.Name()}))
	case "encoding/binary.BigEndian", "encoding/binary.LittleEndian":
		return nil, false // zero-size structs: default zero value is right
	}
	if pp == badgerPkg && strings.HasPrefix(g.Name(), "Err") {
		return mk(badgerErr(i, g.Name()))
	}
	if strings.HasPrefix(g.Name(), "init$guard") {
		return nil, false
	}
	return nil, false
}

type b64Enc struct{ name string }

func (e *b64Enc) enc() *base64.Encoding {
	switch e.name {
	case "URLEncoding":
		return base64.URLEncoding
	case "RawStdEncoding":
		return base64.RawStdEncoding
	case "RawURLEncoding":
		return base64.RawURLEncoding
	}
	return base64.StdEncoding
}

// symbolic base64: tokens over symbolic bytes are kept as an opaque wrapper
// string that decodes back to the same bytes (base64 is a bijection on byte
// strings; only its textual form is abstracted).
type b64Token struct {
	enc   string
	bytes []value
}

func concBytes(v value) ([]byte, bool) {
	var bs []value
	switch x := v.(type) {
	case []value:
		bs = x
	case string:
		return []byte(x), true
	case symstr:
		bs = x
	case *blob:
		// a JSON blob without symbolic leaves is its text
		var tb bytes.Buffer
		if x != nil && jsonText(&tb, x.root) {
			return tb.Bytes(), true
		}
		return nil, false
	default:
		return nil, false
	}
	out := make([]byte, len(bs))
	for k, c := range bs {
		cb, ok := c.(uint8)
		if !ok {
			return nil, false
		}
		out[k] = cb
	}
	return out, true
}

func bytesVal(b []byte) []value {
	out := make([]value, len(b))
	for k, c := range b {
		out[k] = c
	}
	return out
}

// toNative converts a concrete interpreter value for use with real fmt.
func toNative(v value) (interface{}, bool) {
	switch x := v.(type) {
	case nil:
		return nil, true
	case bool, int, int8, int16, int32, int64, uint, uint8, uint16, uint32, uint64, uintptr, float32, float64, string, complex64, complex128:
		return x, true
	case iface:
		if x.t == nil {
			return nil, true
		}
		if x.t == errorType {
			if s, ok := x.v.(string); ok {
				return fmt.Errorf("%s", s), true
			}
		}
		// named basic types keep their underlying representation
		return toNative(x.v)
	case []value:
		if b, ok := concBytes(x); ok && len(x) > 0 {
			if _, isByte := x[0].(uint8); isByte {
				return b, true
			}
		}
		out := make([]interface{}, len(x))
		for k, e := range x {
			n, ok := toNative(e)
			if !ok {
				return nil, false
			}
			out[k] = n
		}
		return out, true
	case *value:
		if x == nil {
			return nil, true
		}
		return fmt.Sprintf("&%p", x), true
	case structure:
		out := make([]interface{}, len(x))
		for k, e := range x {
			n, ok := toNative(e)
			if !ok {
				return "<opaque>", true
			}
			out[k] = n
		}
		return out, true
	case *omap:
		return "<map>", true
	}
	return nil, false
}

// sprintf implements fmt.Sprintf over interpreter values. Symbolic strings
// are spliced for %s/%v; other symbolic arguments make the result opaque.
func sprintf(fr *frame, format string, args []value) value {
	var out []value
	emit := func(s string) { out = append(out, strBytes(s)...) }
	ai := 0
	for k := 0; k < len(format); k++ {
		c := format[k]
		if c != '%' {
			out = append(out, c)
			continue
		}
		j := k + 1
		for j < len(format) && strings.IndexByte("+-# 0123456789.", format[j]) >= 0 {
			j++
		}
		if j >= len(format) {
			emit("%!(NOVERB)")
			break
		}
		verb := format[k : j+1]
		k = j
		if format[j] == '%' {
			out = append(out, byte('%'))
			continue
		}
		if ai >= len(args) {
			emit("%!" + string(format[j]) + "(MISSING)")
			continue
		}
		a := args[ai]
		ai++
		if iv, ok := a.(iface); ok {
			if iv.t == nil {
				emit(fmt.Sprintf(verb, nil))
				continue
			}
			// error / Stringer values: use Error()/String() when available
			if s, ok := errorText(fr, iv); ok {
				if format[j] == 'w' {
					verb = verb[:len(verb)-1] + "v"
				}
				out = append(out, strBytes(s)...)
				continue
			}
			a = iv.v
		}
		switch x := a.(type) {
		case symstr:
			if format[j] == 's' || format[j] == 'v' {
				out = append(out, []value(x)...)
			} else {
				emit("<opaque>")
			}
		case sym:
			fr.i.path.note("fmt: symbolic scalar formatted as <opaque>")
			emit("<opaque>")
		default:
			n, ok := toNative(a)
			if !ok {
				emit("<opaque>")
			} else {
				if format[j] == 'w' {
					verb = verb[:len(verb)-1] + "v"
				}
				emit(fmt.Sprintf(verb, n))
			}
		}
	}
	return mkstr(out)
}

// errorText returns the Error() (or String()) text of an interface value.
func errorText(fr *frame, iv iface) (value, bool) {
	if iv.t == errorType {
		return iv.v, true
	}
	for _, m := range []string{"Error", "String"} {
		ms := fr.i.prog.MethodSets.MethodSet(iv.t)
		for k := 0; k < ms.Len(); k++ {
			if ms.At(k).Obj().Name() == m {
				sig := ms.At(k).Obj().Type().(*types.Signature)
				if sig.Params().Len() != 0 || sig.Results().Len() != 1 {
					continue
				}
				f := lookupMethod(fr.i, iv.t, ms.At(k).Obj().(*types.Func))
				if f == nil {
					continue
				}
				if pkgPathOf(f) == "time" {
					return "<time>", true
				}
				r := call(fr.i, fr, token.NoPos, f, []value{iv.v})
				return r, true
			}
		}
	}
	return nil, false
}

type wrapErr struct {
	msg   value
	inner value // iface
}

func isNilIface(v value) bool {
	iv, ok := v.(iface)
	return !ok || iv.t == nil
}

func init() {
	E := func(name string, f externalFn) { externals[name] = f }

	// ---- environment without configuration or network: viper keys are unset, and an
	// outgoing HTTP request through the heimdall client fails (no response, an error)
	E("github.com/spf13/viper.GetString", func(fr *frame, args []value) value { return "" })
	E("net/http.NewRequest", func(fr *frame, args []value) value {
		// an outgoing request is only ever handed to a client whose Do is modelled: method and URL
		// are kept (URL text in RequestURI) for the scripted remote to log
		rt := lookupNamed(fr.i.prog, "net/http", "Request")
		v := zero(rt)
		st := v.(structure)
		st[fieldIndex(rt, "Method")] = args[0]
		st[fieldIndex(rt, "RequestURI")] = args[1]
		st[fieldIndex(rt, "Header")] = makeMap(types.Typ[types.String], 0)
		return tuple{&v, iface{}}
	})
	// the scripted remote (h.Remote): the k-th request made through an http.Client gets the k-th
	// page with status 200; requests beyond the script get an empty array; without a script there
	// is no network
	E("(*net/http.Client).Do", func(fr *frame, args []value) value {
		p := fr.i.path
		e := p.env
		if e.remotePages == nil {
			return tuple{(*value)(nil), fr.i.mkError("dial tcp: network is unreachable (gosx: no network)")}
		}
		uri := ""
		if rp, ok := args[1].(*value); ok && rp != nil {
			rt := lookupNamed(fr.i.prog, "net/http", "Request")
			if sv, ok := (*rp).(structure)[fieldIndex(rt, "RequestURI")].(string); ok {
				uri = sv
			}
		}
		e.remoteRequests = append(e.remoteRequests, uri)
		// the log entry: method, URL and the request headers (sorted; content type left out)
		entry := uri
		if rp, ok := args[1].(*value); ok && rp != nil {
			rt := lookupNamed(fr.i.prog, "net/http", "Request")
			rq := (*rp).(structure)
			if m, ok := rq[fieldIndex(rt, "Method")].(string); ok {
				entry = m + " " + entry
			}
			if hm, ok := rq[fieldIndex(rt, "Header")].(*omap); ok && hm != nil {
				var hs []string
				for _, en := range hm.ents {
					k, _ := en.key.(string)
					if !en.alive || k == "Content-Type" {
						continue
					}
					vals := ""
					if vs, ok := en.val.([]value); ok {
						for i, x := range vs {
							if i > 0 {
								vals += ","
							}
							vals += concStr(x, "request header value")
						}
					}
					hs = append(hs, k+"="+vals)
				}
				sort.Strings(hs)
				for _, x := range hs {
					entry += " " + x
				}
			}
		}
		e.remoteLog = append(e.remoteLog, entry)
		page := "[]"
		if e.remoteServed < len(e.remotePages) {
			page = e.remotePages[e.remoteServed]
		}
		e.remoteServed++
		// a scripted answer "!<status>[ <body>]" is a non-200 response
		status := 200
		if strings.HasPrefix(page, "!") {
			rest := page[1:]
			body := ""
			if k := strings.Index(rest, " "); k >= 0 {
				rest, body = rest[:k], rest[k+1:]
			}
			if n, err := strconv.Atoi(rest); err == nil {
				status, page = n, body
			}
		}
		path := fmt.Sprintf("/gosx/remote/page-%d", e.remoteServed)
		e.fsMkdir("/gosx/remote")
		e.files[path] = bytesVal([]byte(page))
		respT := lookupNamed(fr.i.prog, "net/http", "Response")
		rv := zero(respT)
		rs := rv.(structure)
		rs[fieldIndex(respT, "StatusCode")] = status
		rs[fieldIndex(respT, "Status")] = strconv.Itoa(status) + " " + nethttp.StatusText(status)
		rs[fieldIndex(respT, "Header")] = makeMap(types.Typ[types.String], 0)
		fileT := types.NewPointer(lookupNamed(fr.i.prog, "os", "File"))
		rs[fieldIndex(respT, "Body")] = iface{fileT, box(&fileModel{path: path, readonly: true})}
		return tuple{&rv, iface{}}
	})
	// (the heimdall client is interpreted from source: its retry loop runs over the modelled
	// http.Client.Do, its backoff sleeps advance the modelled clock)

	// math/rand (jitter of retry backoffs): some value of the range — the smallest
	E("math/rand.Int63n", func(fr *frame, args []value) value { return int64(0) })
	E("math/rand.Int31n", func(fr *frame, args []value) value { return int32(0) })
	E("math/rand.Intn", func(fr *frame, args []value) value { return 0 })
	E("math/rand.Int63", func(fr *frame, args []value) value { return int64(0) })
	E("math/rand.Float64", func(fr *frame, args []value) value { return float64(0) })

	// uuid.New: a fresh identifier per call (the n-th call on a path yields bytes derived from n;
	// contract: distinct from every earlier one)
	E("github.com/google/uuid.New", func(fr *frame, args []value) value {
		e := fr.i.path.env
		e.uuids++
		out := make(array, 16)
		for i := range out {
			out[i] = uint8(0)
		}
		out[6], out[8] = uint8(0x40), uint8(0x80)
		out[14], out[15] = uint8(e.uuids>>8), uint8(e.uuids)
		return out
	})

	// ---- fmt
	E("fmt.Sprintf", func(fr *frame, args []value) value {
		return sprintf(fr, concStr(args[0], "fmt.Sprintf format"), args[1].([]value))
	})
	E("fmt.Errorf", func(fr *frame, args []value) value {
		f := concStr(args[0], "fmt.Errorf format")
		msg := sprintf(fr, f, args[1].([]value))
		if strings.Contains(f, "%w") {
			// remember the first wrapped error for errors.Is/Unwrap
			for _, a := range args[1].([]value) {
				if iv, ok := a.(iface); ok && iv.t != nil {
					if _, isErr := errorText(fr, iv); isErr {
						return iface{wrapErrType, structure{msg, iv}}
					}
				}
			}
		}
		return iface{errorType, msg}
	})
	sprint := func(fr *frame, args []value, ln bool) value {
		var out []value
		for k, a := range args[0].([]value) {
			if k > 0 && ln {
				out = append(out, byte(' '))
			}
			out = append(out, strBytes(sprintf(fr, "%v", []value{a}))...)
		}
		if ln {
			out = append(out, byte('\n'))
		}
		return mkstr(out)
	}
	E("fmt.Sprint", func(fr *frame, args []value) value { return sprint(fr, args, false) })
	E("fmt.Sprintln", func(fr *frame, args []value) value { return sprint(fr, args, true) })
	E("fmt.Println", func(fr *frame, args []value) value { return tuple{0, iface{}} })
	E("fmt.Printf", func(fr *frame, args []value) value { return tuple{0, iface{}} })
	E("fmt.Print", func(fr *frame, args []value) value { return tuple{0, iface{}} })
	E("fmt.Fprintf", func(fr *frame, args []value) value { return tuple{0, iface{}} })
	E("fmt.Fprintln", func(fr *frame, args []value) value { return tuple{0, iface{}} })

	// ---- errors
	E("errors.Is", func(fr *frame, args []value) value {
		err, target := args[0], args[1]
		b := fr.i.path.bank()
		// file-system errors of the model: a "no such file" path error matches os.ErrNotExist
		if tv, ok := target.(iface); ok && tv.t == errorType && tv.v == "file does not exist" && isNotExistErr(err) {
			return true
		}
		for depth := 0; depth < 16; depth++ {
			if isNilIface(err) {
				return isNilIface(target)
			}
			c := eqvSafe(b, err, target)
			if fr.i.path.decide(c) {
				return true
			}
			iv := err.(iface)
			if iv.t == wrapErrType {
				err = iv.v.(structure)[1]
				continue
			}
			// Unwrap() error
			next, ok := callUnwrap(fr, iv)
			if !ok {
				return false
			}
			err = next
		}
		return false
	})
	E("errors.Unwrap", func(fr *frame, args []value) value {
		if isNilIface(args[0]) {
			return iface{}
		}
		iv := args[0].(iface)
		if iv.t == wrapErrType {
			return iv.v.(structure)[1]
		}
		if n, ok := callUnwrap(fr, iv); ok {
			return n
		}
		return iface{}
	})
	E("(reflect.wrapErr).Error", func(fr *frame, args []value) value { return args[0].(structure)[0] })
	E("(reflect.wrapErr).Unwrap", func(fr *frame, args []value) value { return args[0].(structure)[1] })

	// ---- strings / bytes on possibly-symbolic byte lists
	hasPrefix := func(fr *frame, s, pre []value) value {
		if len(pre) > len(s) {
			return false
		}
		return mkval(bytesEqTerm(fr.i.path.bank(), s[:len(pre)], pre), types.Bool)
	}
	hasSuffix := func(fr *frame, s, suf []value) value {
		if len(suf) > len(s) {
			return false
		}
		return mkval(bytesEqTerm(fr.i.path.bank(), s[len(s)-len(suf):], suf), types.Bool)
	}
	// index: first (or last) position where sub matches; forks per position
	index := func(fr *frame, s, sub []value, last bool) value {
		p := fr.i.path
		b := p.bank()
		n := len(s) - len(sub)
		if n < 0 {
			return -1
		}
		if !last {
			for k := 0; k <= n; k++ {
				if p.decide(bytesEqTerm(b, s[k:k+len(sub)], sub)) {
					return k
				}
			}
		} else {
			for k := n; k >= 0; k-- {
				if p.decide(bytesEqTerm(b, s[k:k+len(sub)], sub)) {
					return k
				}
			}
		}
		return -1
	}
	E("strings.HasPrefix", func(fr *frame, args []value) value {
		return hasPrefix(fr, strBytes(args[0]), strBytes(args[1]))
	})
	E("strings.HasSuffix", func(fr *frame, args []value) value {
		return hasSuffix(fr, strBytes(args[0]), strBytes(args[1]))
	})
	E("bytes.HasPrefix", func(fr *frame, args []value) value {
		return hasPrefix(fr, args[0].([]value), args[1].([]value))
	})
	E("bytes.HasSuffix", func(fr *frame, args []value) value {
		return hasSuffix(fr, args[0].([]value), args[1].([]value))
	})
	E("strings.Index", func(fr *frame, args []value) value {
		return index(fr, strBytes(args[0]), strBytes(args[1]), false)
	})
	E("strings.LastIndex", func(fr *frame, args []value) value {
		return index(fr, strBytes(args[0]), strBytes(args[1]), true)
	})
	E("strings.IndexByte", func(fr *frame, args []value) value {
		return index(fr, strBytes(args[0]), []value{args[1]}, false)
	})
	E("strings.LastIndexByte", func(fr *frame, args []value) value {
		return index(fr, strBytes(args[0]), []value{args[1]}, true)
	})
	E("strings.Contains", func(fr *frame, args []value) value {
		return index(fr, strBytes(args[0]), strBytes(args[1]), false).(int) >= 0
	})
	E("bytes.IndexByte", func(fr *frame, args []value) value {
		return index(fr, args[0].([]value), []value{args[1]}, false)
	})
	E("bytes.Equal", func(fr *frame, args []value) value {
		a, aok := args[0].([]value)
		bb, bok := args[1].([]value)
		if !aok || !bok {
			// blobs: the serialisation of a JSON tree is injective (symbolic string
			// leaves are assumed to need no escapes), so the byte strings are equal
			// iff the trees are structurally equal with equal leaves
			if args[0] == args[1] {
				return true
			}
			ba, aIsBlob := args[0].(*blob)
			bb2, bIsBlob := args[1].(*blob)
			if aIsBlob && bIsBlob {
				if ba == nil || bb2 == nil {
					return ba.length(fr) == bb2.length(fr) && ba.length(fr) == 0
				}
				return mkval(jnodeEq(fr.i.path, ba.root, bb2.root), types.Bool)
			}
			// one side concrete bytes: compare texts when the blob is concrete
			toBytes := func(v value) []value {
				if bl, ok := v.(*blob); ok {
					return strBytes(bl.asString())
				}
				return v.([]value)
			}
			return mkval(bytesEqTerm(fr.i.path.bank(), toBytes(args[0]), toBytes(args[1])), types.Bool)
		}
		return mkval(bytesEqTerm(fr.i.path.bank(), a, bb), types.Bool)
	})
	E("bytes.Compare", func(fr *frame, args []value) value {
		p := fr.i.path
		b := p.bank()
		x, y := args[0].([]value), args[1].([]value)
		if p.decide(bytesEqTerm(b, x, y)) {
			return 0
		}
		if p.decide(bytesLessTerm(b, x, y, false)) {
			return -1
		}
		return 1
	})
	E("strings.Compare", func(fr *frame, args []value) value {
		p := fr.i.path
		b := p.bank()
		x, y := strBytes(args[0]), strBytes(args[1])
		if p.decide(bytesEqTerm(b, x, y)) {
			return 0
		}
		if p.decide(bytesLessTerm(b, x, y, false)) {
			return -1
		}
		return 1
	})
	nativeStr := func(name string, f func(args []value) value) {
		E(name, func(fr *frame, args []value) value {
			for _, a := range args {
				switch a.(type) {
				case symstr, sym:
					panic(unsupported{name + " on symbolic argument"})
				}
			}
			return f(args)
		})
	}
	strList := func(ss []string) value {
		out := make([]value, len(ss))
		for k, s := range ss {
			out[k] = s
		}
		return out
	}
	// symStr registers a function that runs natively on concrete arguments and
	// through a model on symbolic strings (forking on the byte comparisons)
	symStr := func(name string, native func(args []value) value, model func(fr *frame, args []value) value) {
		E(name, func(fr *frame, args []value) value {
			for _, a := range args {
				switch a.(type) {
				case symstr, sym:
					return model(fr, args)
				}
			}
			return native(args)
		})
	}
	isTrue := func(fr *frame, v value) bool {
		if bv, ok := v.(bool); ok {
			return bv
		}
		return fr.i.path.decide(v.(sym).t)
	}
	symStr("strings.TrimPrefix", func(a []value) value { return strings.TrimPrefix(a[0].(string), a[1].(string)) },
		func(fr *frame, a []value) value {
			s, pre := strBytes(a[0]), strBytes(a[1])
			if isTrue(fr, hasPrefix(fr, s, pre)) {
				return mkstr(s[len(pre):])
			}
			return a[0]
		})
	symStr("strings.TrimSuffix", func(a []value) value { return strings.TrimSuffix(a[0].(string), a[1].(string)) },
		func(fr *frame, a []value) value {
			s, suf := strBytes(a[0]), strBytes(a[1])
			if isTrue(fr, hasSuffix(fr, s, suf)) {
				return mkstr(s[:len(s)-len(suf)])
			}
			return a[0]
		})
	splitN := func(fr *frame, s, sep []value, n int) value {
		if len(sep) == 0 {
			panic(unsupported{"strings.Split with an empty separator on a symbolic string"})
		}
		var out []value
		for n < 0 || len(out) < n-1 {
			k := index(fr, s, sep, false).(int)
			if k < 0 {
				break
			}
			out = append(out, mkstr(s[:k]))
			s = s[k+len(sep):]
		}
		return append(out, mkstr(s))
	}
	symStr("strings.Split", func(a []value) value { return strList(strings.Split(a[0].(string), a[1].(string))) },
		func(fr *frame, a []value) value { return splitN(fr, strBytes(a[0]), strBytes(a[1]), -1) })
	symStr("strings.SplitN", func(a []value) value { return strList(strings.SplitN(a[0].(string), a[1].(string), a[2].(int))) },
		func(fr *frame, a []value) value {
			n := int(fr.i.path.concInt(a[2], "strings.SplitN count"))
			if n == 0 {
				return []value(nil)
			}
			return splitN(fr, strBytes(a[0]), strBytes(a[1]), n)
		})
	asciiCase := func(upper bool) func(fr *frame, a []value) value {
		return func(fr *frame, a []value) value {
			p := fr.i.path
			b := p.bank()
			bs := strBytes(a[0])
			out := make([]value, len(bs))
			for k, c := range bs {
				cs, ok := c.(sym)
				if !ok {
					ch := c.(uint8)
					if upper && 'a' <= ch && ch <= 'z' {
						ch -= 32
					} else if !upper && 'A' <= ch && ch <= 'Z' {
						ch += 32
					}
					out[k] = ch
					continue
				}
				// symbolic bytes are assumed ASCII (added to the path condition)
				p.assume(b.ULe(cs.t, b.BV(0x7f, 8)))
				lo, hi, d := uint64('A'), uint64('Z'), b.BV(32, 8)
				var t *Term
				if upper {
					lo, hi = 'a', 'z'
					t = b.Ite(b.And(b.ULe(b.BV(lo, 8), cs.t), b.ULe(cs.t, b.BV(hi, 8))), b.Sub(cs.t, d), cs.t)
				} else {
					t = b.Ite(b.And(b.ULe(b.BV(lo, 8), cs.t), b.ULe(cs.t, b.BV(hi, 8))), b.Add(cs.t, d), cs.t)
				}
				out[k] = sym{t, types.Uint8}
			}
			return mkstr(out)
		}
	}
	symStr("strings.ToLower", func(a []value) value { return strings.ToLower(a[0].(string)) }, asciiCase(false))
	symStr("strings.ToUpper", func(a []value) value { return strings.ToUpper(a[0].(string)) }, asciiCase(true))
	nativeStr("strings.Fields", func(a []value) value { return strList(strings.Fields(a[0].(string))) })
	nativeStr("strings.Join", func(a []value) value {
		var ss []string
		for _, e := range a[0].([]value) {
			s, ok := e.(string)
			if !ok {
				panic(unsupported{"strings.Join on symbolic element"})
			}
			ss = append(ss, s)
		}
		return strings.Join(ss, a[1].(string))
	})
	nativeStr("strings.TrimSpace", func(a []value) value { return strings.TrimSpace(a[0].(string)) })
	nativeStr("strings.Trim", func(a []value) value { return strings.Trim(a[0].(string), a[1].(string)) })
	nativeStr("strings.TrimLeft", func(a []value) value { return strings.TrimLeft(a[0].(string), a[1].(string)) })
	nativeStr("strings.TrimRight", func(a []value) value { return strings.TrimRight(a[0].(string), a[1].(string)) })
	nativeStr("strings.Replace", func(a []value) value {
		return strings.Replace(a[0].(string), a[1].(string), a[2].(string), a[3].(int))
	})
	nativeStr("strings.ReplaceAll", func(a []value) value {
		return strings.ReplaceAll(a[0].(string), a[1].(string), a[2].(string))
	})
	nativeStr("strings.EqualFold", func(a []value) value { return strings.EqualFold(a[0].(string), a[1].(string)) })
	nativeStr("strings.Count", func(a []value) value { return strings.Count(a[0].(string), a[1].(string)) })
	nativeStr("strings.Repeat", func(a []value) value { return strings.Repeat(a[0].(string), a[1].(int)) })
	nativeStr("strings.Title", func(a []value) value { return strings.Title(a[0].(string)) })
	nativeStr("strconv.Itoa", func(a []value) value { return strconv.Itoa(a[0].(int)) })
	nativeStr("strconv.Quote", func(a []value) value { return strconv.Quote(a[0].(string)) })
	nativeStr("strconv.FormatInt", func(a []value) value { return strconv.FormatInt(a[0].(int64), a[1].(int)) })
	nativeStr("strconv.FormatUint", func(a []value) value { return strconv.FormatUint(a[0].(uint64), a[1].(int)) })
	nativeStr("strconv.FormatBool", func(a []value) value { return strconv.FormatBool(a[0].(bool)) })
	nativeStr("strconv.FormatFloat", func(a []value) value {
		return strconv.FormatFloat(a[0].(float64), a[1].(byte), a[2].(int), a[3].(int))
	})
	numErr := func(err error) value {
		if err == nil {
			return iface{}
		}
		return iface{errorType, err.Error()}
	}
	nativeStr("strconv.Atoi", func(a []value) value {
		n, err := strconv.Atoi(a[0].(string))
		return tuple{n, numErr(err)}
	})
	nativeStr("strconv.ParseInt", func(a []value) value {
		n, err := strconv.ParseInt(a[0].(string), a[1].(int), a[2].(int))
		return tuple{n, numErr(err)}
	})
	nativeStr("strconv.ParseUint", func(a []value) value {
		n, err := strconv.ParseUint(a[0].(string), a[1].(int), a[2].(int))
		return tuple{n, numErr(err)}
	})
	nativeStr("strconv.ParseBool", func(a []value) value {
		n, err := strconv.ParseBool(a[0].(string))
		return tuple{n, numErr(err)}
	})
	nativeStr("strconv.ParseFloat", func(a []value) value {
		n, err := strconv.ParseFloat(a[0].(string), a[1].(int))
		return tuple{n, numErr(err)}
	})
	nativeStr("strconv.Unquote", func(a []value) value {
		s, err := strconv.Unquote(a[0].(string))
		return tuple{s, numErr(err)}
	})
	nativeStr("(reflect.StructTag).Get", func(a []value) value {
		return (reflectStructTag(a[0].(string))).Get(a[1].(string))
	})
	nativeStr("(reflect.StructTag).Lookup", func(a []value) value {
		v, ok := (reflectStructTag(a[0].(string))).Lookup(a[1].(string))
		return tuple{v, ok}
	})

	// ---- base64 (bijection on byte strings; text of symbolic input is abstract)
	encOf := func(v value) *b64Enc { return unbox(v, "*base64.Encoding").(*b64Enc) }
	E("(*encoding/base64.Encoding).EncodeToString", func(fr *frame, args []value) value {
		e := encOf(args[0])
		if b, ok := concBytes(args[1]); ok {
			return e.enc().EncodeToString(b)
		}
		bs, ok := args[1].([]value)
		if !ok {
			panic(unsupported{"base64 of a JSON blob with symbolic leaves"})
		}
		return fr.i.path.env.b64Token(e.name, bs)
	})
	E("(*encoding/base64.Encoding).DecodeString", func(fr *frame, args []value) value {
		e := encOf(args[0])
		if s, ok := args[1].(string); ok {
			if tk, ok := fr.i.path.env.b64Lookup(s); ok {
				return tuple{append([]value{}, tk.bytes...), iface{}}
			}
			b, err := e.enc().DecodeString(s)
			if err != nil {
				return tuple{bytesVal(b), iface{errorType, err.Error()}}
			}
			return tuple{bytesVal(b), iface{}}
		}
		panic(unsupported{"base64 decode of symbolic text"})
	})

	// ---- math
	E("math.Round", func(fr *frame, args []value) value {
		if s, ok := args[0].(sym); ok {
			return mkval(fr.i.path.bank().FPRound(s.t), types.Float64)
		}
		return math.Round(args[0].(float64))
	})
	E("math.Floor", func(fr *frame, args []value) value {
		if s, ok := args[0].(sym); ok {
			return mkval(fr.i.path.bank().FPFloor(s.t), types.Float64)
		}
		return math.Floor(args[0].(float64))
	})
	E("math.Ceil", func(fr *frame, args []value) value {
		if s, ok := args[0].(sym); ok {
			return mkval(fr.i.path.bank().FPCeil(s.t), types.Float64)
		}
		return math.Ceil(args[0].(float64))
	})
	E("math.Trunc", func(fr *frame, args []value) value {
		if _, ok := args[0].(sym); ok {
			panic(unsupported{"math.Trunc on symbolic float"})
		}
		return math.Trunc(args[0].(float64))
	})
	fpMinMax := func(isMax bool) externalFn {
		return func(fr *frame, args []value) value {
			if !isSym(args[0]) && !isSym(args[1]) {
				if isMax {
					return math.Max(args[0].(float64), args[1].(float64))
				}
				return math.Min(args[0].(float64), args[1].(float64))
			}
			b := fr.i.path.bank()
			x, y := termOf(b, args[0]), termOf(b, args[1])
			// NaN/±0 corner cases are not distinguished (inputs are integral counts)
			if isMax {
				return mkval(b.Ite(b.FPCmp("fp.gt", x, y), x, y), types.Float64)
			}
			return mkval(b.Ite(b.FPCmp("fp.lt", x, y), x, y), types.Float64)
		}
	}
	E("math.Max", fpMinMax(true))
	E("math.Min", fpMinMax(false))

	// ---- reflect additions
	E("reflect.DeepEqual", func(fr *frame, args []value) value {
		return mkval(deepEqual(fr, args[0], args[1], 0), types.Bool)
	})
	E("(reflect.Value).Cap", func(fr *frame, args []value) value {
		switch v := rV2V(args[0]).(type) {
		case []value:
			return cap(v)
		case array:
			return len(v)
		}
		panic("reflect.Value.Cap")
	})
	E("(reflect.Value).IsZero", func(fr *frame, args []value) value {
		v := rV2V(args[0])
		t := rV2T(args[0]).t
		return mkval(eqv(fr.i.path.bank(), t, v, zero(t)), types.Bool)
	})
	E("(reflect.rtype).Name", func(fr *frame, args []value) value {
		if n, ok := args[0].(rtype).t.(*types.Named); ok {
			return n.Obj().Name()
		}
		return ""
	})

	// ---- cron spec validation is pure: run the real parser on the concrete spec
	E("github.com/robfig/cron/v3.ParseStandard", func(fr *frame, args []value) value {
		spec := concStr(args[0], "cron.ParseStandard")
		if err := cronValidate(spec); err != nil {
			return tuple{iface{}, iface{errorType, err.Error()}}
		}
		return tuple{iface{types.NewPointer(lookupNamed(fr.i.prog, "github.com/robfig/cron/v3", "SpecSchedule")), box(spec)}, iface{}}
	})

	// ---- sort (insertion sort driven by the target's less function; stable)
	sortSlice := func(fr *frame, args []value) value {
		iv := args[0].(iface)
		xs, ok := iv.v.([]value)
		if !ok {
			panic(unsupported{"sort.Slice on a non-slice"})
		}
		p := fr.i.path
		for i := 1; i < len(xs); i++ {
			for j := i; j > 0; j-- {
				r := call(fr.i, fr, token.NoPos, args[1], []value{j, j - 1})
				if !p.concBool(r) {
					break
				}
				xs[j], xs[j-1] = xs[j-1], xs[j]
			}
		}
		return nil
	}
	E("sort.Slice", sortSlice)
	E("sort.SliceStable", sortSlice)
	sortBasic := func(fr *frame, args []value) value {
		xs := args[0].([]value)
		p := fr.i.path
		for i := 1; i < len(xs); i++ {
			for j := i; j > 0; j-- {
				r := binop(fr, token.LSS, nil, xs[j], xs[j-1])
				if !p.concBool(r) {
					break
				}
				xs[j], xs[j-1] = xs[j-1], xs[j]
			}
		}
		return nil
	}
	E("sort.Strings", sortBasic)
	E("sort.Ints", sortBasic)
	E("sort.Float64s", sortBasic)

	// ---- cron / jobrunner registration: recorded, never fired (jobs are run by harnesses)
	E("(*github.com/robfig/cron/v3.Cron).Schedule", func(fr *frame, args []value) value {
		fr.i.path.env.cronEntries++
		return fr.i.path.env.cronEntries
	})
	E("(*github.com/robfig/cron/v3.Cron).Remove", func(fr *frame, args []value) value { return nil })
	E("github.com/bamzi/jobrunner.New", func(fr *frame, args []value) value { return box(args[0]) })
	E("github.com/bamzi/jobrunner.Remove", func(fr *frame, args []value) value { return nil })

	// ---- runtime
	E("runtime.Caller", func(fr *frame, args []value) value { return tuple{uintptr(0), "", 0, false} })
	E("runtime.FuncForPC", func(fr *frame, args []value) value { return (*value)(nil) })
	E("(*runtime.Func).Name", func(fr *frame, args []value) value { return "" })
	E("runtime.NumGoroutine", func(fr *frame, args []value) value { return len(fr.i.path.sched.threads) })
	E("runtime.Gosched", func(fr *frame, args []value) value { fr.i.path.sched.yield("gosched"); return nil })
	E("runtime.GC", func(fr *frame, args []value) value { return nil })
	// maps.Clone: the runtime's shallow map copy
	E("maps.clone", func(fr *frame, args []value) value {
		iv, ok := args[0].(iface)
		if !ok {
			panic(unsupported{"maps.clone of a non-interface argument"})
		}
		m, ok := iv.v.(*omap)
		if !ok {
			panic(unsupported{"maps.clone of a non-map"})
		}
		if m == nil {
			return iv
		}
		return iface{iv.t, m.clone()}
	})
	E("runtime.Stack", func(fr *frame, args []value) value { return 0 })

	// ---- strings.Builder (its source uses unsafe): the content lives in the buf field
	sbBuf := func(fr *frame, recv value) *value {
		pp := recvPtr(recv, "strings.Builder")
		bt := lookupNamed(fr.i.prog, "strings", "Builder")
		st := (*pp).(structure)
		return &st[fieldIndex(bt, "buf")]
	}
	sbGet := func(bp *value) []value {
		if bs, ok := (*bp).([]value); ok {
			return bs
		}
		return nil
	}
	E("(*strings.Builder).Grow", func(fr *frame, args []value) value { return nil })
	E("(*strings.Builder).Reset", func(fr *frame, args []value) value { *sbBuf(fr, args[0]) = []value(nil); return nil })
	E("(*strings.Builder).Len", func(fr *frame, args []value) value { return len(sbGet(sbBuf(fr, args[0]))) })
	E("(*strings.Builder).Cap", func(fr *frame, args []value) value { return len(sbGet(sbBuf(fr, args[0]))) })
	E("(*strings.Builder).WriteString", func(fr *frame, args []value) value {
		bp := sbBuf(fr, args[0])
		nb := strBytes(args[1])
		*bp = append(append([]value{}, sbGet(bp)...), nb...)
		return tuple{len(nb), iface{}}
	})
	E("(*strings.Builder).Write", func(fr *frame, args []value) value {
		bp := sbBuf(fr, args[0])
		nb, _ := args[1].([]value)
		*bp = append(append([]value{}, sbGet(bp)...), nb...)
		return tuple{len(nb), iface{}}
	})
	E("(*strings.Builder).WriteByte", func(fr *frame, args []value) value {
		bp := sbBuf(fr, args[0])
		*bp = append(append([]value{}, sbGet(bp)...), args[1])
		return iface{}
	})
	E("(*strings.Builder).WriteRune", func(fr *frame, args []value) value {
		bp := sbBuf(fr, args[0])
		r, ok := args[1].(int32)
		if !ok {
			panic(unsupported{"strings.Builder.WriteRune of a symbolic rune"})
		}
		nb := strBytes(string(r))
		*bp = append(append([]value{}, sbGet(bp)...), nb...)
		return tuple{len(nb), iface{}}
	})
	E("(*strings.Builder).String", func(fr *frame, args []value) value {
		bs := sbGet(sbBuf(fr, args[0]))
		if b, ok := concBytes(bs); ok {
			return string(b)
		}
		return symstr(append([]value{}, bs...))
	})

	// ---- internal/bytealg: the assembly leaves of strings/bytes, on concrete arguments, so that
	// standard-library code above them (net/url, strings.Cut, ...) can be interpreted from source
	cs := func(v value, what string) string {
		if b, ok := concBytes(v); ok {
			return string(b)
		}
		panic(unsupported{"internal/bytealg." + what + " on symbolic bytes"})
	}
	cb := func(v value, what string) byte {
		if b, ok := v.(uint8); ok {
			return b
		}
		panic(unsupported{"internal/bytealg." + what + " on a symbolic byte"})
	}
	E("internal/bytealg.IndexByteString", func(fr *frame, args []value) value {
		return strings.IndexByte(cs(args[0], "IndexByteString"), cb(args[1], "IndexByteString"))
	})
	E("internal/bytealg.IndexByte", func(fr *frame, args []value) value {
		return strings.IndexByte(cs(args[0], "IndexByte"), cb(args[1], "IndexByte"))
	})
	E("internal/bytealg.LastIndexByteString", func(fr *frame, args []value) value {
		return strings.LastIndexByte(cs(args[0], "LastIndexByteString"), cb(args[1], "LastIndexByteString"))
	})
	E("internal/bytealg.LastIndexByte", func(fr *frame, args []value) value {
		return strings.LastIndexByte(cs(args[0], "LastIndexByte"), cb(args[1], "LastIndexByte"))
	})
	E("internal/bytealg.IndexString", func(fr *frame, args []value) value {
		return strings.Index(cs(args[0], "IndexString"), cs(args[1], "IndexString"))
	})
	E("internal/bytealg.Index", func(fr *frame, args []value) value {
		return strings.Index(cs(args[0], "Index"), cs(args[1], "Index"))
	})
	E("internal/bytealg.CountString", func(fr *frame, args []value) value {
		return strings.Count(cs(args[0], "CountString"), string([]byte{cb(args[1], "CountString")}))
	})
	E("internal/bytealg.Count", func(fr *frame, args []value) value {
		return strings.Count(cs(args[0], "Count"), string([]byte{cb(args[1], "Count")}))
	})
	E("internal/bytealg.Equal", func(fr *frame, args []value) value {
		return cs(args[0], "Equal") == cs(args[1], "Equal")
	})
	E("internal/bytealg.Compare", func(fr *frame, args []value) value {
		return strings.Compare(cs(args[0], "Compare"), cs(args[1], "Compare"))
	})
	E("internal/bytealg.MakeNoZero", func(fr *frame, args []value) value {
		n := int(fr.i.path.concInt(args[0], "MakeNoZero"))
		return bytesVal(make([]byte, n))
	})

	// ---- request path (C16 route harness): requests built by the harnesses carry no
	// form, no query string and Content-Length 0, for which echo's DefaultBinder.Bind
	// binds nothing (the target structs of /repo have no param/query tags) and
	// Request.FormValue finds nothing.
	E("(*github.com/labstack/echo/v4.DefaultBinder).Bind", func(fr *frame, args []value) value { return iface{} })
	E("(*net/http.Request).FormValue", func(fr *frame, args []value) value { return "" })
	// flushing a response has no observable effect on a collecting writer
	E("(*github.com/labstack/echo/v4.Response).Flush", func(fr *frame, args []value) value { return nil })
	E("runtime/debug.Stack", func(fr *frame, args []value) value { return []value{} })
}

type reflectStructTag = reflectTag

func callUnwrap(fr *frame, iv iface) (value, bool) {
	ms := fr.i.prog.MethodSets.MethodSet(iv.t)
	for k := 0; k < ms.Len(); k++ {
		if ms.At(k).Obj().Name() == "Unwrap" {
			f := lookupMethod(fr.i, iv.t, ms.At(k).Obj().(*types.Func))
			if f != nil && f.Signature.Results().Len() == 1 {
				return call(fr.i, fr, token.NoPos, f, []value{iv.v}), true
			}
		}
	}
	return nil, false
}

// eqvSafe compares two interface values, treating uncomparable dynamic types
// as unequal (errors.Is uses a comparability check).
func eqvSafe(b *TermBank, x, y value) (res *Term) {
	defer func() {
		if r := recover(); r != nil {
			if isEnginePanic(r) {
				panic(r)
			}
			res = b.Bool(false)
		}
	}()
	return eqv(b, nil, x, y)
}

// deepEqual: structural equality as a term.
func deepEqual(fr *frame, x, y value, depth int) *Term {
	b := fr.i.path.bank()
	p := fr.i.path
	if depth > 32 {
		panic(unsupported{"reflect.DeepEqual deeper than 32"})
	}
	switch xv := x.(type) {
	case iface:
		yv, ok := y.(iface)
		if !ok {
			return b.Bool(false)
		}
		if xv.t == nil || yv.t == nil {
			return b.Bool(xv.t == nil && yv.t == nil)
		}
		if !types.Identical(xv.t, yv.t) {
			return b.Bool(false)
		}
		return deepEqual(fr, xv.v, yv.v, depth+1)
	case []value:
		yv, ok := y.([]value)
		if !ok {
			return b.Bool(false)
		}
		if (xv == nil) != (yv == nil) || len(xv) != len(yv) {
			return b.Bool(false)
		}
		var cs []*Term
		for k := range xv {
			cs = append(cs, deepEqual(fr, xv[k], yv[k], depth+1))
		}
		return b.And(cs...)
	case array:
		yv := y.(array)
		var cs []*Term
		for k := range xv {
			cs = append(cs, deepEqual(fr, xv[k], yv[k], depth+1))
		}
		return b.And(cs...)
	case structure:
		yv := y.(structure)
		var cs []*Term
		for k := range xv {
			cs = append(cs, deepEqual(fr, xv[k], yv[k], depth+1))
		}
		return b.And(cs...)
	case *omap:
		yv, ok := y.(*omap)
		if !ok {
			return b.Bool(false)
		}
		if (xv == nil) != (yv == nil) || xv.len() != yv.len() {
			return b.Bool(false)
		}
		if xv == yv {
			return b.Bool(true)
		}
		var cs []*Term
		for _, e := range xv.ents {
			ov, ok := yv.lookup(p, e.key)
			if !ok {
				return b.Bool(false)
			}
			cs = append(cs, deepEqual(fr, e.val, ov, depth+1))
		}
		return b.And(cs...)
	case *value:
		yv, ok := y.(*value)
		if !ok {
			return b.Bool(false)
		}
		if xv == yv {
			return b.Bool(true)
		}
		if xv == nil || yv == nil {
			return b.Bool(false)
		}
		return deepEqual(fr, *xv, *yv, depth+1)
	case *blob:
		return b.Bool(x == y)
	case *closure, *ssa.Function:
		return b.Bool(false)
	case float64:
		if yf, ok := y.(float64); ok {
			return b.Bool(xv == yf)
		}
	}
	return eqv(b, nil, x, y)
}
