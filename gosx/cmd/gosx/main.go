// gosx: run one harness function symbolically and print a JSON report.
package main

import (
	"encoding/json"
	"flag"
	"fmt"
	"os"
	"path/filepath"
	"strings"
	"time"

	"verif/gosx/interp"
)

func main() {
	repo := flag.String("repo", "/repo", "module root of the code under test")
	hdir := flag.String("harness", "/verif/harness", "harness root (mirrors the module layout)")
	pkg := flag.String("pkg", "", "package import path (relative to module), e.g. internal/server")
	fn := flag.String("func", "", "harness function name")
	workers := flag.Int("workers", 0, "workers")
	maxPaths := flag.Int("max-paths", 0, "")
	samples := flag.Int("samples", 3, "")
	trace := flag.Bool("trace", false, "")
	timeout := flag.Int("solver-timeout-ms", 10000, "")
	flag.Parse()
	mod := "github.com/mimiro-io/datahub"
	ov, err := BuildOverlay(*repo, *hdir)
	if err != nil {
		fmt.Fprintln(os.Stderr, err)
		os.Exit(3)
	}
	pr, err := interp.Load(interp.LoadConfig{Dir: *repo, Patterns: []string{"./" + *pkg}, Overlay: ov, BuildTags: []string{"verif"}, InitPrefix: mod})
	if err != nil {
		fmt.Fprintln(os.Stderr, err)
		os.Exit(3)
	}
	fmt.Fprintf(os.Stderr, "loaded %d packages in %v\n", pr.NumPackages(), pr.LoadTime)
	rep := pr.Run(mod+"/"+*pkg, *fn, interp.RunConfig{Workers: *workers, MaxPaths: *maxPaths, Samples: *samples, Trace: *trace, SolverTimeoutMS: *timeout})
	for i := range rep.Violations {
		rep.Violations[i].Script = ""
	}
	rep.Scripts = nil
	nf := len(rep.Funcs)
	rep.Funcs = nil
	b, _ := json.MarshalIndent(rep, "", " ")
	fmt.Println(string(b))
	fmt.Fprintf(os.Stderr, "functions executed: %d, wall %v\n", nf, rep.Wall.Round(time.Millisecond))
}

// BuildOverlay maps every file under hdir to the same relative path under repo.
func BuildOverlay(repo, hdir string) (map[string][]byte, error) {
	ov := map[string][]byte{}
	err := filepath.Walk(hdir, func(path string, info os.FileInfo, err error) error {
		if err != nil || info.IsDir() || !strings.HasSuffix(path, ".go") {
			return err
		}
		rel, _ := filepath.Rel(hdir, path)
		if strings.HasPrefix(rel, "verifh/") {
			rel = "internal/" + rel
		}
		b, err := os.ReadFile(path)
		if err != nil {
			return err
		}
		ov[filepath.Join(repo, rel)] = b
		return nil
	})
	return ov, err
}
