// check: per-property driver. Loads /repo's current tree with the harness
// overlay, explores every registered harness with gosx, replays solver models
// natively, validates sampled passing paths natively (concolic validation),
// cross-checks deciding queries on other solvers and writes evidence.
package main

import (
	"bytes"
	"encoding/json"
	"flag"
	"fmt"
	"go/ast"
	"go/parser"
	"go/token"
	"os"
	"os/exec"
	"path/filepath"
	"regexp"
	"sort"
	"strconv"
	"strings"
	"time"

	"verif/gosx/interp"
)

const module = "github.com/mimiro-io/datahub"

type HarnessSpec struct {
	Pkg      string         `json:"pkg"`
	Func     string         `json:"func"`
	Quick    map[string]int `json:"quick"`    // params; absent = not in this tier
	Thorough map[string]int `json:"thorough"` // params
	MaxPaths int            `json:"max_paths"`
	MaxSteps int64          `json:"max_steps"` // instruction budget per path (0 = engine default)
	Desc     string         `json:"desc"`
	NoReplay bool           `json:"no_replay"` // harness has no native counterpart (engine-only observation)
}

type PropSpec struct {
	Harnesses   []HarnessSpec `json:"harnesses"`
	Assumptions []string      `json:"assumptions"`
	Bounds      []string      `json:"bounds"`
	Stubs       []string      `json:"stubs"`
}

type Finding struct {
	Property string `json:"property"`
	ID       string `json:"id"`
	Status   string `json:"status"` // known | fixed
	Commit   string `json:"commit,omitempty"`
	What     string `json:"what"`
}

type nativeResult struct {
	Record      string   `json:"record"`
	Func        string   `json:"func"`
	Failed      []string `json:"failed"`
	KnownFailed []string `json:"known_failed"`
	Observed    []string `json:"observed"`
	Rejected    string   `json:"rejected"`
	Panic       string   `json:"panic"`
	Crashed     string   `json:"crashed,omitempty"`
}

var (
	verifDir = "/verif"
	repoDir  = "/repo"
)

func main() {
	tier := flag.String("tier", os.Getenv("VERIF_TIER"), "quick|thorough")
	replay := flag.String("replay", "", "replay a recorded model natively")
	only := flag.String("only", "", "run only harnesses whose name contains this")
	workers := flag.Int("workers", 0, "")
	verbose := flag.Bool("v", false, "")
	flag.Parse()
	if v := os.Getenv("VERIF_DIR"); v != "" {
		verifDir = v
	}
	if v := os.Getenv("VERIF_REPO"); v != "" {
		repoDir = v
	}
	if *replay != "" {
		os.Exit(doReplay(*replay))
	}
	if flag.NArg() < 1 {
		fmt.Fprintln(os.Stderr, "usage: check <property-id> [--tier quick|thorough]")
		os.Exit(2)
	}
	if *tier == "" {
		*tier = "quick"
	}
	// flags may follow the id
	id := flag.Arg(0)
	rest := flag.Args()[1:]
	for i := 0; i < len(rest); i++ {
		switch rest[i] {
		case "--tier", "-tier":
			if i+1 < len(rest) {
				*tier = rest[i+1]
				i++
			}
		case "--only", "-only":
			if i+1 < len(rest) {
				*only = rest[i+1]
				i++
			}
		case "-v":
			*verbose = true
		}
	}
	os.Exit(runCheck(id, *tier, *only, *workers, *verbose))
}

func readJSON(path string, v interface{}) error {
	b, err := os.ReadFile(path)
	if err != nil {
		return err
	}
	return json.Unmarshal(b, v)
}

func buildOverlay() (map[string][]byte, map[string]string, error) {
	ov := map[string][]byte{}
	files := map[string]string{} // virtual → real
	hdir := filepath.Join(verifDir, "harness")
	err := filepath.Walk(hdir, func(path string, info os.FileInfo, err error) error {
		if err != nil || info.IsDir() || !strings.HasSuffix(path, ".go") {
			return err
		}
		rel, _ := filepath.Rel(hdir, path)
		if strings.HasPrefix(rel, "verifh/") {
			rel = "internal/" + rel
		}
		b, err := os.ReadFile(path)
		if err != nil {
			return err
		}
		ov[filepath.Join(repoDir, rel)] = b
		files[filepath.Join(repoDir, rel)] = path
		return nil
	})
	return ov, files, err
}

type evidence struct {
	PropertyID  string                 `json:"property_id"`
	Tier        string                 `json:"tier"`
	Seed        int                    `json:"seed"`
	Level       string                 `json:"level"`
	Coverage    map[string]interface{} `json:"coverage"`
	Assumptions []string               `json:"assumptions"`
	WallS       float64                `json:"wall_s"`
	Violations  int                    `json:"violations"`
}

func runCheck(id, tier, only string, workers int, verbose bool) int {
	t0 := time.Now()
	seed, _ := strconv.Atoi(os.Getenv("VERIF_SEED"))
	var reg map[string]PropSpec
	if err := readJSON(filepath.Join(verifDir, "checks.json"), &reg); err != nil {
		fmt.Fprintln(os.Stderr, "check: cannot read checks.json:", err)
		return 3
	}
	spec, ok := reg[id]
	if !ok {
		fmt.Fprintln(os.Stderr, "check: no harnesses registered for", id)
		return 3
	}
	var kf struct {
		Findings []Finding `json:"findings"`
	}
	_ = readJSON(filepath.Join(verifDir, "known_findings.json"), &kf)
	known := map[string]Finding{}
	for _, f := range kf.Findings {
		if f.Property == id && f.Status == "known" {
			known[f.ID] = f
		}
	}

	type job struct {
		h      HarnessSpec
		params map[string]int
	}
	var jobs []job
	pkgSet := map[string]bool{}
	for _, h := range spec.Harnesses {
		var params map[string]int
		if tier == "thorough" {
			params = h.Thorough
			if params == nil {
				params = h.Quick
			}
		} else {
			params = h.Quick
		}
		if params == nil {
			continue
		}
		if only != "" && !strings.Contains(h.Func, only) {
			continue
		}
		jobs = append(jobs, job{h, params})
		pkgSet[h.Pkg] = true
	}
	if len(jobs) == 0 {
		fmt.Fprintln(os.Stderr, "check: no harness selected")
		return 3
	}
	ov, files, err := buildOverlay()
	if err != nil {
		fmt.Fprintln(os.Stderr, "check:", err)
		return 3
	}
	var patterns []string
	for p := range pkgSet {
		patterns = append(patterns, "./"+p)
	}
	sort.Strings(patterns)
	pr, err := interp.Load(interp.LoadConfig{Dir: repoDir, Patterns: patterns, Overlay: ov, BuildTags: []string{"verif"}, InitPrefix: module})
	if err != nil {
		fmt.Fprintln(os.Stderr, "check: load failed (the tree does not compile with the harness overlay?):\n", err)
		return 3
	}
	fmt.Fprintf(os.Stderr, "[%s] loaded %d packages from %s in %v (SSA regenerated from the working tree)\n", id, pr.NumPackages(), repoDir, pr.LoadTime.Round(time.Millisecond))

	scratch, err := os.MkdirTemp("", "verif-check-")
	if err != nil {
		fmt.Fprintln(os.Stderr, "check:", err)
		return 3
	}
	defer os.RemoveAll(scratch)
	replayDir := filepath.Join(verifDir, "replay")
	os.MkdirAll(replayDir, 0o755)

	var (
		inconclusive   []string
		violLines      []string
		knownLines     []string
		knownSeen      = map[string]int{}
		totalStates    int64
		totalTrans     int64
		totalPaths     int
		validated      int
		samples        []interface{}
		funcs          = map[string]int64{}
		solver         interp.SolverStats
		perHarness     []map[string]interface{}
		crossQ, crossD int
		assertsTotal   int64
		vacuous        []string
	)
	natives := map[string]*nativeRunner{}
	getRunner := func(pkg string) *nativeRunner {
		if r, ok := natives[pkg]; ok {
			return r
		}
		r := newNativeRunner(pkg, files, scratch)
		natives[pkg] = r
		return r
	}
	nviol := 0
	for ji, j := range jobs {
		maxPaths := j.h.MaxPaths
		if maxPaths == 0 {
			maxPaths = 60000
		}
		stmo := 10000
		nsamples := 4
		if tier == "thorough" {
			stmo = 60000
			nsamples = 16
		}
		rep := pr.Run(module+"/"+j.h.Pkg, j.h.Func, interp.RunConfig{Workers: workers, MaxPaths: maxPaths, MaxSteps: j.h.MaxSteps, Samples: nsamples, Params: j.params, SolverTimeoutMS: stmo, KeepScripts: true})
		fmt.Fprintf(os.Stderr, "[%s] %s %v: paths=%d completed=%d infeasible=%d forks=%d asserts=%d violations=%d unsupported=%d unwind=%d errors=%d solver=%.1fs wall=%v\n",
			id, j.h.Func, j.params, rep.Paths, rep.Completed, rep.Infeasible, rep.Forks, rep.Asserts, len(rep.Violations), rep.Unsupported, rep.Unwind, rep.EngineErrors, float64(rep.Solver.TimeNS)/1e9, rep.Wall.Round(time.Millisecond))
		totalPaths += rep.Paths
		totalStates += rep.Decisions + int64(rep.Paths)
		totalTrans += rep.Decisions + rep.Forks
		assertsTotal += rep.Asserts
		solver.Feasibility += rep.Solver.Feasibility
		solver.Deciding += rep.Solver.Deciding
		solver.Sat += rep.Solver.Sat
		solver.Unsat += rep.Solver.Unsat
		solver.Unknown += rep.Solver.Unknown
		solver.Errors += rep.Solver.Errors
		solver.TimeNS += rep.Solver.TimeNS
		for f, n := range rep.Funcs {
			funcs[f] += n
		}
		for _, m := range rep.Inconclusive {
			inconclusive = append(inconclusive, j.h.Func+": "+m)
		}
		if rep.Truncated {
			inconclusive = append(inconclusive, fmt.Sprintf("%s: exploration truncated at %d paths (bound too large for the budget)", j.h.Func, rep.Paths))
		}
		if rep.Solver.Unknown > 0 || rep.Solver.Errors > 0 {
			// unknown feasibility answers keep both branches (sound); unknown deciding answers were already turned into unsupported paths
			if verbose {
				fmt.Fprintf(os.Stderr, "[%s] %s: solver unknown=%d errors=%d\n", id, j.h.Func, rep.Solver.Unknown, rep.Solver.Errors)
			}
		}
		if rep.Asserts == 0 || rep.Completed == 0 && len(rep.Violations) == 0 {
			vacuous = append(vacuous, j.h.Func)
		}
		hinfo := map[string]interface{}{"harness": j.h.Func, "pkg": j.h.Pkg, "params": j.params, "paths": rep.Paths, "completed": rep.Completed, "infeasible": rep.Infeasible, "asserts_reached": rep.Asserts, "violations": len(rep.Violations), "wall_s": rep.Wall.Seconds(), "desc": j.h.Desc}
		perHarness = append(perHarness, hinfo)

		// ---- violations: replay natively, classify
		type group struct {
			key   string
			first interp.Violation
			n     int
		}
		groups := map[string]*group{}
		var gorder []string
		for _, v := range rep.Violations {
			k := v.Kind + "|" + msgClass(v.Msg) + "|" + strings.Join(v.Known, ",")
			g, ok := groups[k]
			if !ok {
				g = &group{key: k, first: v}
				groups[k] = g
				gorder = append(gorder, k)
			}
			g.n++
		}
		for gi, k := range gorder {
			g := groups[k]
			v := g.first
			nviol++
			rec := map[string]interface{}{"harness": j.h.Func, "pkg": j.h.Pkg, "func": j.h.Func, "params": j.params, "model": v.Model, "order": v.Order, "kind": v.Kind, "msg": v.Msg, "notes": v.Notes, "property": id, "pos": v.Pos, "known": v.Known}
			recPath := filepath.Join(replayDir, fmt.Sprintf("%s-%s-%d-%d.json", id, j.h.Func, ji, gi))
			b, _ := json.MarshalIndent(rec, "", " ")
			os.WriteFile(recPath, b, 0o644)
			os.WriteFile(strings.TrimSuffix(recPath, ".json")+".smt2", []byte(v.Script), 0o644)
			reproduced := false
			detail := ""
			if j.h.NoReplay {
				reproduced = true
				detail = "(engine-only harness: not replayed)"
			} else {
				res := getRunner(j.h.Pkg).run([]string{recPath})
				// replays of recorded schedules and timer firings pause real goroutines for fixed
				// times: on a loaded machine a pause can be too short. A run that passed is
				// repeated (three times at most) with pauses three, three and ten times as long before the model is
				// declared non-reproducing
				for attempt := 0; attempt < 3 && len(res) == 1 && res[0].Crashed == "" && (res[0].Panic == "" || res[0].Panic == "<nil>") && len(res[0].Failed) == 0 && len(res[0].KnownFailed) == 0 && res[0].Rejected == ""; attempt++ {
					// 3x, 3x, then 10x longer pauses
					os.Setenv("VERIF_SLOW", []string{"3", "3", "10"}[attempt])
					res = getRunner(j.h.Pkg).run([]string{recPath})
					os.Unsetenv("VERIF_SLOW")
				}
				if len(res) == 1 {
					r := res[0]
					switch {
					case r.Crashed != "":
						reproduced = v.Kind == "panic" || v.Kind == "deadlock"
						detail = "native run crashed: " + firstLine(r.Crashed)
					case r.Panic != "" && r.Panic != "<nil>":
						reproduced = true
						detail = "native panic: " + r.Panic
					case len(r.Failed) > 0:
						// (a later rejection for draws the aborted symbolic path never made is expected)
						reproduced = true
						detail = "native assertion failed: " + strings.Join(r.Failed, "; ")
					case len(v.Known) > 0 && len(r.KnownFailed) > 0:
						reproduced = true
						detail = "native assertion failed (known-finding class): " + strings.Join(r.KnownFailed, "; ")
					case r.Rejected != "":
						detail = "native run rejected the model: " + r.Rejected
					default:
						detail = "native run passed"
					}
				} else {
					detail = "native replay could not be run"
				}
			}
			var kid string
			for _, kn := range v.Known {
				if _, ok := known[kn]; ok {
					kid = kn
				}
			}
			switch {
			case !reproduced:
				inconclusive = append(inconclusive, fmt.Sprintf("%s: solver model for %q does not reproduce natively (%s) — engine/stub discrepancy, record %s", j.h.Func, v.Msg, detail, recPath))
			case kid != "":
				knownSeen[kid]++
				knownLines = append(knownLines, fmt.Sprintf("KNOWN-FINDING: property=%s %s: %s [%s: %s; %s; replay=%s]", id, kid, known[kid].What, j.h.Func, v.Msg, detail, recPath))
			default:
				violLines = append(violLines, fmt.Sprintf("VIOLATION property=%s replay=%s", id, recPath))
				fmt.Fprintf(os.Stderr, "[%s] violation in %s: %s (%s) x%d; %s\n", id, j.h.Func, v.Msg, v.Kind, g.n, detail)
			}
			if len(samples) < 12 {
				samples = append(samples, map[string]interface{}{"harness": j.h.Func, "kind": "counterexample", "msg": v.Msg, "model": v.Model, "native": detail})
			}
		}

		// ---- concolic validation of sampled passing paths
		if !j.h.NoReplay && len(rep.Samples) > 0 {
			var recs []string
			for si, s := range rep.Samples {
				rec := map[string]interface{}{"harness": j.h.Func, "pkg": j.h.Pkg, "func": j.h.Func, "params": j.params, "model": s.Model, "order": s.Order, "kind": "sample", "notes": s.Notes}
				recPath := filepath.Join(scratch, fmt.Sprintf("%s-%s-%d-s%d.json", id, j.h.Func, ji, si))
				b, _ := json.Marshal(rec)
				os.WriteFile(recPath, b, 0o644)
				recs = append(recs, recPath)
			}
			res := getRunner(j.h.Pkg).run(recs)
			for si, r := range res {
				s := rep.Samples[si]
				okv := r.Crashed == "" && r.Rejected == "" && (r.Panic == "" || r.Panic == "<nil>") && len(r.Failed) == 0
				pred := append([]string{}, s.Observed...)
				got := append([]string{}, r.Observed...)
				hasSchedule := false
				for _, n := range s.Notes {
					if strings.HasPrefix(n, "preempt at point:") || strings.Contains(n, "timer") {
						hasSchedule = true
					}
				}
				if !(okv && strings.Join(pred, ";") == strings.Join(got, ";")) && hasSchedule {
					// the sample has a recorded schedule or timer firing, replayed natively with fixed
					// pauses: on a loaded machine a pause can be too short for the goroutine that is
					// meant to run meanwhile. Repeat with pauses three and ten times as long.
					for _, slow := range []string{"3", "10"} {
						os.Setenv("VERIF_SLOW", slow)
						r2 := getRunner(j.h.Pkg).run([]string{recs[si]})
						os.Unsetenv("VERIF_SLOW")
						if len(r2) == 1 {
							r = r2[0]
							okv = r.Crashed == "" && r.Rejected == "" && (r.Panic == "" || r.Panic == "<nil>") && len(r.Failed) == 0
							got = append([]string{}, r.Observed...)
							if okv && strings.Join(pred, ";") == strings.Join(got, ";") {
								break
							}
						}
					}
				}
				if okv && strings.Join(pred, ";") == strings.Join(got, ";") {
					validated++
				} else {
					// a passing symbolic path whose model fails natively may be a violation the
					// engine missed, or a modelling error: never silently accepted
					inconclusive = append(inconclusive, fmt.Sprintf("%s: concolic validation mismatch on sample %d: predicted %v, native %v failed=%v panic=%q rejected=%q crashed=%q", j.h.Func, si, pred, got, r.Failed, r.Panic, r.Rejected, firstLine(r.Crashed)))
				}
				if len(samples) < 12 {
					samples = append(samples, map[string]interface{}{"harness": j.h.Func, "kind": "passing-path", "model": s.Model, "observed": s.Observed})
				}
			}
			if len(res) != len(rep.Samples) {
				inconclusive = append(inconclusive, j.h.Func+": native validation run failed")
			}
		} else {
			for _, s := range rep.Samples {
				if len(samples) < 12 {
					samples = append(samples, map[string]interface{}{"harness": j.h.Func, "kind": "passing-path", "model": s.Model, "observed": s.Observed})
				}
			}
		}

		// ---- cross-solver agreement on deciding queries
		nq := 2
		if tier == "thorough" {
			nq = 8
		}
		for qi, sc := range rep.Scripts {
			if qi >= nq {
				break
			}
			q, d := crossCheck(sc, "unsat", scratch)
			crossQ += q
			crossD += d
		}
		for _, v := range rep.Violations {
			if v.Script != "" {
				q, d := crossCheck(v.Script, "sat", scratch)
				crossQ += q
				crossD += d
				break
			}
		}
	}
	if crossD > 0 {
		inconclusive = append(inconclusive, fmt.Sprintf("solver disagreement on %d of %d cross-checked queries", crossD, crossQ))
	}
	for _, v := range vacuous {
		inconclusive = append(inconclusive, v+": vacuous (no assertion reached)")
	}

	// known findings that were expected but not seen are reported, not failed
	for kid, f := range known {
		if knownSeen[kid] == 0 {
			fmt.Fprintf(os.Stderr, "[%s] note: known finding %s (%s) was not observed in this run\n", id, kid, f.What)
		}
	}

	// ---- output
	for _, l := range knownLines {
		fmt.Println(l)
	}
	for _, l := range violLines {
		fmt.Println(l)
	}
	// at most 3 lines per class (text before " @ " / " :: "), the rest is counted
	incClass := map[string]int{}
	for _, l := range inconclusive {
		cl := l
		for _, sep := range []string{" @ ", " :: "} {
			if k := strings.Index(cl, sep); k >= 0 {
				cl = cl[:k]
			}
		}
		incClass[cl]++
		if incClass[cl] <= 3 {
			fmt.Fprintln(os.Stderr, "INCONCLUSIVE:", l)
		}
	}
	for cl, n := range incClass {
		if n > 3 {
			fmt.Fprintf(os.Stderr, "INCONCLUSIVE: ... %d more of class %q\n", n-3, cl)
		}
	}

	type fe struct {
		Name  string `json:"fn"`
		Calls int64  `json:"calls"`
	}
	var fl []fe
	for f, n := range funcs {
		if strings.Contains(f, module) && !strings.Contains(f, "verifh") && !harnessFn.MatchString(f) {
			fl = append(fl, fe{strings.ReplaceAll(f, module+"/", ""), n})
		}
	}
	sort.Slice(fl, func(a, b int) bool {
		return fl[a].Calls > fl[b].Calls || fl[a].Calls == fl[b].Calls && fl[a].Name < fl[b].Name
	})
	if len(samples) == 0 {
		samples = append(samples, map[string]interface{}{"note": "no completed path"})
	}
	if totalStates < 1 {
		totalStates = 1
	}
	if totalTrans < 1 {
		totalTrans = 1
	}
	ev := evidence{PropertyID: id, Tier: tier, Seed: seed, Level: "model_checking", WallS: time.Since(t0).Seconds(), Violations: len(violLines), Assumptions: append(append([]string{}, spec.Assumptions...), spec.Stubs...)}
	ev.Coverage = map[string]interface{}{
		"states":                        totalStates,
		"transitions":                   totalTrans,
		"traces_validated_against_impl": validated,
		"samples":                       samples,
		"paths":                         totalPaths,
		"assertions_reached":            assertsTotal,
		"harnesses":                     perHarness,
		"functions_encoded":             fl,
		"functions_encoded_count":       len(fl),
		"bounds":                        spec.Bounds,
		"queries":                       map[string]int64{"feasibility": solver.Feasibility, "deciding": solver.Deciding, "sat": solver.Sat, "unsat": solver.Unsat, "unknown": solver.Unknown, "errors": solver.Errors},
		"solver_time_s":                 float64(solver.TimeNS) / 1e9,
		"solver":                        "z3 4.8.12 (/usr/bin/z3 -in), one process per worker",
		"cross_solver":                  map[string]int{"queries": crossQ, "disagreements": crossD},
		"known_findings_seen":           knownSeen,
		"inconclusive":                  inconclusive,
		"explanation":                   "bounded symbolic execution of the real code (go/ssa of /repo's working tree) with an SMT solver deciding every assertion; states = execution-tree nodes, transitions = feasible branch edges",
		"exhaustive":                    false,
	}
	// stated bounds: the per-harness parameters of this tier plus the engine limits
	var bounds []string
	bounds = append(bounds, spec.Bounds...)
	for _, hsp := range spec.Harnesses {
		params := hsp.Quick
		if tier == "thorough" {
			params = hsp.Thorough
		}
		if params == nil {
			continue
		}
		if only != "" && !strings.Contains(hsp.Func, only) {
			continue
		}
		pj, _ := json.Marshal(params)
		mp := hsp.MaxPaths
		if mp == 0 {
			mp = 60000
		}
		bounds = append(bounds, fmt.Sprintf("%s %s (path budget %d; exceeding it is reported as inconclusive)", hsp.Func, pj, mp))
	}
	bounds = append(bounds, "engine limits: call depth 400 (deeper = reported as stack overflow of the target), instruction budget per path, <= 80 alternatives when a symbolic index is concretised, solver timeout per query; any limit hit is reported as inconclusive (exit 3), never as success")
	ev.Coverage["bounds"] = bounds
	ev.Assumptions = append(ev.Assumptions,
		"Badger is modelled (sorted versioned entries, snapshot reads + own writes, atomic durable commit, DetectConflicts=false, iterator semantics of v4.2.0, Sequence, Backup); every counterexample and 4+ sampled passing paths per harness are replayed against the real Badger",
		"encoding/json is modelled; symbolic string bytes are assumed printable ASCII that needs no escape",
		"clock: each time.Now() advances 1 microsecond; timers fire only under FireTimer or when every thread is blocked",
		"goroutines: one interpreter thread runs at a time; switches happen at verifhook.Point boundaries, at Lock/RLock calls when the harness enables them, and at blocking operations, within the preemption bound",
		"process death happens at verifhook.Point boundaries; a Badger commit is atomic and durable once it returned",
		"stubs: zap, statsd and the event bus return zero values; cron registration is recorded, not fired; jwt.ParseWithClaims obeys its documented contract for the token shape the harness supplies",
	)
	// evidence describes /repo itself: runs against another tree (a scratch worktree with a seeded
	// change, a snapshot) or with VERIF_EVIDENCE_DIR set write it elsewhere
	evDir := filepath.Join(verifDir, "evidence")
	if v := os.Getenv("VERIF_EVIDENCE_DIR"); v != "" {
		evDir = v
	} else if repoDir != "/repo" {
		evDir = filepath.Join(os.TempDir(), "verif-evidence-scratch")
	}
	os.MkdirAll(evDir, 0o755)
	b, _ := json.MarshalIndent(ev, "", " ")
	if err := os.WriteFile(filepath.Join(evDir, id+".json"), b, 0o644); err != nil {
		fmt.Fprintln(os.Stderr, "check: cannot write evidence:", err)
		return 3
	}
	if only == "" {
		// the last complete run of each tier is kept as well
		_ = os.WriteFile(filepath.Join(evDir, id+"."+tier+".json"), b, 0o644)
	}
	fmt.Fprintf(os.Stderr, "[%s] tier=%s paths=%d states=%d validated=%d known=%d violations=%d inconclusive=%d wall=%.1fs\n", id, tier, totalPaths, totalStates, validated, len(knownLines), len(violLines), len(inconclusive), time.Since(t0).Seconds())
	if len(violLines) > 0 {
		return 1
	}
	if len(inconclusive) > 0 {
		return 3
	}
	return 0
}

// msgClass is the part of an assertion message before " :: " (the rest is
// per-instance detail).
func msgClass(m string) string {
	if k := strings.Index(m, " :: "); k >= 0 {
		return m[:k]
	}
	return m
}

func firstLine(s string) string {
	s = strings.TrimSpace(s)
	if k := strings.Index(s, "\n"); k >= 0 {
		s = s[:k]
	}
	if len(s) > 300 {
		s = s[:300]
	}
	return s
}

// crossCheck runs a standalone script on z3-new and cvc5; returns (queries, disagreements).
func crossCheck(script, expect, scratch string) (int, int) {
	f := filepath.Join(scratch, fmt.Sprintf("q%d.smt2", time.Now().UnixNano()))
	os.WriteFile(f, []byte("(set-logic ALL)\n"+script), 0o644)
	defer os.Remove(f)
	q, d := 0, 0
	for _, cmd := range [][]string{{"z3-new", "-T:60", f}, {"cvc5", "--tlimit=60000", f}} {
		if _, err := exec.LookPath(cmd[0]); err != nil {
			continue
		}
		out, _ := exec.Command(cmd[0], cmd[1:]...).CombinedOutput()
		ans := strings.TrimSpace(string(out))
		if k := strings.Index(ans, "\n"); k >= 0 {
			ans = ans[:k]
		}
		if ans != "sat" && ans != "unsat" {
			continue // unknown/timeout/unsupported by that back end: not counted
		}
		q++
		if ans != expect {
			d++
		}
	}
	return q, d
}

// ---- native replay

type nativeRunner struct {
	pkg     string
	bin     string
	err     string
	scratch string
}

var funcRe = regexp.MustCompile(`(?m)^func (Verif\w+)\(h \*verifh\.H\) \{`)
var pkgRe = regexp.MustCompile(`(?m)^package (\w+)`)

func newNativeRunner(pkg string, files map[string]string, scratch string) *nativeRunner {
	r := &nativeRunner{pkg: pkg, scratch: scratch}
	dir := filepath.Join(repoDir, pkg)
	var fnames []string
	pkgName := ""
	for virt, real := range files {
		if filepath.Dir(virt) != dir {
			continue
		}
		b, _ := os.ReadFile(real)
		if m := pkgRe.FindSubmatch(b); m != nil {
			pkgName = string(m[1])
		}
		for _, m := range funcRe.FindAllSubmatch(b, -1) {
			fnames = append(fnames, string(m[1]))
		}
	}
	sort.Strings(fnames)
	var sb strings.Builder
	sb.WriteString("//go:build verif\n\npackage " + pkgName + "\n\nimport (\n\t\"encoding/json\"\n\t\"fmt\"\n\t\"os\"\n\t\"strings\"\n\t\"testing\"\n\n\t\"" + module + "/internal/verifh\"\n)\n\n")
	sb.WriteString("var verifFuncs = map[string]func(*verifh.H){\n")
	for _, f := range fnames {
		fmt.Fprintf(&sb, "\t%q: %s,\n", f, f)
	}
	sb.WriteString("}\n\n")
	sb.WriteString(`func TestVerifReplay(t *testing.T) {
	for _, rec := range strings.Split(os.Getenv("VERIF_REPLAY"), ",") {
		if rec == "" {
			continue
		}
		h, r, err := verifh.NewReplay(rec)
		out := map[string]interface{}{"record": rec}
		if err != nil {
			out["rejected"] = err.Error()
		} else {
			out["func"] = r.Func
			f := verifFuncs[r.Func]
			if f == nil {
				out["rejected"] = "no such harness " + r.Func
			} else {
				pan := h.Run(f)
				h.Cleanup()
				out["failed"] = h.Failed
				out["known_failed"] = h.KnownFailed
				out["observed"] = h.Observed
				out["rejected"] = h.Rejected
				if pan != nil {
					out["panic"] = fmt.Sprint(pan)
				}
			}
		}
		b, _ := json.Marshal(out)
		fmt.Println("VERIF-RESULT " + string(b))
	}
}
`)
	testFile := filepath.Join(scratch, strings.ReplaceAll(pkg, "/", "_")+"_replay_test.go")
	os.WriteFile(testFile, []byte(sb.String()), 0o644)
	repl := map[string]string{}
	for virt, real := range files {
		repl[virt] = real
	}
	repl[filepath.Join(dir, "zz_verif_replay_test.go")] = testFile
	for virt, real := range instrumentLocks(scratch) {
		if _, isHarness := repl[virt]; !isHarness {
			repl[virt] = real
		}
	}
	ovb, _ := json.Marshal(map[string]interface{}{"Replace": repl})
	ovFile := filepath.Join(scratch, strings.ReplaceAll(pkg, "/", "_")+"_overlay.json")
	os.WriteFile(ovFile, ovb, 0o644)
	r.bin = filepath.Join(scratch, strings.ReplaceAll(pkg, "/", "_")+".test")
	cmd := exec.Command("go", "test", "-c", "-vet=off", "-tags", "verif", "-overlay", ovFile, "-o", r.bin, "./"+pkg)
	cmd.Dir = repoDir
	cmd.Env = append(os.Environ(), "GOFLAGS=-mod=mod", "GOPROXY=off", "GOSUMDB=off", "GOTOOLCHAIN=local")
	out, err := cmd.CombinedOutput()
	if err != nil {
		r.err = string(out)
		fmt.Fprintln(os.Stderr, "native replay build failed:\n"+r.err)
	}
	return r
}

func (r *nativeRunner) runOnce(recs []string) ([]nativeResult, string) {
	cmd := exec.Command(r.bin, "-test.run", "^TestVerifReplay$", "-test.count=1", "-test.timeout", "120s")
	cmd.Env = append(os.Environ(), "VERIF_REPLAY="+strings.Join(recs, ","))
	cmd.Dir = r.scratch
	var out bytes.Buffer
	cmd.Stdout = &out
	cmd.Stderr = &out
	_ = cmd.Run()
	var res []nativeResult
	for _, l := range strings.Split(out.String(), "\n") {
		if strings.HasPrefix(l, "VERIF-RESULT ") {
			var nr nativeResult
			if json.Unmarshal([]byte(strings.TrimPrefix(l, "VERIF-RESULT ")), &nr) == nil {
				res = append(res, nr)
			}
		}
	}
	return res, out.String()
}

// run executes the records natively; a crash of the test binary is
// attributed to the record that was running.
func (r *nativeRunner) run(recs []string) []nativeResult {
	if r.err != "" {
		return nil
	}
	res, out := r.runOnce(recs)
	if len(res) == len(recs) {
		return res
	}
	// crashed in the middle: run one by one
	var all []nativeResult
	for _, rec := range recs {
		one, o := r.runOnce([]string{rec})
		if len(one) == 1 {
			all = append(all, one[0])
		} else {
			all = append(all, nativeResult{Record: rec, Crashed: crashSummary(o)})
		}
	}
	_ = out
	return all
}

func crashSummary(out string) string {
	for _, l := range strings.Split(out, "\n") {
		if strings.HasPrefix(l, "panic:") || strings.HasPrefix(l, "fatal error:") {
			return l
		}
	}
	if len(out) > 400 {
		out = out[len(out)-400:]
	}
	return "no result line; tail: " + out
}

func doReplay(path string) int {
	if abs, err := filepath.Abs(path); err == nil {
		path = abs
	}
	var rec struct {
		Pkg      string `json:"pkg"`
		Func     string `json:"func"`
		Property string `json:"property"`
		Msg      string `json:"msg"`
	}
	if err := readJSON(path, &rec); err != nil {
		fmt.Fprintln(os.Stderr, "replay:", err)
		return 2
	}
	_, files, err := buildOverlay()
	if err != nil {
		fmt.Fprintln(os.Stderr, "replay:", err)
		return 2
	}
	scratch, _ := os.MkdirTemp("", "verif-replay-")
	defer os.RemoveAll(scratch)
	r := newNativeRunner(rec.Pkg, files, scratch)
	res := r.run([]string{path})
	if len(res) != 1 {
		fmt.Println("replay could not be run")
		return 2
	}
	b, _ := json.MarshalIndent(res[0], "", " ")
	fmt.Println(string(b))
	x := res[0]
	if x.Crashed != "" || (x.Panic != "" && x.Panic != "<nil>") || len(x.Failed) > 0 {
		fmt.Printf("REPRODUCED property=%s harness=%s: %s\n", rec.Property, rec.Func, rec.Msg)
		return 1
	}
	if x.Rejected != "" {
		fmt.Println("model rejected by the harness:", x.Rejected)
		return 2
	}
	fmt.Println("not reproduced (native run passed)")
	return 0
}

// instrumentLocks prepares, for the native replay build only, copies of the
// /repo source files in which every statement `x.Lock()` / `x.RLock()` is
// preceded — on the same line, so line numbers are unchanged — by
// verifhook.Point("lock:<file>:<line>"). The engine names its lock scheduling
// points the same way (h.SymbolicLocks), so a recorded preemption before a
// lock acquisition can be replayed by pausing the real goroutine there. The
// copies are regenerated from the working tree on every run.
var instrOnce struct {
	done bool
	m    map[string]string
}

// harnessFn matches functions and types that belong to the harness files (VerifXxx entry points,
// vXxx helpers, mXxx reference-model code), which are not "functions of the code under test".
var harnessFn = regexp.MustCompile(`[.(*](Verif|v[A-Z]|m[A-Z])[A-Za-z0-9]*[).$]|\.(Verif|v[A-Z]|m[A-Z])[A-Za-z0-9]*$`)

func instrumentLocks(scratch string) map[string]string {
	if instrOnce.done {
		return instrOnce.m
	}
	instrOnce.done = true
	instrOnce.m = map[string]string{}
	root := filepath.Join(repoDir, "internal")
	outDir := filepath.Join(scratch, "lockinstr")
	_ = filepath.Walk(root, func(path string, info os.FileInfo, err error) error {
		if err != nil || info.IsDir() || !strings.HasSuffix(path, ".go") || strings.HasSuffix(path, "_test.go") {
			return nil
		}
		if strings.Contains(path, "/verifhook/") || strings.Contains(path, "/verifh/") || strings.Contains(filepath.Base(path), "zz_verif") {
			return nil
		}
		src, err := os.ReadFile(path)
		if err != nil || !(bytes.Contains(src, []byte(".Lock()")) || bytes.Contains(src, []byte(".RLock()")) ||
			bytes.Contains(src, []byte(".View(")) || bytes.Contains(src, []byte(".Update(")) || bytes.Contains(src, []byte(".NewTransaction(")) || bytes.Contains(src, []byte(".Commit()")) || bytes.Contains(src, []byte(".Backup(")) || bytes.Contains(src, []byte(".MaxVersion()"))) {
			return nil
		}
		fset := token.NewFileSet()
		f, err := parser.ParseFile(fset, path, src, parser.ParseComments)
		if err != nil {
			return nil
		}
		type ins struct {
			off  int
			text string
		}
		var edits []ins
		ast.Inspect(f, func(n ast.Node) bool {
			var list []ast.Stmt
			switch b := n.(type) {
			case *ast.BlockStmt:
				list = b.List
			case *ast.CaseClause:
				list = b.Body
			case *ast.CommClause:
				list = b.Body
			}
			for _, st := range list {
				// transaction starts: a statement whose top-level call is x.View(..) / x.Update(..)
				// / x.NewTransaction(..) (expression, assignment, definition or return)
				var top ast.Expr
				switch t := st.(type) {
				case *ast.ExprStmt:
					top = t.X
				case *ast.AssignStmt:
					if len(t.Rhs) == 1 {
						top = t.Rhs[0]
					}
				case *ast.ReturnStmt:
					if len(t.Results) == 1 {
						top = t.Results[0]
					}
				case *ast.IfStmt:
					// if err := x.Update(..); err != nil { .. }: the call in the init statement
					switch it := t.Init.(type) {
					case *ast.AssignStmt:
						if len(it.Rhs) == 1 {
							top = it.Rhs[0]
						}
					case *ast.ExprStmt:
						top = it.X
					}
				}
				if tc, ok := top.(*ast.CallExpr); ok {
					if sel, ok := tc.Fun.(*ast.SelectorExpr); ok && (sel.Sel.Name == "View" || sel.Sel.Name == "Update" || sel.Sel.Name == "NewTransaction" || sel.Sel.Name == "Backup" || sel.Sel.Name == "MaxVersion") {
						line := fset.Position(tc.Lparen).Line
						text := fmt.Sprintf("verifhook.Point(%q); ", fmt.Sprintf("txn:%s:%d", filepath.Base(path), line))
						if sel.Sel.Name == "Update" {
							// an Update commits when its closure returns: crash candidate before it
							text += fmt.Sprintf("verifhook.Point(%q); ", fmt.Sprintf("commit:%s:%d", filepath.Base(path), line))
							// and the start of its closure (snapshot taken, not yet committed) is where another
							// client's commit can land: a scheduling point of its own
							if len(tc.Args) == 1 {
								if fl, ok := tc.Args[0].(*ast.FuncLit); ok && fl.Body != nil {
									edits = append(edits, ins{fset.Position(fl.Body.Lbrace).Offset + 1, fmt.Sprintf(" verifhook.Point(%q); ", fmt.Sprintf("txnbody:%s:%d", filepath.Base(path), line))})
								}
							}
						}
						edits = append(edits, ins{fset.Position(st.Pos()).Offset, text})
						continue
					}
					if sel, ok := tc.Fun.(*ast.SelectorExpr); ok && sel.Sel.Name == "Commit" && len(tc.Args) == 0 {
						line := fset.Position(tc.Lparen).Line
						edits = append(edits, ins{fset.Position(st.Pos()).Offset, fmt.Sprintf("verifhook.Point(%q); ", fmt.Sprintf("commit:%s:%d", filepath.Base(path), line))})
						continue
					}
				}
				es, ok := st.(*ast.ExprStmt)
				if !ok {
					continue
				}
				call, ok := es.X.(*ast.CallExpr)
				if !ok || len(call.Args) != 0 {
					continue
				}
				sel, ok := call.Fun.(*ast.SelectorExpr)
				if !ok || (sel.Sel.Name != "Lock" && sel.Sel.Name != "RLock") {
					continue
				}
				line := fset.Position(call.Lparen).Line
				edits = append(edits, ins{fset.Position(es.Pos()).Offset, fmt.Sprintf("verifhook.Point(%q); ", fmt.Sprintf("lock:%s:%d", filepath.Base(path), line))})
			}
			return true
		})
		if len(edits) == 0 {
			return nil
		}
		hasImport := false
		for _, im := range f.Imports {
			if strings.Trim(im.Path.Value, "\"") == module+"/internal/verifhook" {
				hasImport = true
			}
		}
		if !hasImport {
			// same line as the package clause: line numbers stay as they are
			edits = append(edits, ins{fset.Position(f.Name.End()).Offset, "; import verifhook \"" + module + "/internal/verifhook\""})
		}
		sort.Slice(edits, func(i, j int) bool { return edits[i].off > edits[j].off })
		out := append([]byte(nil), src...)
		for _, e := range edits {
			out = append(out[:e.off], append([]byte(e.text), out[e.off:]...)...)
		}
		rel, _ := filepath.Rel(repoDir, path)
		dst := filepath.Join(outDir, rel)
		_ = os.MkdirAll(filepath.Dir(dst), 0o755)
		if os.WriteFile(dst, out, 0o644) == nil {
			instrOnce.m[path] = dst
		}
		return nil
	})
	return instrOnce.m
}
