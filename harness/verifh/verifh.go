// Package verifh is the harness API shared by symbolic execution (gosx) and
// native replay. Under gosx every method of *H is intercepted by name and the
// Go bodies below are never executed; natively they take their values from a
// replay record (a solver model written by gosx) and check assertions for
// real. The package is injected into the module as an overlay
// (internal/verifh); it is not part of /repo.
package verifh

import (
	"encoding/json"
	"fmt"
	"net/http"
	"net/http/httptest"
	"os"
	"os/exec"
	"runtime"
	"sort"
	"strconv"
	"strings"
	"sync"
	"time"

	"github.com/dgraph-io/badger/v4"

	"github.com/mimiro-io/datahub/internal/verifhook"
)

type H struct {
	vals   map[string]uint64
	params map[string]int
	counts map[string]int
	Failed []string
	// KnownFailed: assertions that failed while tagged by Known (reported as
	// KNOWN-FINDING by the driver when the id is listed, never as a pass)
	KnownFailed  []string
	pendingKnown string
	Observed     []string
	Rejected     string
	tmp          string
	recPath      string
	wg           sync.WaitGroup
	hints        map[string]int
	// schedule replay: which engine thread each recorded preemption held (boundary#hit -> thread
	// ids), which engine thread the k-th h.Go call started, and when each thread first ran in the
	// recorded schedule (after how many preemptions, after which threads had finished)
	hintThreads map[string][]int
	goThread    map[int]int
	gates       map[int]schedGate
	schedMu     sync.Mutex
	goCalls     int
	gThread     map[string]int // goroutine id -> engine thread
	allThreads  []int          // engine threads in spawn order
	paused      int            // recorded preemptions that have been applied so far
	finished    map[int]chan struct{}
	// crash replay
	windowOpen     bool
	hits           int
	crashAt        int
	acked          bool
	crashCommits   bool
	failedFile     string
	remoteServers  []*httptest.Server
	remoteRequests []string
	remoteLog      []string
	baseGoroutines int
}

type schedGate struct {
	preemptions int
	finished    []int
}

type Record struct {
	Harness string            `json:"harness"`
	Pkg     string            `json:"pkg"`
	Func    string            `json:"func"`
	Params  map[string]int    `json:"params"`
	Model   map[string]uint64 `json:"model"`
	Order   []string          `json:"order"`
	Kind    string            `json:"kind"`
	Msg     string            `json:"msg"`
	Notes   []string          `json:"notes"`
}

func NewReplay(path string) (*H, *Record, error) {
	b, err := os.ReadFile(path)
	if err != nil {
		return nil, nil, err
	}
	r := &Record{}
	if err := json.Unmarshal(b, r); err != nil {
		return nil, nil, err
	}
	h := &H{vals: r.Model, params: r.Params, counts: map[string]int{}, recPath: path, crashAt: -1, hints: map[string]int{},
		hintThreads: map[string][]int{}, goThread: map[int]int{}, gates: map[int]schedGate{}, gThread: map[string]int{}, finished: map[int]chan struct{}{}}
	for _, n := range r.Notes {
		// "preempt at point:NAME: thread a -> b"
		if strings.HasPrefix(n, "preempt at point:") {
			rest := strings.TrimPrefix(n, "preempt at point:")
			if k := strings.Index(rest, ": thread"); k > 0 {
				h.hints[rest[:k]]++
				var a, b int
				if _, err := fmt.Sscanf(rest[k:], ": thread %d -> %d", &a, &b); err == nil {
					h.hintThreads[rest[:k]] = append(h.hintThreads[rest[:k]], a)
				}
			}
		}
		var k, t, np int
		if _, err := fmt.Sscanf(n, "thread %d spawned by thread %d", &t, &k); err == nil {
			h.allThreads = append(h.allThreads, t)
		}
		if _, err := fmt.Sscanf(n, "harness goroutine %d is thread %d", &k, &t); err == nil {
			h.goThread[k] = t
		}
		if _, err := fmt.Sscanf(n, "thread %d starts after %d preemptions;", &t, &np); err == nil {
			g := schedGate{preemptions: np}
			if i := strings.Index(n, "finished: "); i >= 0 {
				for _, f := range strings.Split(n[i+len("finished: "):], ",") {
					if v, err := strconv.Atoi(strings.TrimSpace(f)); err == nil {
						g.finished = append(g.finished, v)
					}
				}
			}
			h.gates[t] = g
		}
	}
	return h, r, nil
}

func NewFromModel(m map[string]uint64) *H { return &H{vals: m, counts: map[string]int{}} }

type rejected struct{ why string }

func (h *H) key(name string) string {
	n := h.counts[name]
	h.counts[name] = n + 1
	if n == 0 {
		return name
	}
	return fmt.Sprintf("%s#%d", name, n)
}

func (h *H) draw(name string) uint64 {
	k := h.key(name)
	v, ok := h.vals[k]
	if !ok {
		panic(rejected{"replay record has no value for draw " + k})
	}
	return v
}

// Param returns a bound configured per tier by the check driver.
func (h *H) Param(name string, def int) int {
	if v, ok := h.params[name]; ok {
		return v
	}
	return def
}

// Known marks the paths on which cond holds as belonging to the known
// finding id for exactly the next Assert: a violation of that assertion on
// such a path is printed as KNOWN-FINDING (if id is listed as known in
// known_findings.json) instead of VIOLATION. It returns cond.
func (h *H) Known(id string, cond bool) bool {
	if cond {
		h.pendingKnown = id
	}
	return cond
}

// And/Or/Not/Implies/Ite combine conditions without branching (one SMT term
// under gosx instead of a fork per operand).
func (h *H) And(cs ...bool) bool {
	for _, c := range cs {
		if !c {
			return false
		}
	}
	return true
}
func (h *H) Or(cs ...bool) bool {
	for _, c := range cs {
		if c {
			return true
		}
	}
	return false
}
func (h *H) Not(c bool) bool        { return !c }
func (h *H) Implies(a, b bool) bool { return !a || b }
func (h *H) Iff(a, b bool) bool     { return a == b }

// StrEq / HasPrefix / HasSuffix as single terms.
func (h *H) StrEq(a, b string) bool     { return a == b }
func (h *H) HasPrefix(s, p string) bool { return strings.HasPrefix(s, p) }
func (h *H) HasSuffix(s, p string) bool { return strings.HasSuffix(s, p) }

// Symbolic reports whether the harness runs under gosx.
func (h *H) Symbolic() bool { return false }

func (h *H) Int(name string, lo, hi int) int {
	v := int(int64(h.draw(name)))
	if v < lo || v > hi {
		panic(rejected{fmt.Sprintf("draw %s=%d outside [%d,%d]", name, v, lo, hi)})
	}
	return v
}
func (h *H) I64(name string, lo, hi int64) int64 {
	v := int64(h.draw(name))
	if v < lo || v > hi {
		panic(rejected{fmt.Sprintf("draw %s=%d outside [%d,%d]", name, v, lo, hi)})
	}
	return v
}
func (h *H) U64(name string) uint64 { return h.draw(name) }
func (h *H) U32(name string) uint32 { return uint32(h.draw(name)) }
func (h *H) U16(name string) uint16 { return uint16(h.draw(name)) }
func (h *H) Byte(name string) byte  { return byte(h.draw(name)) }
func (h *H) Bool(name string) bool  { return h.draw(name) != 0 }

// Choice returns a value in [0,n); under gosx each value is its own path.
func (h *H) Choice(name string, n int) int {
	v := int(h.draw(name))
	if v < 0 || v >= n {
		panic(rejected{fmt.Sprintf("choice %s=%d outside [0,%d)", name, v, n)})
	}
	return v
}

// Str returns a string of exactly n bytes (symbolic bytes under gosx).
func (h *H) Str(name string, n int) string {
	b := make([]byte, n)
	for i := range b {
		b[i] = byte(h.draw(fmt.Sprintf("%s[%d]", name, i)))
	}
	return string(b)
}

// StrOver returns a string of exactly n bytes drawn from alphabet.
func (h *H) StrOver(name string, n int, alphabet string) string {
	s := h.Str(name, n)
	for i := 0; i < len(s); i++ {
		if !strings.Contains(alphabet, s[i:i+1]) {
			panic(rejected{fmt.Sprintf("draw %s[%d]=%q outside alphabet", name, i, s[i])})
		}
	}
	return s
}

func (h *H) Bytes(name string, n int) []byte { return []byte(h.Str(name, n)) }

func (h *H) Assume(c bool) {
	if !c {
		panic(rejected{"assumption false under the replayed model"})
	}
}

func (h *H) Assert(c bool, msg string) {
	if !c {
		if h.pendingKnown != "" {
			h.KnownFailed = append(h.KnownFailed, h.pendingKnown+": "+msg)
		} else {
			h.Failed = append(h.Failed, msg)
		}
	}
	h.pendingKnown = ""
}

func (h *H) Fail(msg string) { h.Failed = append(h.Failed, msg) }

// Observe records a value; gosx predicts it under the path's model and the
// native run must print the same (concolic validation of the engine).
func (h *H) Observe(name string, v interface{}) {
	h.Observed = append(h.Observed, fmt.Sprintf("%s=%v", name, v))
}

func (h *H) Note(msg string) {}

// Conc forces an integer to be concrete on the current path (identity natively).
func (h *H) Conc(x int) int { return x }

// TempDir is a scratch directory (a modelled path under gosx).
func (h *H) TempDir() string {
	if h.tmp == "" {
		if d := os.Getenv("VERIF_TMP"); d != "" {
			h.tmp = d
			return d
		}
		d, err := os.MkdirTemp("", "verif-replay-")
		if err != nil {
			panic(err)
		}
		h.tmp = d
	}
	return h.tmp
}

func (h *H) Cleanup() {
	if os.Getenv("VERIF_PHASE") == "child" {
		return
	}
	for _, srv := range h.remoteServers {
		srv.Close()
	}
	h.remoteServers = nil
	if h.tmp != "" {
		os.RemoveAll(h.tmp)
	}
}

// Run executes fn, converting harness rejections into h.Rejected and leaving
// genuine panics of the code under test to the caller's recover.
func (h *H) Run(fn func(*H)) (panicked interface{}) {
	defer func() {
		if r := recover(); r != nil {
			if rj, ok := r.(rejected); ok {
				h.Rejected = rj.why
				return
			}
			panicked = r
		}
	}()
	fn(h)
	return nil
}

func (h *H) Summary() string {
	obs := append([]string{}, h.Observed...)
	sort.Strings(obs)
	return strings.Join(obs, ";")
}

// ---- hooks that only have meaning under gosx (no-ops or real effects natively)

// KeyLess is bytes.Compare(a,b) < 0 as a single term under gosx.
func (h *H) KeyLess(a, b []byte) bool { return string(a) < string(b) }

// ClockSymbolic makes time.Now() return symbolic non-decreasing instants.
func (h *H) ClockSymbolic() {}

// FireTimer: under gosx, if a modelled timer (context deadline,
// time.AfterFunc) is pending, a fresh symbolic boolean decides whether the
// earliest one fires now (the clock jumps past its deadline). Natively the
// recorded decision is replayed by sleeping for wait, which the harness
// chooses longer than the (shortened) timeout it configured.
func (h *H) FireTimer(name string, wait time.Duration) bool {
	if h.draw(name) != 0 {
		time.Sleep(time.Duration(slowFactor()) * wait)
		return true
	}
	return false
}

// Pause gives real goroutines time to get where the harness expects them
// (native runs only; under gosx the scheduler decides and Pause is a no-op).
func (h *H) Pause(d time.Duration) { time.Sleep(time.Duration(slowFactor()) * d) }

// SymbolicLocks makes every Lock/RLock call of the code under test a scheduling
// point (named lock:<file>:<line>) under SymbolicSched. Natively the replay
// build inserts verifhook.Point("lock:<file>:<line>") before the same calls
// (source instrumentation through the go test overlay), so recorded schedules
// are replayed by pausing the goroutine there.
func (h *H) SymbolicLocks() {}

// SymbolicTxns makes the start of every Badger transaction (View, Update,
// NewTransaction) of the code under test a scheduling point (txn:<file>:<line>)
// under SymbolicSched; the replay build is instrumented like for SymbolicLocks.
func (h *H) SymbolicTxns() {}

// SymbolicMapOrder makes the starting position of the next n map range
// statements executed by the code under test a symbolic choice (Go randomises
// it). Natively the runtime picks; replays of such paths are retried.
func (h *H) SymbolicMapOrder(n int) {}

// SymbolicSched turns on symbolic scheduling with the given preemption bound.
// Natively the recorded preemption points (notes of the replay record) are
// turned into pauses: a goroutine reaching such a verifhook.Point sleeps so
// that the others overtake it, as in the recorded schedule.
func (h *H) SymbolicSched(preemptions int) {
	if len(h.hints) == 0 {
		return
	}
	perG := map[string]map[string]int{} // goroutine -> boundary -> hits
	h.schedMu.Lock()
	h.gThread[goroutineID()] = 0 // the harness's own goroutine is thread 0
	h.schedMu.Unlock()
	verifhook.SetCallback(func(name string) {
		g := goroutineID()
		h.schedMu.Lock()
		if perG[g] == nil {
			perG[g] = map[string]int{}
		}
		perG[g][name]++
		key := fmt.Sprintf("%s#%d", name, perG[g][name])
		if _, known := h.gThread[g]; !known && len(h.goThread) > 0 {
			// a goroutine the code under test started: it stands for the first engine thread (in spawn
			// order) that no harness goroutine and no earlier such goroutine stands for
			taken := map[int]bool{}
			for _, t := range h.gThread {
				taken[t] = true
			}
			for _, t := range h.allThreads {
				if !taken[t] && !h.isHarnessThread(t) {
					h.gThread[g] = t
					break
				}
			}
		}
		n := h.hints[key]
		if n > 0 {
			// the pause belongs to the goroutine that stands for the recorded thread; a goroutine the
			// harness did not start (spawned by the code under test) takes a pause no known one owns
			th, known := h.gThread[g]
			owners := h.hintThreads[key]
			mine := -1
			for i, o := range owners {
				if known && o == th {
					mine = i
					break
				}
				if !known && !h.isHarnessThread(o) {
					mine = i
					break
				}
			}
			switch {
			case len(owners) == 0: // a record without thread ids
			case mine < 0:
				n = 0
			default:
				h.hintThreads[key] = append(owners[:mine:mine], owners[mine+1:]...)
			}
		}
		if n > 0 {
			h.hints[key] = n - 1
			h.paused++
		}
		h.schedMu.Unlock()
		if n > 0 {
			time.Sleep(time.Duration(slowFactor()) * 300 * time.Millisecond)
		}
	})
}

// slowFactor stretches the fixed pauses of schedule and timer replays
// (VERIF_SLOW, set by the driver when a replay is repeated on a loaded machine).
func slowFactor() int {
	if n, err := strconv.Atoi(os.Getenv("VERIF_SLOW")); err == nil && n > 1 {
		return n
	}
	return 1
}

func goroutineID() string {
	buf := make([]byte, 64)
	buf = buf[:runtime.Stack(buf, false)]
	// "goroutine 123 [running]:"
	f := strings.Fields(string(buf))
	if len(f) >= 2 {
		return f[1]
	}
	return "?"
}

func (h *H) Yield() {}

// Go starts f as a goroutine of the harness (an interpreter thread under gosx,
// scheduled symbolically after SymbolicSched). Wait blocks until all of them
// have finished; natively it reports false if they are still stuck after the
// timeout (a deadlock), under gosx a deadlock is reported by the engine.
func (h *H) Go(f func()) {
	h.wg.Add(1)
	h.schedMu.Lock()
	h.goCalls++
	th, known := h.goThread[h.goCalls]
	done := make(chan struct{})
	if known {
		h.finished[th] = done
	}
	h.schedMu.Unlock()
	go func() {
		defer h.wg.Done()
		defer close(done)
		if known {
			h.schedMu.Lock()
			h.gThread[goroutineID()] = th
			h.schedMu.Unlock()
			h.awaitGate(th)
		}
		f()
	}()
	// the engine's default policy runs a new thread until it blocks or ends before the spawner
	// continues. A record without preemptions is such a run: give the goroutine that head start,
	// so that harnesses whose observations depend on the schedule see the recorded one. With
	// recorded preemptions the pauses at the recorded boundaries order the goroutines instead.
	if len(h.hints) == 0 {
		time.Sleep(time.Duration(slowFactor()) * 40 * time.Millisecond)
	}
}

// MarkGoroutines: from here on Wait also waits for goroutines that the code
// under test starts by itself (under gosx Wait always waits for every thread;
// natively it waits until the number of goroutines is back at the number
// counted here).
func (h *H) MarkGoroutines() { h.baseGoroutines = runtime.NumGoroutine() }

func (h *H) isHarnessThread(t int) bool {
	if t == 0 {
		return true
	}
	for _, x := range h.goThread {
		if x == t {
			return true
		}
	}
	return false
}

// awaitGate holds a goroutine started by h.Go back until the point of the
// recorded schedule at which its thread first ran: the recorded number of
// preemptions have been applied and the threads that had finished by then
// have finished. It gives up after a while (the pauses only approximate the
// recorded schedule; a replay that does not reproduce is reported as such).
func (h *H) awaitGate(th int) {
	g, ok := h.gates[th]
	if !ok {
		return
	}
	deadline := time.Now().Add(time.Duration(slowFactor()) * 2 * time.Second)
	for time.Now().Before(deadline) {
		h.schedMu.Lock()
		open := h.paused >= g.preemptions
		var waitFor []chan struct{}
		for _, f := range g.finished {
			if c, ok := h.finished[f]; ok {
				waitFor = append(waitFor, c)
			}
		}
		h.schedMu.Unlock()
		for _, c := range waitFor {
			select {
			case <-c:
			default:
				open = false
			}
		}
		if open {
			return
		}
		time.Sleep(time.Millisecond)
	}
}

func (h *H) Wait() bool {
	done := make(chan struct{})
	go func() { h.wg.Wait(); close(done) }()
	select {
	case <-done:
		// goroutines the code under test started itself (after MarkGoroutines): wait until they are gone too
		if h.baseGoroutines > 0 {
			deadline := time.Now().Add(time.Duration(slowFactor()) * 5 * time.Second)
			for runtime.NumGoroutine() > h.baseGoroutines {
				if time.Now().After(deadline) {
					h.Failed = append(h.Failed, "deadlock: goroutines started by the code under test still running after 5s")
					return false
				}
				time.Sleep(2 * time.Millisecond)
			}
		}
		return true
	case <-time.After(5 * time.Second):
		h.Failed = append(h.Failed, "deadlock: harness goroutines still blocked after 5s")
		return false
	}
}

// StubJWT tells the gosx model of jwt.ParseWithClaims which token shape the
// next parse sees (no effect natively, where a real token is parsed).
func (h *H) StubJWT(aud, iss, alg int, sigOK, fresh bool) {}

// StubAssertion tells the gosx model of jwt.ParseWithClaims that the next
// tokens parsed are a client assertion with subject client-<sub>, issuer
// client-<iss> (0: no iss claim), signed RS256 by client <signer>'s private
// key, unexpired iff fresh (no effect natively, where a real token is parsed).
func (h *H) StubAssertion(sub, iss, signer int, fresh bool) {}

// ---- crash points
//
// A crash harness has the shape
//
//	draws...; if h.BeforeCrash() { open; setup; h.CrashWindowStart(); operation }
//	h.CrashAndRecover(); reopen; observe; assert
//
// Under gosx the crash position is a symbolic choice among the
// verifhook.Point boundaries hit since CrashWindowStart (plus "after the
// operation returned"); the durable state is rebuilt from the effects before
// that boundary and every in-memory object of the engine is dropped. Natively
// the part before the crash runs in a child process of the test binary that
// is killed with os.Exit at the recorded boundary; the parent then runs the
// recovery part against the same directory with the real Badger.

func (h *H) isChild() bool { return os.Getenv("VERIF_PHASE") == "child" }

// BeforeCrash reports whether the code before the crash has to run in this
// process (always under gosx; natively only in the child).
func (h *H) BeforeCrash() bool { return h.isChild() }

func (h *H) CrashWindowStart() {
	if !h.isChild() {
		return
	}
	h.crashAt = int(h.vals["crashpos"])
	h.windowOpen = true
	verifhook.SetCallback(func(name string) {
		if !h.windowOpen || strings.HasPrefix(name, "lock:") || strings.HasPrefix(name, "txn:") || strings.HasPrefix(name, "txnbody:") || (strings.HasPrefix(name, "commit:") && !h.crashCommits) {
			// lock:<file>:<line> and txn:<file>:<line> points exist only in the instrumented replay build
			// (scheduling points); they are not crash boundaries of the engine
			return
		}
		if h.hits == h.crashAt {
			os.Exit(7)
		}
		h.hits++
	})
}

// CrashAtCommits makes every Badger commit statement of /repo code
// (db.Update(..), txn.Commit()) a crash candidate in addition to the
// verifhook.Point boundaries: natively the replay build has
// verifhook.Point("commit:<file>:<line>") inserted before those statements.
// Call it before CrashWindowStart.
func (h *H) CrashAtCommits() { h.crashCommits = true }

// RecycleIteratorKeys: a slice returned by badger's Item.Key() is only valid
// until the iterator moves (the item and its buffer are reused). After this
// call the engine overwrites such buffers as soon as the iterator moves, so
// code that keeps Key() instead of KeyCopy() across Next() reads the wrong key.
// Natively Badger recycles items once its prefetch window (100 items) has been
// exceeded: harnesses that use this store enough filler data.
func (h *H) RecycleIteratorKeys() {}

// FailWrites makes every write to a file whose path ends with suffix fail with "no space left on
// device" (empty suffix: writes work again). Under gosx the file model refuses the writes;
// natively the file is replaced by a symbolic link to /dev/full for the duration and put back.
func (h *H) FailWrites(suffix string) {
	if h.failedFile != "" {
		_ = os.Remove(h.failedFile)
		_ = os.Rename(h.failedFile+".verif-kept", h.failedFile)
		h.failedFile = ""
	}
	if suffix == "" {
		return
	}
	// natively the harness passes the full path; the file need not exist yet
	if k := strings.LastIndex(suffix, "/"); k > 0 {
		_ = os.MkdirAll(suffix[:k], 0o700)
	}
	if _, err := os.Stat(suffix); err == nil {
		_ = os.Rename(suffix, suffix+".verif-kept")
	}
	if os.Symlink("/dev/full", suffix) == nil {
		h.failedFile = suffix
	}
}

// Remote scripts a remote data layer: the k-th HTTP request the code under test makes gets the
// k-th page (status 200, the page as body). It returns the URL to use as endpoint. Under gosx
// http.Client.Do is modelled; natively a real server on the loopback interface serves the pages.
func (h *H) Remote(pages ...string) string {
	served := 0
	var mu sync.Mutex
	srv := httptest.NewServer(http.HandlerFunc(func(w http.ResponseWriter, r *http.Request) {
		mu.Lock()
		defer mu.Unlock()
		h.remoteRequests = append(h.remoteRequests, r.URL.String())
		// log entry: method, URL as the client wrote it, request headers set by the code under test
		entry := r.Method + " http://" + r.Host + r.URL.String()
		var hs []string
		for k, vs := range r.Header {
			switch k {
			case "Content-Type", "Content-Length", "User-Agent", "Accept-Encoding", "Connection":
				continue
			}
			hs = append(hs, k+"="+strings.Join(vs, ","))
		}
		sort.Strings(hs)
		for _, x := range hs {
			entry += " " + x
		}
		h.remoteLog = append(h.remoteLog, entry)
		page := "[]"
		if served < len(pages) {
			page = pages[served]
		}
		served++
		// "!<status>[ <body>]": a non-200 answer
		status := 200
		if strings.HasPrefix(page, "!") {
			rest, body := page[1:], ""
			if k := strings.Index(rest, " "); k >= 0 {
				rest, body = rest[:k], rest[k+1:]
			}
			if n, err := strconv.Atoi(rest); err == nil {
				status, page = n, body
			}
		}
		w.Header().Set("Content-Type", "application/json")
		w.WriteHeader(status)
		_, _ = w.Write([]byte(page))
	}))
	h.remoteServers = append(h.remoteServers, srv)
	return srv.URL + "/datasets/r/changes"
}

// RemoteRequests returns the URLs (path and query) requested from the scripted remote so far.
func (h *H) RemoteRequests() []string { return append([]string{}, h.remoteRequests...) }

// RemoteLog returns one entry per request to the scripted remote: method, URL
// and the request headers the code under test set (sorted, "K=v"). The host
// part of the URL differs between gosx (remote.invalid) and the native server;
// harnesses compare what follows it.
func (h *H) RemoteLog() []string { return append([]string{}, h.remoteLog...) }

// CrashAndRecover kills the process at the chosen boundary (child) or runs
// the child and continues with the recovery part (parent).
func (h *H) CrashAndRecover() {
	if h.isChild() {
		// the operation returned before the crash
		_ = os.WriteFile(h.TempDir()+"/verif-acked", []byte("1"), 0o644)
		os.Exit(7)
	}
	_ = h.draw("crashpos")
	dir := h.TempDir()
	cmd := exec.Command(os.Args[0], "-test.run", "^TestVerifReplay$", "-test.count=1")
	cmd.Env = append(os.Environ(), "VERIF_PHASE=child", "VERIF_TMP="+dir, "VERIF_REPLAY="+h.recPath)
	out, err := cmd.CombinedOutput()
	if ee, ok := err.(*exec.ExitError); !ok || ee.ExitCode() != 7 {
		panic(rejected{fmt.Sprintf("crash child did not stop at the recorded boundary: %v: %s", err, tail(string(out), 600))})
	}
	if _, err := os.Stat(dir + "/verif-acked"); err == nil {
		h.acked = true
	}
}

// Acked reports whether the operation had returned before the crash.
func (h *H) Acked() bool { return h.acked }

func tail(s string, n int) string {
	if len(s) > n {
		return s[len(s)-n:]
	}
	return s
}

// RestoreBackup loads a native backup file into an empty store directory
// (badger's Load natively; the modelled equivalent under gosx).
func (h *H) RestoreBackup(file, dir string) {
	_ = os.MkdirAll(dir, 0o755)
	opts := badger.DefaultOptions(dir)
	opts.Logger = nil
	db, err := badger.Open(opts)
	if err != nil {
		panic(rejected{"restore: " + err.Error()})
	}
	defer db.Close()
	f, err := os.Open(file)
	if err != nil {
		return // no backup file: an empty store
	}
	defer f.Close()
	_ = db.Load(f, 16)
}

// Preload writes a raw key/value pair into the store (index states that no
// short history produces, e.g. change logs with sequence gaps).
func (h *H) Preload(db *badger.DB, key, val []byte) {
	err := db.Update(func(txn *badger.Txn) error { return txn.Set(key, val) })
	if err != nil {
		panic(rejected{"preload: " + err.Error()})
	}
}
