//go:build verif

package dataset

import (
	"encoding/binary"
	"encoding/json"
	"os"
	"time"

	"github.com/dgraph-io/badger/v4"

	"github.com/mimiro-io/datahub/internal/server"
	"github.com/mimiro-io/datahub/internal/service/entity"
	"github.com/mimiro-io/datahub/internal/verifh"
)

type vShape struct {
	val string
	ref string
	del bool
}

func vMk(id string, s vShape) *server.Entity {
	e := server.NewEntity(id, 0)
	if s.val != "" {
		e.Properties["ns0:v"] = s.val
	}
	switch s.ref {
	case "":
	case "both":
		// a multi-valued reference: the single reference e2 grown by appending e3
		e.References["ns0:p1"] = []interface{}{"ns0:e2", "ns0:e3"}
	default:
		e.References["ns0:p1"] = s.ref
	}
	e.IsDeleted = s.del
	return e
}

// vLegacyDuplicate appends a version identical to the entity's current one,
// the way datasets written before the equality check hold them: write the
// toggled-deleted version, write the original again, then remove the
// intermediate version's json, change log and reference keys.
func vLegacyDuplicate(h *verifh.H, hub *server.VHub, ba server.BadgerAccess, dsName, id string) uint64 {
	ds := hub.Dsm.GetDataset(dsName)
	ent, err := hub.Store.GetEntity(id, []string{dsName}, true)
	h.Assert(err == nil && ent != nil, "current version readable")
	// GetEntity returns a skeleton for deleted versions; take the content from the listing instead
	res, err := ds.GetEntities("", -1)
	h.Assert(err == nil, "listing readable")
	for _, e := range res.Entities {
		if e.ID == id {
			ent = e
		}
	}
	ent.IsDeleted = !ent.IsDeleted
	h.Assert(ds.StoreEntities([]*server.Entity{ent}) == nil, "intermediate write")
	next, err := ds.ProcessChangesRaw(0, 1000, false, func([]byte) error { return nil })
	h.Assert(err == nil, "feed readable")
	changeKey := make([]byte, 22)
	binary.BigEndian.PutUint16(changeKey, server.DatasetEntityChangeLog)
	binary.BigEndian.PutUint32(changeKey[2:], ds.InternalID)
	binary.BigEndian.PutUint64(changeKey[6:], next-1)
	binary.BigEndian.PutUint64(changeKey[14:], ent.InternalID)
	var jsonKey []byte
	var refs [][]byte
	_ = ba.GetDB().View(func(txn *badger.Txn) error {
		item, err := txn.Get(changeKey)
		h.Assert(err == nil, "intermediate change entry found")
		if err != nil {
			return nil
		}
		jsonKey, _ = item.ValueCopy(nil)
		refs, _ = findRefs(ent, jsonKey, txn, entity.Lookup{})
		return nil
	})
	ent.IsDeleted = !ent.IsDeleted
	h.Assert(ds.StoreEntities([]*server.Entity{ent}) == nil, "duplicate write")
	_ = ba.GetDB().Update(func(txn *badger.Txn) error {
		_ = txn.Delete(jsonKey)
		_ = txn.Delete(changeKey)
		for _, r := range refs {
			_ = txn.Delete(r)
		}
		return nil
	})
	return ent.Recorded
}

type vObs struct {
	list, lookup, latestFeed string
	pit, relAt               []string
	relNow                   string
	feed                     []string
}

func vObserve(h *verifh.H, hub *server.VHub, times []int64) *vObs {
	o := &vObs{}
	ds := hub.Dsm.GetDataset("d")
	res, err := ds.GetEntities("", -1)
	h.Assert(err == nil, "listing")
	o.list = server.VJoin(server.VSorted(server.VRenderList(res.Entities)))
	for _, id := range []string{"ns0:e1"} {
		e, err := hub.Store.GetEntity(id, []string{"d"}, true)
		h.Assert(err == nil, "lookup")
		o.lookup += server.VRenderEntity(e) + ";"
	}
	scope := hub.Store.DatasetsToInternalIDs([]string{"d"})
	rid, _ := hub.VInternalID("ns0:e1")
	for _, t := range times {
		e, err := hub.Store.GetEntityAtPointInTimeWithInternalID(rid, t, scope, true)
		h.Assert(err == nil, "point-in-time lookup")
		o.pit = append(o.pit, server.VRenderEntity(e))
		s := ""
		for _, start := range []string{"ns0:e1", "ns0:e2", "ns0:e3"} {
			for inv := 0; inv < 2; inv++ {
				from, err := hub.Store.ToRelatedFrom([]string{start}, "*", inv == 1, []string{"d"}, t)
				if err != nil || len(from) == 0 || from[0] == nil {
					s += "|"
					continue
				}
				r, err := hub.Store.GetManyRelatedEntitiesAtTime(from, 0, true)
				h.Assert(err == nil, "point-in-time relationship query")
				s += server.VJoin(server.VRelPairs(r.Relations)) + "|"
			}
		}
		o.relAt = append(o.relAt, s)
	}
	for _, start := range []string{"ns0:e1", "ns0:e2", "ns0:e3"} {
		for inv := 0; inv < 2; inv++ {
			r, err := hub.Store.GetManyRelatedEntitiesBatch([]string{start}, "*", inv == 1, []string{"d"}, 0, true)
			if err == nil {
				o.relNow += server.VJoin(server.VRelPairs(r.Relations))
			}
			o.relNow += "|"
		}
	}
	lo, err := ds.GetChanges(0, 0, true)
	h.Assert(err == nil, "latest-only feed")
	o.latestFeed = server.VJoin(server.VRenderList(lo.Entities))
	ch, err := ds.GetChanges(0, 0, false)
	h.Assert(err == nil, "feed")
	o.feed = server.VRenderList(ch.Entities)
	return o
}

// VerifC12Compact: deduplicating compaction of a dataset whose entity has any
// version chain in the box (values flipping back and forth, a reference kept
// across property changes, delete/un-delete, a legacy duplicate injected at
// any position) leaves the latest view, lookups, current and point-in-time
// relationship queries and the latest-only feed unchanged, and the full feed
// equal to the old one minus the versions identical to their predecessor.
func VerifC12Compact(h *verifh.H) {
	hub := server.VerifNewHub(h)
	ds, err := hub.Dsm.CreateDataset("d", nil)
	h.Assert(err == nil, "create")
	ba := server.NewBadgerAccess(hub.Store, hub.Dsm)
	n := 1 + h.Choice("chain", h.Param("maxChain", 3))
	dupAt := h.Choice("dupAt", n+1) - 1 // -1: no legacy duplicate
	var times []int64
	vals := []string{"x", "y"}
	refs := []string{"", "ns0:e2", "ns0:e3"}[:h.Param("refs", 2)]
	if h.Param("refset", 0) == 1 {
		refs = []string{"", "ns0:e2", "both"} // single reference, and the same reference grown to an array
	}
	for k := 0; k < n; k++ {
		s := vShape{val: vals[h.Choice("val", 2)], ref: refs[h.Choice("ref", len(refs))], del: h.Choice("del", 2) == 1}
		e := vMk("ns0:e1", s)
		h.Assert(ds.StoreEntities([]*server.Entity{e}) == nil, "write")
		times = append(times, int64(e.Recorded), time.Now().UnixNano())
		if k == dupAt {
			t := vLegacyDuplicate(h, hub, ba, "d", "ns0:e1")
			times = append(times, int64(t), time.Now().UnixNano())
		}
	}
	if f := h.Param("filler", 0); f > 0 {
		// a store that is not tiny: other entities follow in the change log, so that the scans of
		// the compactor run past Badger's iterator prefetch window and items are reused; under gosx
		// key buffers handed out by Item().Key() are overwritten as soon as the iterator moves
		var fill []*server.Entity
		for i := 0; i < f; i++ {
			fill = append(fill, vMk("ns0:f"+server.VItoa(i), vShape{val: "x"}))
		}
		h.Assert(ds.StoreEntities(fill) == nil, "filler")
		h.RecycleIteratorKeys()
	}
	before := vObserve(h, hub, times)
	// a reader that has caught up holds the token of the end of the feed
	endFeed, err := ds.GetChanges(0, 0, false)
	h.Assert(err == nil, "feed")
	endTok := endFeed.NextToken
	thr := []int{1, 2, 100000}[h.Choice("threshold", h.Param("thresholds", 2))]
	strategy := &deduplicationStrategy{counts: make(map[string]int), changeBuffer: make(map[[24]byte]byte), flushAfter: thr}
	worker := NewCompactor(hub.Store, hub.Dsm, hub.Env.Logger)
	h.Assert(worker.compact("d", strategy) == nil, "compaction succeeds")
	// ... and is handed nothing it has seen before, whether or not compaction removed the tail of the log
	for _, latest := range []bool{false, true} {
		again, err := ds.GetChanges(endTok, 0, latest)
		h.Assert(err == nil && len(again.Entities) == 0, "a reader resuming from the end token it got before compaction is handed nothing :: latestOnly="+server.VB(latest)+" got="+server.VItoa(len(again.Entities)))
		h.Assert(err != nil || again.NextToken >= endTok, "the token of a caught-up reader does not move backwards")
	}
	after := vObserve(h, hub, times)

	h.Assert(after.list == before.list, "latest view unchanged by compaction :: before="+before.list+" after="+after.list)
	h.Assert(after.lookup == before.lookup, "entity lookup unchanged by compaction :: before="+before.lookup+" after="+after.lookup)
	h.Assert(server.VJoin(after.pit) == server.VJoin(before.pit), "point-in-time lookups unchanged by compaction :: before="+server.VJoin(before.pit)+" after="+server.VJoin(after.pit))
	h.Assert(after.relNow == before.relNow, "current relationship queries unchanged by compaction :: before="+before.relNow+" after="+after.relNow)
	h.Assert(server.VJoin(after.relAt) == server.VJoin(before.relAt), "point-in-time relationship queries unchanged by compaction :: before="+server.VJoin(before.relAt)+" after="+server.VJoin(after.relAt))
	h.Assert(after.latestFeed == before.latestFeed, "latest-only feed unchanged by compaction :: before="+before.latestFeed+" after="+after.latestFeed)
	// full feed: old minus the versions identical to their immediate predecessor
	var want []string
	for k, v := range before.feed {
		if k > 0 && before.feed[k-1] == v {
			continue
		}
		want = append(want, v)
	}
	h.Assert(server.VJoin(after.feed) == server.VJoin(want), "full feed = old feed minus versions identical to their predecessor :: after="+server.VJoin(after.feed)+" want="+server.VJoin(want))
	h.Observe("feed", len(after.feed))
}

// vSaved is what the pre-crash part of VerifC12Crash hands to the recovery
// part through a file (the recovery part runs in another process natively).
type vSaved struct {
	List, Lookup, LatestFeed, RelNow string
	Pit, RelAt, Feed                 []string
	Times                            []int64
}

// vDedupOf reports whether got can be obtained from feed by removing only
// entries identical to their immediate predecessor in feed.
func vDedupOf(feed, got []string) bool {
	k := 0
	for i, v := range feed {
		if k < len(got) && got[k] == v {
			k++
			continue
		}
		if i > 0 && feed[i-1] == v {
			continue // a removed duplicate of its predecessor
		}
		return false
	}
	return k == len(got)
}

// VerifC12Crash: the process dies after any flush of a running compaction
// (every flush boundary is a crash candidate; flush thresholds 1 and 2 force
// several flushes). After the restart every reader still works, the latest
// view, lookups, current and point-in-time queries and the latest-only feed
// are what they were before the compaction, the full feed is the old one minus
// only versions identical to their immediate predecessor, and a later full
// compaction finishes the job.
func VerifC12Crash(h *verifh.H) {
	env := server.VerifConfig(h, time.Hour)
	file := h.TempDir() + "/c12-before.json"
	n := 2 + h.Choice("chain", h.Param("maxChain", 3)-1)
	vals := []string{"x", "y"}
	refs := []string{"", "ns0:e2"}
	type stepT struct {
		s   vShape
		dup int
	}
	var steps []stepT
	for k := 0; k < n; k++ {
		steps = append(steps, stepT{vShape{val: vals[h.Choice("val", 2)], ref: refs[h.Choice("ref", 2)], del: h.Choice("del", 2) == 1}, h.Choice("dups", h.Param("maxDups", 2)+1)})
	}
	thr := []int{1, 2}[h.Choice("threshold", 2)]
	if h.BeforeCrash() {
		hub := server.VerifOpenHub(env)
		ds, err := hub.Dsm.CreateDataset("d", nil)
		h.Assert(err == nil, "create")
		ba := server.NewBadgerAccess(hub.Store, hub.Dsm)
		var times []int64
		for _, st := range steps {
			e := vMk("ns0:e1", st.s)
			h.Assert(ds.StoreEntities([]*server.Entity{e}) == nil, "write")
			times = append(times, int64(e.Recorded), time.Now().UnixNano())
			for d := 0; d < st.dup; d++ {
				t := vLegacyDuplicate(h, hub, ba, "d", "ns0:e1")
				times = append(times, int64(t), time.Now().UnixNano())
			}
		}
		o := vObserve(h, hub, times)
		b, err := json.Marshal(&vSaved{o.list, o.lookup, o.latestFeed, o.relNow, o.pit, o.relAt, o.feed, times})
		h.Assert(err == nil, "observation serialises")
		h.Assert(os.WriteFile(file, b, 0o644) == nil, "observation saved")
		strategy := &deduplicationStrategy{counts: make(map[string]int), changeBuffer: make(map[[24]byte]byte), flushAfter: thr}
		worker := NewCompactor(hub.Store, hub.Dsm, hub.Env.Logger)
		if h.Param("commitPoints", 0) == 1 {
			h.CrashAtCommits()
		}
		h.CrashWindowStart()
		h.Assert(worker.compact("d", strategy) == nil, "compaction succeeds")
	}
	h.CrashAndRecover()
	hub := server.VerifOpenHub(env)
	b, err := os.ReadFile(file)
	h.Assert(err == nil, "saved observation readable")
	before := &vSaved{}
	h.Assert(json.Unmarshal(b, before) == nil, "saved observation parses")
	check := func(when string, full bool) {
		after := vObserve(h, hub, before.Times)
		h.Assert(after.list == before.List, "latest view unchanged :: "+when+" before="+before.List+" after="+after.list)
		h.Assert(after.lookup == before.Lookup, "entity lookup unchanged :: "+when)
		h.Assert(server.VJoin(after.pit) == server.VJoin(before.Pit), "point-in-time lookups unchanged :: "+when+" before="+server.VJoin(before.Pit)+" after="+server.VJoin(after.pit))
		h.Assert(after.relNow == before.RelNow, "current relationship queries unchanged :: "+when)
		h.Assert(server.VJoin(after.relAt) == server.VJoin(before.RelAt), "point-in-time relationship queries unchanged :: "+when)
		h.Assert(after.latestFeed == before.LatestFeed, "latest-only feed unchanged :: "+when)
		h.Assert(vDedupOf(before.Feed, after.feed), "full feed = old feed minus only versions identical to their predecessor :: "+when+" after="+server.VJoin(after.feed)+" old="+server.VJoin(before.Feed))
		if full {
			var want []string
			for k, v := range before.Feed {
				if k > 0 && before.Feed[k-1] == v {
					continue
				}
				want = append(want, v)
			}
			h.Assert(server.VJoin(after.feed) == server.VJoin(want), "a completed compaction removed every adjacent duplicate :: "+when+" after="+server.VJoin(after.feed)+" want="+server.VJoin(want))
		}
	}
	check("after the crash", h.Acked())
	strategy := &deduplicationStrategy{counts: make(map[string]int), changeBuffer: make(map[[24]byte]byte), flushAfter: thr}
	h.Assert(NewCompactor(hub.Store, hub.Dsm, hub.Env.Logger).compact("d", strategy) == nil, "a compaction after the crash succeeds")
	check("after the follow-up compaction", true)
	h.Observe("acked", h.Acked())
}

// VerifC12Race: a writer stores a new version of the entity while the
// compaction runs (symbolic scheduling at the compaction and write-path
// boundaries). Afterwards the latest view, lookup, current relationship
// queries and latest-only feed are those of the same history plus the write
// without any compaction (reference hub), point-in-time answers for the old
// instants are unchanged, and the full feed is the reference feed minus only
// versions identical to their immediate predecessor.
func VerifC12Race(h *verifh.H) {
	n := 1 + h.Choice("chain", h.Param("maxChain", 2))
	vals := []string{"x", "y"}
	refs := []string{"", "ns0:e2"}[:h.Param("refs", 2)]
	type stepT struct {
		s   vShape
		dup int
	}
	var steps []stepT
	for k := 0; k < n; k++ {
		steps = append(steps, stepT{vShape{val: vals[h.Choice("val", 2)], ref: refs[h.Choice("ref", len(refs))], del: h.Choice("del", 2) == 1}, h.Choice("dups", h.Param("maxDups", 1)+1)})
	}
	w := vShape{val: vals[h.Choice("wval", 2)], ref: refs[h.Choice("wref", len(refs))], del: h.Choice("wdel", 2) == 1}
	thr := []int{1, 100000}[h.Choice("threshold", 2)]
	build := func(hub *server.VHub) []int64 {
		ds, err := hub.Dsm.CreateDataset("d", nil)
		h.Assert(err == nil, "create")
		ba := server.NewBadgerAccess(hub.Store, hub.Dsm)
		var times []int64
		for _, st := range steps {
			e := vMk("ns0:e1", st.s)
			h.Assert(ds.StoreEntities([]*server.Entity{e}) == nil, "write")
			times = append(times, int64(e.Recorded), time.Now().UnixNano())
			for d := 0; d < st.dup; d++ {
				t := vLegacyDuplicate(h, hub, ba, "d", "ns0:e1")
				times = append(times, int64(t), time.Now().UnixNano())
			}
		}
		return times
	}
	// reference: the same history plus the write, never compacted
	env2 := server.VerifConfig(h, time.Hour)
	env2.StoreLocation = h.TempDir() + "/store-ref"
	ref := server.VerifOpenHub(env2)
	build(ref)
	h.Assert(ref.Dsm.GetDataset("d").StoreEntities([]*server.Entity{vMk("ns0:e1", w)}) == nil, "reference write")
	want := vObserve(h, ref, nil)

	hub := server.VerifNewHub(h)
	times := build(hub)
	before := vObserve(h, hub, times)
	ds := hub.Dsm.GetDataset("d")
	strategy := &deduplicationStrategy{counts: make(map[string]int), changeBuffer: make(map[[24]byte]byte), flushAfter: thr}
	worker := NewCompactor(hub.Store, hub.Dsm, hub.Env.Logger)
	var cerr, werr error
	h.SymbolicLocks() // also preempt before every lock acquisition (the flush takes the dataset lock)
	h.SymbolicTxns()  // every Badger transaction start of /repo code is a scheduling point too
	h.SymbolicSched(h.Param("preemptions", 2))
	h.Go(func() { cerr = worker.compact("d", strategy) })
	h.Go(func() { werr = ds.StoreEntities([]*server.Entity{vMk("ns0:e1", w)}) })
	h.Assert(h.Wait(), "compaction and writer complete")
	h.Assert(cerr == nil, "compaction succeeds while a write is in flight")
	h.Assert(werr == nil, "the write succeeds while compaction runs")
	after := vObserve(h, hub, times)
	h.Assert(after.list == want.list, "latest view is the one the write produces, compaction invisible :: got="+after.list+" want="+want.list)
	h.Assert(after.lookup == want.lookup, "entity lookup as without compaction :: got="+after.lookup+" want="+want.lookup)
	h.Assert(after.relNow == want.relNow, "current relationship queries as without compaction :: got="+after.relNow+" want="+want.relNow)
	h.Assert(after.latestFeed == want.latestFeed, "latest-only feed as without compaction :: got="+after.latestFeed+" want="+want.latestFeed)
	h.Assert(server.VJoin(after.pit) == server.VJoin(before.pit), "point-in-time lookups for the old instants unchanged :: before="+server.VJoin(before.pit)+" after="+server.VJoin(after.pit))
	h.Assert(server.VJoin(after.relAt) == server.VJoin(before.relAt), "point-in-time relationship queries for the old instants unchanged")
	h.Assert(vDedupOf(want.feed, after.feed), "full feed = uncompacted feed minus only versions identical to their predecessor :: got="+server.VJoin(after.feed)+" uncompacted="+server.VJoin(want.feed))
	h.Observe("feed", len(after.feed))
}

// VerifC12TwoDatasets: compaction is requested for two datasets of one hub
// through the real entry point (CompactionWorker.CompactAsync, what two
// POST /compact requests do) while a client writes a new version to the first
// dataset — whose latest version is a legacy duplicate, so its compaction has a
// latest pointer to rewrite. Whether the second request is refused or served,
// and however the three interleave (symbolic schedule over locks, transaction
// starts and commits), the first dataset ends up exactly as the same history
// plus the write without any compaction: the write is not lost to a repoint.
func VerifC12TwoDatasets(h *verifh.H) {
	build := func(hub *server.VHub) {
		ba := server.NewBadgerAccess(hub.Store, hub.Dsm)
		for _, n := range []string{"d", "other"} {
			ds, err := hub.Dsm.CreateDataset(n, nil)
			h.Assert(err == nil, "create")
			h.Assert(ds.StoreEntities([]*server.Entity{vMk("ns0:e1", vShape{val: "x"})}) == nil, "write")
			vLegacyDuplicate(h, hub, ba, n, "ns0:e1")
		}
	}
	w := vShape{val: "y"}
	env2 := server.VerifConfig(h, time.Hour)
	env2.StoreLocation = h.TempDir() + "/store-ref"
	ref := server.VerifOpenHub(env2)
	build(ref)
	h.Assert(ref.Dsm.GetDataset("d").StoreEntities([]*server.Entity{vMk("ns0:e1", w)}) == nil, "reference write")
	want := vObserve(h, ref, nil)

	hub := server.VerifNewHub(h)
	build(hub)
	ds := hub.Dsm.GetDataset("d")
	mkStrategy := func() *deduplicationStrategy {
		return &deduplicationStrategy{counts: make(map[string]int), changeBuffer: make(map[[24]byte]byte), flushAfter: 1}
	}
	worker := NewCompactor(hub.Store, hub.Dsm, hub.Env.Logger)
	var werr error
	h.SymbolicLocks()
	h.SymbolicTxns()
	h.SymbolicSched(h.Param("preemptions", 2))
	h.MarkGoroutines()
	e1 := worker.CompactAsync("d", mkStrategy())
	_ = worker.CompactAsync("other", mkStrategy()) // refused while the first one runs, or served
	h.Go(func() { werr = ds.StoreEntities([]*server.Entity{vMk("ns0:e1", w)}) })
	h.Assert(h.Wait(), "compactions and writer complete")
	h.Assert(e1 == nil, "the first compaction request is accepted")
	h.Assert(werr == nil, "the write succeeds while compaction runs")
	after := vObserve(h, hub, nil)
	h.Assert(after.list == want.list, "latest view is the one the write produces, compaction invisible :: got="+after.list+" want="+want.list)
	h.Assert(after.lookup == want.lookup, "entity lookup as without compaction :: got="+after.lookup+" want="+want.lookup)
	h.Assert(after.latestFeed == want.latestFeed, "latest-only feed as without compaction :: got="+after.latestFeed+" want="+want.latestFeed)
	h.Assert(vDedupOf(want.feed, after.feed), "full feed = uncompacted feed minus only versions identical to their predecessor :: got="+server.VJoin(after.feed)+" uncompacted="+server.VJoin(want.feed))
	h.Observe("feed", len(after.feed))
}
