//go:build verif

package dataset

import (
	"encoding/binary"
	"time"

	"github.com/dgraph-io/badger/v4"

	"github.com/mimiro-io/datahub/internal/server"
	"github.com/mimiro-io/datahub/internal/service/entity"
	"github.com/mimiro-io/datahub/internal/verifh"
)

type vShape struct {
	val string
	ref string
	del bool
}

func vMk(id string, s vShape) *server.Entity {
	e := server.NewEntity(id, 0)
	if s.val != "" {
		e.Properties["ns0:v"] = s.val
	}
	if s.ref != "" {
		e.References["ns0:p1"] = s.ref
	}
	e.IsDeleted = s.del
	return e
}

// vLegacyDuplicate appends a version identical to the entity's current one,
// the way datasets written before the equality check hold them: write the
// toggled-deleted version, write the original again, then remove the
// intermediate version's json, change log and reference keys.
func vLegacyDuplicate(h *verifh.H, hub *server.VHub, ba server.BadgerAccess, dsName, id string) uint64 {
	ds := hub.Dsm.GetDataset(dsName)
	ent, err := hub.Store.GetEntity(id, []string{dsName}, true)
	h.Assert(err == nil && ent != nil, "current version readable")
	// GetEntity returns a skeleton for deleted versions; take the content from the listing instead
	res, err := ds.GetEntities("", -1)
	h.Assert(err == nil, "listing readable")
	for _, e := range res.Entities {
		if e.ID == id {
			ent = e
		}
	}
	ent.IsDeleted = !ent.IsDeleted
	h.Assert(ds.StoreEntities([]*server.Entity{ent}) == nil, "intermediate write")
	next, err := ds.ProcessChangesRaw(0, 1000, false, func([]byte) error { return nil })
	h.Assert(err == nil, "feed readable")
	changeKey := make([]byte, 22)
	binary.BigEndian.PutUint16(changeKey, server.DatasetEntityChangeLog)
	binary.BigEndian.PutUint32(changeKey[2:], ds.InternalID)
	binary.BigEndian.PutUint64(changeKey[6:], next-1)
	binary.BigEndian.PutUint64(changeKey[14:], ent.InternalID)
	var jsonKey []byte
	var refs [][]byte
	_ = ba.GetDB().View(func(txn *badger.Txn) error {
		item, err := txn.Get(changeKey)
		h.Assert(err == nil, "intermediate change entry found")
		if err != nil {
			return nil
		}
		jsonKey, _ = item.ValueCopy(nil)
		refs, _ = findRefs(ent, jsonKey, txn, entity.Lookup{})
		return nil
	})
	ent.IsDeleted = !ent.IsDeleted
	h.Assert(ds.StoreEntities([]*server.Entity{ent}) == nil, "duplicate write")
	_ = ba.GetDB().Update(func(txn *badger.Txn) error {
		_ = txn.Delete(jsonKey)
		_ = txn.Delete(changeKey)
		for _, r := range refs {
			_ = txn.Delete(r)
		}
		return nil
	})
	return ent.Recorded
}

type vObs struct {
	list, lookup, latestFeed string
	pit, relAt               []string
	relNow                   string
	feed                     []string
}

func vObserve(h *verifh.H, hub *server.VHub, times []int64) *vObs {
	o := &vObs{}
	ds := hub.Dsm.GetDataset("d")
	res, err := ds.GetEntities("", -1)
	h.Assert(err == nil, "listing")
	o.list = server.VJoin(server.VSorted(server.VRenderList(res.Entities)))
	for _, id := range []string{"ns0:e1"} {
		e, err := hub.Store.GetEntity(id, []string{"d"}, true)
		h.Assert(err == nil, "lookup")
		o.lookup += server.VRenderEntity(e) + ";"
	}
	scope := hub.Store.DatasetsToInternalIDs([]string{"d"})
	rid, _ := hub.VInternalID("ns0:e1")
	for _, t := range times {
		e, err := hub.Store.GetEntityAtPointInTimeWithInternalID(rid, t, scope, true)
		h.Assert(err == nil, "point-in-time lookup")
		o.pit = append(o.pit, server.VRenderEntity(e))
		s := ""
		for _, start := range []string{"ns0:e1", "ns0:e2", "ns0:e3"} {
			for inv := 0; inv < 2; inv++ {
				from, err := hub.Store.ToRelatedFrom([]string{start}, "*", inv == 1, []string{"d"}, t)
				if err != nil || len(from) == 0 || from[0] == nil {
					s += "|"
					continue
				}
				r, err := hub.Store.GetManyRelatedEntitiesAtTime(from, 0, true)
				h.Assert(err == nil, "point-in-time relationship query")
				s += server.VJoin(server.VRelPairs(r.Relations)) + "|"
			}
		}
		o.relAt = append(o.relAt, s)
	}
	for _, start := range []string{"ns0:e1", "ns0:e2", "ns0:e3"} {
		for inv := 0; inv < 2; inv++ {
			r, err := hub.Store.GetManyRelatedEntitiesBatch([]string{start}, "*", inv == 1, []string{"d"}, 0, true)
			if err == nil {
				o.relNow += server.VJoin(server.VRelPairs(r.Relations))
			}
			o.relNow += "|"
		}
	}
	lo, err := ds.GetChanges(0, 0, true)
	h.Assert(err == nil, "latest-only feed")
	o.latestFeed = server.VJoin(server.VRenderList(lo.Entities))
	ch, err := ds.GetChanges(0, 0, false)
	h.Assert(err == nil, "feed")
	o.feed = server.VRenderList(ch.Entities)
	return o
}

// VerifC12Compact: deduplicating compaction of a dataset whose entity has any
// version chain in the box (values flipping back and forth, a reference kept
// across property changes, delete/un-delete, a legacy duplicate injected at
// any position) leaves the latest view, lookups, current and point-in-time
// relationship queries and the latest-only feed unchanged, and the full feed
// equal to the old one minus the versions identical to their predecessor.
func VerifC12Compact(h *verifh.H) {
	hub := server.VerifNewHub(h)
	ds, err := hub.Dsm.CreateDataset("d", nil)
	h.Assert(err == nil, "create")
	ba := server.NewBadgerAccess(hub.Store, hub.Dsm)
	n := 1 + h.Choice("chain", h.Param("maxChain", 3))
	dupAt := h.Choice("dupAt", n+1) - 1 // -1: no legacy duplicate
	var times []int64
	vals := []string{"x", "y"}
	refs := []string{"", "ns0:e2", "ns0:e3"}[:h.Param("refs", 2)]
	for k := 0; k < n; k++ {
		s := vShape{val: vals[h.Choice("val", 2)], ref: refs[h.Choice("ref", len(refs))], del: h.Choice("del", 2) == 1}
		e := vMk("ns0:e1", s)
		h.Assert(ds.StoreEntities([]*server.Entity{e}) == nil, "write")
		times = append(times, int64(e.Recorded), time.Now().UnixNano())
		if k == dupAt {
			t := vLegacyDuplicate(h, hub, ba, "d", "ns0:e1")
			times = append(times, int64(t), time.Now().UnixNano())
		}
	}
	before := vObserve(h, hub, times)
	thr := []int{1, 2, 100000}[h.Choice("threshold", h.Param("thresholds", 2))]
	strategy := &deduplicationStrategy{counts: make(map[string]int), changeBuffer: make(map[[24]byte]byte), flushAfter: thr}
	worker := NewCompactor(hub.Store, hub.Dsm, hub.Env.Logger)
	h.Assert(worker.compact("d", strategy) == nil, "compaction succeeds")
	after := vObserve(h, hub, times)

	h.Assert(after.list == before.list, "latest view unchanged by compaction :: before="+before.list+" after="+after.list)
	h.Assert(after.lookup == before.lookup, "entity lookup unchanged by compaction :: before="+before.lookup+" after="+after.lookup)
	h.Assert(server.VJoin(after.pit) == server.VJoin(before.pit), "point-in-time lookups unchanged by compaction :: before="+server.VJoin(before.pit)+" after="+server.VJoin(after.pit))
	h.Assert(after.relNow == before.relNow, "current relationship queries unchanged by compaction :: before="+before.relNow+" after="+after.relNow)
	h.Assert(server.VJoin(after.relAt) == server.VJoin(before.relAt), "point-in-time relationship queries unchanged by compaction :: before="+server.VJoin(before.relAt)+" after="+server.VJoin(after.relAt))
	h.Assert(after.latestFeed == before.latestFeed, "latest-only feed unchanged by compaction :: before="+before.latestFeed+" after="+after.latestFeed)
	// full feed: old minus the versions identical to their immediate predecessor
	var want []string
	for k, v := range before.feed {
		if k > 0 && before.feed[k-1] == v {
			continue
		}
		want = append(want, v)
	}
	h.Assert(server.VJoin(after.feed) == server.VJoin(want), "full feed = old feed minus versions identical to their predecessor :: after="+server.VJoin(after.feed)+" want="+server.VJoin(want))
	h.Observe("feed", len(after.feed))
}
