//go:build verif

package server

import (
	"github.com/mimiro-io/datahub/internal/verifh"
)

type vJobState struct {
	ID                string `json:"id"`
	ContinuationToken string `json:"token"`
}

// vObserveAll renders every answer of the data-side read APIs.
func (hs *vHistory) vObserveAll(h *verifh.H) string {
	out := ""
	var names []string
	for _, n := range hs.hub.Dsm.GetDatasetNames() {
		names = append(names, n.Name)
	}
	names = vSorted(names)
	out += "datasets=" + vJoin(names)
	for _, n := range names {
		if n == "core.Dataset" {
			res, err := hs.hub.Dsm.GetDataset(n).GetEntities("", -1)
			h.Assert(err == nil, "core listing")
			out += " core=" + vJoin(vSorted(vRenderList(res.Entities)))
			continue
		}
		out += " [" + n + ": " + hs.vObserveDataset(h, n)
		ch, err := hs.hub.Dsm.GetDataset(n).GetChanges(0, 0, false)
		h.Assert(err == nil, "feed")
		out += " token=" + itoa(int(ch.NextToken))
		// the context the entities/changes endpoints hand out for this dataset (public namespaces)
		var cns []string
		if ch.Context != nil {
			for p, e := range ch.Context.Namespaces {
				cns = append(cns, p+"="+e)
			}
		}
		out += " ctx=" + vJoin(vSorted(cns)) + "]"
	}
	ctx := hs.hub.Store.GetGlobalContext(false)
	var ns []string
	for p, e := range ctx.Namespaces {
		ns = append(ns, p+"="+e)
	}
	out += " ns=" + vJoin(vSorted(ns))
	js := &vJobState{}
	_ = hs.hub.Store.GetObject(JobDataIndex, "job-1", js)
	out += " job=" + js.ID + "/" + js.ContinuationToken
	for _, id := range []string{"ns0:e1", "ns0:e2"} {
		e, err := hs.hub.Store.GetEntity(id, nil, true)
		h.Assert(err == nil, "lookup")
		out += " u=" + vRenderEntity(e)
	}
	return out
}

// VerifC14Restart: closing and reopening the hub at a quiescent point yields
// identical answers from the data-side read APIs (dataset list, entities,
// changes and tokens, queries, namespaces, stored job state); writes after the
// restart reuse no internal identifier and no change position, and deleted
// datasets stay deleted.
func VerifC14Restart(h *verifh.H) {
	hs := vNewHistory(h, "a", "b")
	g := hs.g
	cur := "a"
	lastCreated := ""
	maxDsID := uint32(0)
	for _, n := range []string{"a", "b"} {
		if id := hs.hub.Dsm.GetDataset(n).InternalID; id > maxDsID {
			maxDsID = id
		}
	}
	nops := h.Param("ops", 2)
	recreatedA := false
	for k := 0; k < nops; k++ {
		switch h.Choice("op", h.Param("opKinds", 9)) {
		case 8: // a READ addressed with a full URI in a namespace the hub has never seen (lookup by
			// URI, query start point): whatever prefix that hands out is part of the namespaces answer
			_, err := hs.hub.Store.GetEntity("http://example.com/r"+itoa(k)+"/thing", nil, true)
			h.Assert(err == nil, "lookup by full URI answered")
			_, _ = hs.hub.Store.GetManyRelatedEntitiesBatch([]string{"http://example.com/q" + itoa(k) + "/start"}, "*", false, nil, 0, true)
		case 6: // the dataset known as a is renamed
			if cur == "" {
				h.Assume(false)
			}
			nn := "r" + itoa(k)
			_, err := hs.hub.Dsm.UpdateDataset(cur, &UpdateDatasetConfig{ID: nn})
			h.Assert(err == nil, "rename accepted")
			g.renameDS(cur, nn)
			cur = nn
		case 7: // a dataset is created under the name a after that name was renamed or deleted away
			if cur == "a" || recreatedA {
				h.Assume(false)
			}
			nd, err := hs.hub.Dsm.CreateDataset("a", nil)
			h.Assert(err == nil, "create under a freed name accepted")
			g.createDS("a")
			recreatedA = true
			if err == nil && nd.InternalID > maxDsID {
				maxDsID = nd.InternalID
			}
		case 5: // the public namespaces of dataset b are changed through its meta-entity in core.Dataset
			nsi, err := hs.hub.Store.NamespaceManager.GetDatasetNamespaceInfo()
			h.Assert(err == nil, "namespace info")
			meta, err := hs.hub.Store.GetEntity(nsi.DatasetPrefix+":b", []string{"core.Dataset"}, true)
			h.Assert(err == nil && meta != nil, "meta-entity of b")
			if meta == nil {
				return
			}
			meta.Properties[nsi.PublicNamespacesKey] = []interface{}{"http://example.com/pub" + itoa(k) + "/"}
			h.Assert(hs.hub.Dsm.GetDataset("core.Dataset").StoreEntities([]*Entity{meta}) == nil, "meta-entity stored")
		case 0: // write
			name := "b"
			if cur != "" && h.Choice("toA", 2) == 1 {
				name = cur
			}
			v := drawVersion(h, []string{"ns0:e1", "ns0:e2"}, []string{"ns0:e2", "ns0:e3"}, famMixed)
			h.Assert(hs.hub.Dsm.GetDataset(name).StoreEntities([]*Entity{mkEntity(v)}) == nil, "write accepted")
			g.write(name, []*mVersion{v})
		case 1: // delete a, or the dataset created last
			if lastCreated != "" && h.Choice("delLast", 2) == 1 {
				h.Assert(hs.hub.Dsm.DeleteDataset(lastCreated) == nil, "delete accepted")
				g.deleteDS(lastCreated)
				lastCreated = ""
				break
			}
			if cur == "" {
				h.Assume(false)
			}
			h.Assert(hs.hub.Dsm.DeleteDataset(cur) == nil, "delete accepted")
			g.deleteDS(cur)
			cur = ""
		case 2: // assert a new namespace
			_, err := hs.hub.Store.GetNamespacedIdentifier("http://example.com/k"+itoa(k)+"/thing", nil)
			h.Assert(err == nil, "namespace asserted")
		case 3: // store job state
			h.Assert(hs.hub.Store.StoreObject(JobDataIndex, "job-1", &vJobState{ID: "job-1", ContinuationToken: "tok" + itoa(k)}) == nil, "job state stored")
		case 4: // create another dataset
			nd, err := hs.hub.Dsm.CreateDataset("c"+itoa(k), nil)
			h.Assert(err == nil, "create accepted")
			g.createDS("c" + itoa(k))
			lastCreated = "c" + itoa(k)
			if err == nil && nd.InternalID > maxDsID {
				maxDsID = nd.InternalID
			}
		}
	}
	before := hs.vObserveAll(h)
	// highest internal id and change position in use before the restart
	maxID := uint64(0)
	for _, id := range []string{"ns0:e1", "ns0:e2", "ns0:e3", "ns0:p1", "ns0:new"} {
		rtxn := hs.hub.Store.database.NewTransaction(false)
		rid, ok, _ := hs.hub.Store.getIDForURI(rtxn, id)
		rtxn.Discard()
		if ok && rid > maxID {
			maxID = rid
		}
	}
	chB, err := hs.hub.Dsm.GetDataset("b").GetChanges(0, 0, false)
	h.Assert(err == nil, "feed b")
	hs.hub = hs.hub.Restart()
	after := hs.vObserveAll(h)
	h.Assert(before == after, "every read API answers the same after a restart :: before="+before+" after="+after)
	// one more write with a brand-new id
	nv := &mVersion{ID: "ns0:new", Props: map[string]string{"ns0:v": "x"}, Refs: map[string][]string{}}
	h.Assert(hs.hub.Dsm.GetDataset("b").StoreEntities([]*Entity{mkEntity(nv)}) == nil, "write after restart accepted")
	rtxn := hs.hub.Store.database.NewTransaction(false)
	rid, ok, _ := hs.hub.Store.getIDForURI(rtxn, "ns0:new")
	rtxn.Discard()
	h.Assert(ok && rid > maxID, "a new identifier after the restart is not a reused one :: new="+itoa(int(rid))+" maxBefore="+itoa(int(maxID)))
	nc, err := hs.hub.Dsm.GetDataset("b").GetChanges(chB.NextToken, 0, false)
	h.Assert(err == nil && len(nc.Entities) == 1 && nc.NextToken > chB.NextToken, "the write after the restart gets a change position beyond the old end")
	// a dataset created after the restart is a fresh one: a new internal id, no changes, no
	// entities, and what is written to it can be looked up in it
	fresh, err := hs.hub.Dsm.CreateDataset("fresh", nil)
	h.Assert(err == nil, "create after restart accepted")
	if err == nil {
		h.Assert(fresh.InternalID > maxDsID, "a dataset created after the restart does not reuse an internal dataset id :: new="+itoa(int(fresh.InternalID))+" maxBefore="+itoa(int(maxDsID)))
		fc, err := fresh.GetChanges(0, 0, false)
		h.Assert(err == nil && len(fc.Entities) == 0, "a dataset created after the restart has no changes")
		fe, err := fresh.GetEntities("", -1)
		h.Assert(err == nil && len(fe.Entities) == 0, "a dataset created after the restart has no entities")
		h.Assert(fresh.StoreEntities([]*Entity{mkEntity(nv)}) == nil, "write to the fresh dataset accepted")
		le, err := hs.hub.Store.GetEntity("ns0:new", []string{"fresh"}, true)
		h.Assert(err == nil && le != nil && len(le.Properties) == 1, "an entity written to the fresh dataset is found by a lookup scoped to it")
	}
	if cur == "" {
		if !recreatedA {
			h.Assert(hs.hub.Dsm.GetDataset("a") == nil, "a deleted dataset stays deleted after the restart")
		}
		hs.vCheckUnscoped(h, "after restart")
	}
	h.Observe("ops", nops)
}
