//go:build verif

package server

// Exported shims for harnesses living in other packages.

func VRenderEntity(e *Entity) string             { return vRenderEntity(e) }
func VRenderList(es []*Entity) []string          { return vRenderList(es) }
func VRelPairs(r []RelatedEntityResult) []string { return vRelPairs(r) }
func VJoin(xs []string) string                   { return vJoin(xs) }
func VSorted(xs []string) []string               { return vSorted(xs) }
func VItoa(n int) string                         { return itoa(n) }

// VInternalID resolves a CURIE to its internal id.
func (hub *VHub) VInternalID(curie string) (uint64, bool) {
	rtxn := hub.Store.database.NewTransaction(false)
	defer rtxn.Discard()
	rid, ok, _ := hub.Store.getIDForURI(rtxn, curie)
	return rid, ok
}
func VB(b bool) string { return vB(b) }
