//go:build verif

package server

import (
	"time"

	"github.com/mimiro-io/datahub/internal/verifh"
)

// vObserve renders everything the read APIs say about dataset name (which
// must exist) plus the unscoped view of the id pool.
func (hs *vHistory) vObserveDataset(h *verifh.H, name string) string {
	ds := hs.hub.Dsm.GetDataset(name)
	if ds == nil {
		return "<no dataset " + name + ">"
	}
	out := ""
	res, err := ds.GetEntities("", -1)
	h.Assert(err == nil, "listing succeeds")
	out += "list=" + vJoin(vSorted(vRenderList(res.Entities)))
	ch, err := ds.GetChanges(0, 0, false)
	h.Assert(err == nil, "feed succeeds")
	out += " feed=" + vJoin(vRenderList(ch.Entities))
	for _, id := range []string{"ns0:e1", "ns0:e2"} {
		e, err := hs.hub.Store.GetEntity(id, []string{name}, true)
		h.Assert(err == nil, "lookup succeeds")
		if e != nil {
			out += " lookup=" + vRenderEntity(e)
		}
		for inv := 0; inv < 2; inv++ {
			r, err := hs.hub.Store.GetManyRelatedEntitiesBatch([]string{id}, "*", inv == 1, []string{name}, 0, true)
			if err == nil {
				out += " rel=" + vJoin(vRelPairs(r.Relations))
			}
		}
	}
	return out
}

func (hs *vHistory) mObserveDataset(name string) string {
	md := hs.g.DS[name]
	var list []string
	for _, id := range md.Order {
		list = append(list, mRender(md.Latest[id]))
	}
	out := "list=" + vJoin(vSorted(list)) + " feed=" + vJoin(mFeedRender(md, false))
	return out
}

// vCheckUnscoped: unscoped lookups and relationship queries see exactly the
// datasets that exist (reference model), nothing of deleted ones.
func (hs *vHistory) vCheckUnscoped(h *verifh.H, when string) {
	for _, id := range []string{"ns0:e1", "ns0:e2"} {
		want, found, _ := hs.g.mMergeRender(id, nil)
		e, err := hs.hub.Store.GetEntity(id, nil, true)
		h.Assert(err == nil, "unscoped lookup succeeds")
		if !found {
			h.Assert(e == nil || (len(e.Properties) == 0 && len(e.References) == 0), "unscoped lookup returns nothing of deleted datasets :: "+when+" id="+id+" got="+vRenderEntity(e))
		} else {
			h.Assert(e != nil && vRenderEntity(e) == want, "unscoped lookup equals the merge over the existing datasets :: "+when+" got="+vRenderEntity(e)+" want="+want)
		}
	}
	for _, start := range []string{"ns0:e1", "ns0:e2", "ns0:e3"} {
		for inv := 0; inv < 2; inv++ {
			want := hs.g.related(start, "ns0:p1", inv == 1, nil)
			r, err := hs.hub.Store.GetManyRelatedEntitiesBatch([]string{start}, "ns0:p1", inv == 1, nil, 0, true)
			if err != nil {
				h.Assert(len(want) == 0, "query error only for identifiers never stored")
				continue
			}
			h.Assert(vJoin(vRelPairs(r.Relations)) == vJoin(want), "unscoped relationship query sees exactly the existing datasets :: "+when+" start="+start+" inverse="+vB(inv == 1)+" got="+vJoin(vRelPairs(r.Relations))+" want="+vJoin(want))
		}
	}
}

// VerifC07Lifecycle: after a dataset is deleted nothing written to it is
// returned by any read API, before or after garbage collection and restart;
// re-creating the name gives an empty dataset with a fresh feed; renaming
// keeps the content under the new name only; the surviving dataset's
// observable state never changes.
func VerifC07Lifecycle(h *verifh.H) {
	hs := vNewHistory(h, "a", "b")
	g := hs.g
	// surviving dataset b: one fixed-shape write sharing ids and references with a
	bv := &mVersion{ID: "ns0:e1", Props: map[string]string{"ns0:v": "x"}, Refs: map[string][]string{"ns0:p1": {"ns0:e2"}}}
	if h.Choice("bdel", 2) == 1 {
		bv.Deleted = true
	}
	h.Assert(hs.dss["b"].StoreEntities([]*Entity{mkEntity(bv)}) == nil, "write b")
	g.write("b", []*mVersion{bv})
	// dataset a: one drawn write
	av := drawVersion(h, []string{"ns0:e1", "ns0:e2"}, []string{"ns0:e2", "ns0:e3"}, famMixed)
	h.Assert(hs.dss["a"].StoreEntities([]*Entity{mkEntity(av)}) == nil, "write a")
	g.write("a", []*mVersion{av})

	wantB := hs.mObserveDataset("b")
	obsB := hs.vObserveDataset(h, "b")
	cur := "a" // current name of the dataset under test; "" when deleted
	nops := h.Param("ops", 2)
	for k := 0; k < nops; k++ {
		op := h.Choice("op", 6)
		if h.Param("lifecycleOnly", 0) == 1 {
			h.Assume(op == 0 || op == 1 || op == 3) // delete, re-create, garbage collection
		}
		when := "op" + itoa(k) + "=" + itoa(op)
		switch op {
		case 0: // delete
			if cur == "" {
				h.Assume(false)
			}
			h.Assert(hs.hub.Dsm.DeleteDataset(cur) == nil, "delete accepted")
			g.deleteDS(cur)
			cur = ""
		case 1: // (re-)create under the original name
			if cur != "" {
				h.Assume(false)
			}
			ds, err := hs.hub.Dsm.CreateDataset("a", nil)
			h.Assert(err == nil && ds != nil, "re-create accepted")
			g.createDS("a")
			cur = "a"
			res, err := ds.GetEntities("", -1)
			h.Assert(err == nil && len(res.Entities) == 0, "a re-created dataset is empty :: "+when)
			ch, err := ds.GetChanges(0, 0, false)
			h.Assert(err == nil && len(ch.Entities) == 0, "a re-created dataset has a fresh change feed :: "+when)
		case 2: // rename
			if cur != "a" {
				h.Assume(false)
			}
			_, err := hs.hub.Dsm.UpdateDataset("a", &UpdateDatasetConfig{ID: "c"})
			h.Assert(err == nil, "rename accepted")
			g.renameDS("a", "c")
			cur = "c"
			h.Assert(hs.hub.Dsm.GetDataset("a") == nil, "the old name is gone after a rename")
		case 3: // garbage collection
			h.Assert(NewGarbageCollector(hs.hub.Store, hs.hub.Env).Cleandeleted() == nil, "gc succeeds")
		case 4: // restart
			hs.hub = hs.hub.Restart()
		case 5: // write to the dataset under test
			if cur == "" {
				h.Assume(false)
			}
			wv := &mVersion{ID: "ns0:e2", Props: map[string]string{"ns0:v": "y"}, Refs: map[string][]string{"ns0:p1": {"ns0:e3"}}}
			h.Assert(hs.hub.Dsm.GetDataset(cur).StoreEntities([]*Entity{mkEntity(wv)}) == nil, "write accepted")
			g.write(cur, []*mVersion{wv})
		}
		// the surviving dataset is unaffected
		nowB := hs.vObserveDataset(h, "b")
		h.Assert(nowB == obsB, "the other dataset's observable state is unaffected :: "+when+" before="+obsB+" after="+nowB)
		h.Assert(vJoin([]string{wantB}) != "", "model sanity")
		// the dataset under test: content reachable under its current name only
		if cur != "" {
			got := hs.vObserveDataset(h, cur)
			want := hs.mObserveDataset(cur)
			h.Assert(len(got) >= len(want) && got[:len(want)] == want, "content is reachable under the current name :: "+when+" got="+got+" want="+want)
		}
		for _, n := range []string{"a", "c"} {
			if n != cur {
				h.Assert(hs.hub.Dsm.GetDataset(n) == nil, "a deleted or renamed-away name does not resolve :: "+when+" name="+n)
			}
		}
		hs.vCheckUnscoped(h, when)
	}
	h.Observe("cur", cur)
}

// VerifC07Contextual: a contextual store (the store handle a running job's
// transform queries through) created before a dataset is deleted must not
// return that dataset's data afterwards.
func VerifC07Contextual(h *verifh.H) {
	hs := vNewHistory(h, "a", "b")
	av := drawVersion(h, []string{"ns0:e1", "ns0:e2"}, []string{"ns0:e2", "ns0:e3"}, famMixed)
	h.Assert(hs.dss["a"].StoreEntities([]*Entity{mkEntity(av)}) == nil, "write a")
	hs.g.write("a", []*mVersion{av})
	ctx := NewContextualStore(hs.hub.Store)
	h.Assert(hs.hub.Dsm.DeleteDataset("a") == nil, "delete accepted")
	hs.g.deleteDS("a")
	e, err := ctx.GetEntity(av.ID, nil, true)
	h.Assert(err == nil, "lookup succeeds")
	h.Assert(e == nil || (len(e.Properties) == 0 && len(e.References) == 0), "a contextual store created before the delete returns nothing of the deleted dataset :: got="+vRenderEntity(e))
	// relationship queries through the same contextual store (what Query / PagedQuery of a
	// transform registered before the delete run on): nothing of the deleted dataset either
	for _, start := range []string{"ns0:e1", "ns0:e2", "ns0:e3"} {
		for inv := 0; inv < 2; inv++ {
			want := hs.g.related(start, "*", inv == 1, nil)
			res, qerr := ctx.GetManyRelatedEntitiesBatch([]string{start}, "*", inv == 1, nil, 0, true)
			if qerr != nil {
				continue
			}
			got := vRelPairs(res.Relations)
			h.Assert(vJoin(got) == vJoin(want), "a contextual store created before the delete returns no relationship of the deleted dataset :: start="+start+" inverse="+vB(inv == 1)+" got="+vJoin(got)+" want="+vJoin(want))
		}
	}
	// the shared store itself filters at once
	e2, err := hs.hub.Store.GetEntity(av.ID, nil, true)
	h.Assert(err == nil && (e2 == nil || (len(e2.Properties) == 0 && len(e2.References) == 0)), "the store filters the deleted dataset at once")
}

// VerifC07CrashDelete: if the process dies in the middle of DeleteDataset (or
// rename), after restart the dataset is either still fully there or deleted
// for every read API; the other dataset is unaffected either way.
func VerifC07CrashDelete(h *verifh.H) {
	env := VerifConfig(h, time.Hour)
	g := newMGraph("a", "b")
	bv := &mVersion{ID: "ns0:e1", Props: map[string]string{"ns0:v": "x"}, Refs: map[string][]string{"ns0:p1": {"ns0:e2"}}}
	g.write("b", []*mVersion{bv})
	av := drawVersion(h, []string{"ns0:e1", "ns0:e2"}, []string{"ns0:e2", "ns0:e3"}, famMixed)
	g.write("a", []*mVersion{av})
	rename := h.Choice("rename", 2) == 1
	if h.BeforeCrash() {
		hub := VerifOpenHub(env)
		da, err := hub.Dsm.CreateDataset("a", nil)
		h.Assert(err == nil, "create a")
		db, err := hub.Dsm.CreateDataset("b", nil)
		h.Assert(err == nil, "create b")
		h.Assert(db.StoreEntities([]*Entity{mkEntity(bv)}) == nil, "write b")
		h.Assert(da.StoreEntities([]*Entity{mkEntity(av)}) == nil, "write a")
		if h.Param("commitPoints", 0) == 1 {
			h.CrashAtCommits()
		}
		h.CrashWindowStart()
		if rename {
			_, err := hub.Dsm.UpdateDataset("a", &UpdateDatasetConfig{ID: "c"})
			h.Assert(err == nil, "rename accepted")
		} else {
			h.Assert(hub.Dsm.DeleteDataset("a") == nil, "delete accepted")
		}
	}
	h.CrashAndRecover()
	hs := &vHistory{hub: VerifOpenHub(env), g: g, dsn: []string{"a", "b"}}
	gotB := vObsCore(h, hs.hub, "b")
	h.Assert(gotB == mObsCore(g, "b"), "the other dataset is unaffected by a crash inside delete/rename :: got="+gotB+" want="+mObsCore(g, "b"))
	wantA := mObsCore(g, "a")
	if rename {
		a, c := hs.hub.Dsm.GetDataset("a"), hs.hub.Dsm.GetDataset("c")
		h.Assert((a != nil) != (c != nil), "after a crash inside rename the content is reachable under exactly one name")
		name := "a"
		if c != nil {
			name = "c"
			g.renameDS("a", "c")
		}
		got := vObsCore(h, hs.hub, name)
		wantA = mObsCore(g, name)
		h.Assert(got == wantA, "the renamed dataset keeps all content across the crash :: got="+got+" want="+wantA)
		if h.Acked() {
			h.Assert(name == "c", "an acknowledged rename is in effect after the crash")
		}
	} else {
		if hs.hub.Dsm.GetDataset("a") != nil {
			got := vObsCore(h, hs.hub, "a")
			h.Assert(got == wantA, "a dataset whose delete did not take effect is fully there :: got="+got+" want="+wantA)
			h.Assert(!h.Acked(), "an acknowledged delete is in effect after the crash")
		} else {
			g.deleteDS("a")
		}
	}
	hs.vCheckUnscoped(h, "after crash")
	h.Observe("acked", h.Acked())
}

// VerifC07PagedAcrossDelete: a paged relationship query (scoped to the dataset,
// scoped to both datasets, or unscoped) hands out a continuation; then the
// dataset is deleted (and optionally re-created, garbage collected or the hub
// restarted); following the continuation returns nothing that was written to
// the deleted dataset — only what the surviving dataset still carries.
func VerifC07PagedAcrossDelete(h *verifh.H) {
	hs := vNewHistory(h, "a", "b")
	g := hs.g
	qa := &mVersion{ID: "ns0:q", Props: map[string]string{"ns0:v": "a"}, Refs: map[string][]string{"ns0:p1": {"ns0:e2", "ns0:e3"}}}
	qb := &mVersion{ID: "ns0:q", Props: map[string]string{"ns0:v": "b"}, Refs: map[string][]string{"ns0:p1": {"ns0:e2"}}}
	h.Assert(hs.dss["a"].StoreEntities([]*Entity{mkEntity(qa)}) == nil, "write a")
	g.write("a", []*mVersion{qa})
	if h.Choice("bHasQ", 2) == 1 {
		h.Assert(hs.dss["b"].StoreEntities([]*Entity{mkEntity(qb)}) == nil, "write b")
		g.write("b", []*mVersion{qb})
	}
	st := hs.hub.Store
	scope := [][]string{{"a"}, {"a", "b"}, nil}[h.Choice("scope", 3)]
	inverse := h.Choice("inverse", 2) == 1
	start := "ns0:q"
	if inverse {
		start = "ns0:e2"
	}
	from, err := st.ToRelatedFrom([]string{start}, "*", inverse, scope, time.Now().UnixNano())
	h.Assert(err == nil && len(from) > 0, "query start")
	if err != nil || len(from) == 0 {
		return
	}
	p1, err := st.GetManyRelatedEntitiesAtTime(from, 1, true)
	h.Assert(err == nil, "first page")
	cont := p1.Cont
	// a client also pages the dataset's listing and feed and keeps the tokens of its first pages
	extra := &mVersion{ID: "ns0:z", Props: map[string]string{"ns0:v": "a"}, Refs: map[string][]string{}}
	h.Assert(hs.dss["a"].StoreEntities([]*Entity{mkEntity(extra)}) == nil, "write a")
	g.write("a", []*mVersion{extra})
	lp, err := hs.dss["a"].GetEntities("", 1)
	h.Assert(err == nil && len(lp.Entities) == 1, "first listing page")
	listTok := lp.ContinuationToken
	cp, err := hs.dss["a"].GetChanges(0, 1, false)
	h.Assert(err == nil && len(cp.Entities) == 1, "first feed page")
	feedTok := cp.NextToken
	// the dataset is deleted; optionally something else happens before the continuation is used
	h.Assert(hs.hub.Dsm.DeleteDataset("a") == nil, "delete accepted")
	g.deleteDS("a")
	switch h.Choice("then", 4) {
	case 1:
		_, err := hs.hub.Dsm.CreateDataset("a", nil)
		h.Assert(err == nil, "re-create accepted")
		g.createDS("a")
	case 2:
		h.Assert(NewGarbageCollector(hs.hub.Store, hs.hub.Env).Cleandeleted() == nil, "gc succeeds")
	case 3:
		hs.hub = hs.hub.Restart()
		st = hs.hub.Store
	}
	allowed := g.related(start, "*", inverse, []string{"b"})
	for page := 0; len(cont) > 0 && page < 5; page++ {
		next, err := st.GetManyRelatedEntitiesAtTime(cont, 1, true)
		h.Assert(err == nil, "continuation accepted after the delete")
		if err != nil {
			break
		}
		for _, r := range vRelPairs(next.Relations) {
			h.Assert(vIn(allowed, r), "a continued page returns nothing that was written to the deleted dataset :: relation="+r+" surviving="+vJoin(allowed))
		}
		for _, r := range next.Relations {
			if r.RelatedEntity != nil && r.RelatedEntity.Properties["ns0:v"] == "a" {
				h.Fail("a continued page returns an entity version of the deleted dataset")
			}
		}
		cont = next.Cont
	}
	// the stale listing and feed tokens, presented to whatever dataset now carries the name (if
	// any) and to the surviving dataset, return nothing that was written to the deleted dataset
	for _, name := range []string{"a", "b"} {
		d := hs.hub.Dsm.GetDataset(name)
		if d == nil {
			continue
		}
		if lr, err := d.GetEntities(listTok, -1); err == nil {
			for _, e := range lr.Entities {
				h.Assert(e.Properties["ns0:v"] != "a", "a stale listing token returns nothing of the deleted dataset :: presented to "+name+" got="+vRenderEntity(e))
			}
		}
		if cr, err := d.GetChanges(feedTok, 0, false); err == nil {
			for _, e := range cr.Entities {
				h.Assert(e.Properties["ns0:v"] != "a", "a stale feed token returns nothing of the deleted dataset :: presented to "+name+" got="+vRenderEntity(e))
			}
		}
	}
	h.Observe("scope", len(scope))
}

func vIn(xs []string, x string) bool {
	for _, y := range xs {
		if y == x {
			return true
		}
	}
	return false
}

// VerifC07LateWriter: a writer that resolved dataset a before it was deleted
// (a sink in the middle of a run, a request that already looked the dataset
// up) commits its batch at any point around the delete and a garbage
// collection run (symbolic scheduling at the write path's boundaries). Whether
// the batch lands before the delete, between delete and collection, or after
// the collection, nothing written to a is visible to unscoped reads afterwards
// — at once, after another collection and after a restart — and dataset b is
// unaffected.
func VerifC07LateWriter(h *verifh.H) {
	hs := vNewHistory(h, "a", "b")
	g := hs.g
	bv := &mVersion{ID: "ns0:e1", Props: map[string]string{"ns0:v": "x"}, Refs: map[string][]string{"ns0:p1": {"ns0:e2"}}}
	h.Assert(hs.dss["b"].StoreEntities([]*Entity{mkEntity(bv)}) == nil, "write b")
	g.write("b", []*mVersion{bv})
	av := &mVersion{ID: "ns0:e1", Props: map[string]string{"ns0:v": "a0"}, Refs: map[string][]string{"ns0:p1": {"ns0:e3"}}}
	h.Assert(hs.dss["a"].StoreEntities([]*Entity{mkEntity(av)}) == nil, "write a")
	late := &mVersion{ID: "ns0:e1", Props: map[string]string{"ns0:v": "late"}, Refs: map[string][]string{"ns0:p1": {"ns0:e3"}}}
	if h.Choice("lateOther", 2) == 1 {
		late = &mVersion{ID: "ns0:e2", Props: map[string]string{"ns0:v": "late"}, Refs: map[string][]string{"ns0:p1": {"ns0:e1"}}}
	}
	dsA := hs.dss["a"] // the handle the late writer holds
	obsB := hs.vObserveDataset(h, "b")
	var derr, gerr error
	h.SymbolicTxns() // every Badger transaction start of /repo code is a scheduling point too
	h.SymbolicSched(h.Param("preemptions", 2))
	h.Go(func() { _ = dsA.StoreEntities([]*Entity{mkEntity(late)}) })
	h.Go(func() {
		derr = hs.hub.Dsm.DeleteDataset("a")
		gerr = NewGarbageCollector(hs.hub.Store, hs.hub.Env).Cleandeleted()
	})
	h.Assert(h.Wait(), "writer and delete complete")
	h.Assert(derr == nil && gerr == nil, "delete and garbage collection succeed")
	g.deleteDS("a")
	hs.vCheckUnscoped(h, "after the race")
	h.Assert(hs.vObserveDataset(h, "b") == obsB, "the other dataset is unaffected")
	h.Assert(NewGarbageCollector(hs.hub.Store, hs.hub.Env).Cleandeleted() == nil, "second gc succeeds")
	hs.vCheckUnscoped(h, "after another collection")
	hs.hub = hs.hub.Restart()
	hs.vCheckUnscoped(h, "after a restart")
	h.Assert(hs.vObserveDataset(h, "b") == obsB, "the other dataset is unaffected after the restart")
	h.Observe("done", true)
}
