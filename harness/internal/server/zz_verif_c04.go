//go:build verif

package server

import (
	"time"

	"github.com/mimiro-io/datahub/internal/verifh"
)

// vObsCore renders listing, feed and relationship queries of one dataset.
func vObsCore(h *verifh.H, hub *VHub, name string) string {
	ds := hub.Dsm.GetDataset(name)
	if ds == nil {
		return "<no dataset " + name + ">"
	}
	res, err := ds.GetEntities("", -1)
	h.Assert(err == nil, "listing succeeds after recovery")
	out := "list=" + vJoin(vSorted(vRenderList(res.Entities)))
	ch, err := ds.GetChanges(0, 0, false)
	h.Assert(err == nil, "feed succeeds after recovery")
	out += " feed=" + vJoin(vRenderList(ch.Entities))
	for _, id := range []string{"ns0:e1", "ns0:e2", "ns0:e3"} {
		for inv := 0; inv < 2; inv++ {
			r, err := hub.Store.GetManyRelatedEntitiesBatch([]string{id}, "ns0:p1", inv == 1, []string{name}, 0, true)
			if err == nil {
				out += " rel(" + id + "," + vB(inv == 1) + ")=" + vJoin(vRelPairs(r.Relations))
			} else {
				out += " rel(" + id + "," + vB(inv == 1) + ")="
			}
		}
	}
	return out
}

func mObsCore(g *mGraph, name string) string {
	md := g.DS[name]
	var list []string
	for _, id := range md.Order {
		list = append(list, mRender(md.Latest[id]))
	}
	out := "list=" + vJoin(vSorted(list)) + " feed=" + vJoin(mFeedRender(md, false))
	for _, id := range []string{"ns0:e1", "ns0:e2", "ns0:e3"} {
		for inv := 0; inv < 2; inv++ {
			out += " rel(" + id + "," + vB(inv == 1) + ")=" + vJoin(g.related(id, "ns0:p1", inv == 1, []string{name}))
		}
	}
	return out
}

func mClone(g *mGraph) *mGraph {
	n := newMGraph()
	n.seq = g.seq
	for _, name := range g.Names {
		d := g.DS[name]
		nd := &mDataset{Name: name, Latest: map[string]*mVersion{}, Order: append([]string{}, d.Order...), Feed: append([]*mVersion{}, d.Feed...)}
		for k, v := range d.Latest {
			nd.Latest[k] = v
		}
		n.DS[name] = nd
		n.Names = append(n.Names, name)
	}
	return n
}

var famCrash = vFamily{P1: 3, P2: false, Vals: 2, Del: true}

// vMaxPositions returns the highest internal id among the pool identifiers and
// the end token of the dataset's feed.
func vMaxPositions(h *verifh.H, hub *VHub, name string) (uint64, uint64) {
	maxID := uint64(0)
	for _, id := range []string{"ns0:e1", "ns0:e2", "ns0:e3", "ns0:p1", "ns0:v"} {
		rtxn := hub.Store.database.NewTransaction(false)
		rid, ok, _ := hub.Store.getIDForURI(rtxn, id)
		rtxn.Discard()
		if ok && rid > maxID {
			maxID = rid
		}
	}
	end := uint64(0)
	if ds := hub.Dsm.GetDataset(name); ds != nil {
		ch, err := ds.GetChanges(0, 0, false)
		h.Assert(err == nil, "feed readable")
		end = ch.NextToken
	}
	return maxID, end
}

// VerifC04CrashBatch: if the process dies at any marked boundary of
// StoreEntities (or right after it returned), then after restart the batch is
// fully present or entirely absent — versions, change entries, latest view and
// relationship index agreeing with each other — an acknowledged batch is
// present, and the store accepts writes with fresh identifiers and strictly
// increasing change positions.
func VerifC04CrashBatch(h *verifh.H) {
	env := VerifConfig(h, time.Hour)
	ids := []string{"ns0:e1", "ns0:e2"}
	targets := []string{"ns0:e2", "ns0:e3"}
	pre := newMGraph("d")
	var seed *mVersion
	if h.Choice("seeded", 2) == 1 {
		seed = drawVersion(h, ids, targets, famCrash)
		pre.write("d", []*mVersion{seed})
	}
	nb := 1 + h.Choice("two", h.Param("maxBatch", 2))
	var batch []*mVersion
	for i := 0; i < nb; i++ {
		batch = append(batch, drawVersion(h, ids, targets, famCrash))
	}
	post := mClone(pre)
	post.write("d", batch)

	if h.BeforeCrash() {
		hub := VerifOpenHub(env)
		ds, err := hub.Dsm.CreateDataset("d", nil)
		h.Assert(err == nil, "create")
		if seed != nil {
			h.Assert(ds.StoreEntities([]*Entity{mkEntity(seed)}) == nil, "seed write")
		}
		var ents []*Entity
		for _, v := range batch {
			ents = append(ents, mkEntity(v))
		}
		if h.Param("commitPoints", 0) == 1 {
			h.CrashAtCommits()
		}
		h.CrashWindowStart()
		h.Assert(ds.StoreEntities(ents) == nil, "batch accepted")
	}
	h.CrashAndRecover()

	hub := VerifOpenHub(env) // the real recovery code: NewStore/Open/loadDatasets, NewDsManager
	got := vObsCore(h, hub, "d")
	wantPre, wantPost := mObsCore(pre, "d"), mObsCore(post, "d")
	h.Assert(got == wantPre || got == wantPost, "after a crash the batch is entirely present or entirely absent, all indexes agreeing :: got="+got+" pre="+wantPre+" post="+wantPost)
	if h.Acked() {
		h.Assert(got == wantPost, "an acknowledged batch is present after the crash :: got="+got+" post="+wantPost)
	}
	// the store accepts writes again: fresh id, change position beyond the old end
	maxID, end := vMaxPositions(h, hub, "d")
	fresh := &mVersion{ID: "ns0:fresh", Props: map[string]string{"ns0:v": "x"}, Refs: map[string][]string{}}
	h.Assert(hub.Dsm.GetDataset("d").StoreEntities([]*Entity{mkEntity(fresh)}) == nil, "write after recovery accepted")
	rtxn := hub.Store.database.NewTransaction(false)
	rid, ok, _ := hub.Store.getIDForURI(rtxn, "ns0:fresh")
	rtxn.Discard()
	h.Assert(ok && rid > maxID, "no internal identifier is reused after a crash :: new="+itoa(int(rid))+" max="+itoa(int(maxID)))
	nc, err := hub.Dsm.GetDataset("d").GetChanges(end, 0, false)
	h.Assert(err == nil && len(nc.Entities) == 1 && nc.NextToken > end, "change positions keep increasing after a crash")
	h.Observe("acked", h.Acked())
}

// VerifC04CrashTxn: the same for a multi-dataset transaction: after a crash at
// any boundary of ExecuteTransaction both datasets show the transaction or
// neither does.
func VerifC04CrashTxn(h *verifh.H) {
	env := VerifConfig(h, time.Hour)
	ids := []string{"ns0:e1", "ns0:e2"}
	targets := []string{"ns0:e2", "ns0:e3"}
	pre := newMGraph("a", "b")
	va := drawVersion(h, ids, targets, famCrash)
	vb := drawVersion(h, ids, targets, famCrash)
	post := mClone(pre)
	post.write("a", []*mVersion{va})
	post.write("b", []*mVersion{vb})
	withCore := h.Param("core", 0) == 1
	rejectCore := withCore && h.Choice("rejectCore", 2) == 1
	if h.BeforeCrash() {
		hub := VerifOpenHub(env)
		_, err := hub.Dsm.CreateDataset("a", nil)
		h.Assert(err == nil, "create a")
		_, err = hub.Dsm.CreateDataset("b", nil)
		h.Assert(err == nil, "create b")
		txn := &Transaction{DatasetEntities: map[string][]*Entity{"a": {mkEntity(va)}, "b": {mkEntity(vb)}}}
		if withCore {
			// the transaction also names core.Dataset (an entity of its own there); that part may be
			// one the hub rejects (a nil reference), in which case nothing of the transaction is stored
			ce := NewEntity("ns0:extra", 0)
			ce.Properties["ns0:v"] = "c"
			if rejectCore {
				ce.References["ns0:p1"] = nil
			}
			txn.DatasetEntities["core.Dataset"] = []*Entity{ce}
		}
		st := hub.Store
		if h.Param("contextual", 0) == 1 {
			// the store handle JS transforms write through
			st = NewContextualStore(hub.Store)
		}
		if h.Param("commitPoints", 0) == 1 {
			h.CrashAtCommits()
		}
		h.CrashWindowStart()
		err = st.ExecuteTransaction(txn)
		if rejectCore {
			h.Assert(err != nil, "a transaction with a rejected entity is refused")
		} else {
			h.Assert(err == nil, "transaction accepted")
		}
	}
	h.CrashAndRecover()
	hub := VerifOpenHub(env)
	gotA, gotB := vObsCore(h, hub, "a"), vObsCore(h, hub, "b")
	preOK := gotA == mObsCore(pre, "a") && gotB == mObsCore(pre, "b")
	postOK := gotA == mObsCore(post, "a") && gotB == mObsCore(post, "b")
	if withCore {
		ce, err := hub.Store.GetEntity("ns0:extra", []string{"core.Dataset"}, true)
		h.Assert(err == nil, "lookup in core.Dataset succeeds")
		inCore := ce != nil && ce.Properties["ns0:v"] == "c"
		preOK, postOK = preOK && !inCore, postOK && inCore
		gotB += " core=" + vB(inCore)
	}
	h.Assert(preOK || postOK, "after a crash the transaction is present in every dataset it touches or in none :: a="+gotA+" b="+gotB)
	if rejectCore {
		h.Assert(preOK, "nothing of a refused transaction is stored in any dataset it names :: a="+gotA+" b="+gotB)
	} else if h.Acked() {
		h.Assert(postOK, "an acknowledged transaction is present after the crash")
	}
	h.Observe("acked", h.Acked())
}

// VerifC04CrashCreate: the process dies at any marked boundary of
// DsManager.CreateDataset (optionally after an earlier dataset was created and
// written). After the restart the store opens, the half-created dataset is
// there or not, every dataset created afterwards gets an internal id no other
// dataset (core.Dataset included) has, and a batch written to one dataset shows
// up in that dataset only.
func VerifC04CrashCreate(h *verifh.H) {
	env := VerifConfig(h, time.Hour)
	withFirst := h.Choice("withFirst", 2) == 1
	fv := &mVersion{ID: "ns0:e1", Props: map[string]string{"ns0:v": "first"}, Refs: map[string][]string{}}
	if h.BeforeCrash() {
		hub := VerifOpenHub(env)
		if withFirst {
			d, err := hub.Dsm.CreateDataset("first", nil)
			h.Assert(err == nil, "create first")
			h.Assert(d.StoreEntities([]*Entity{mkEntity(fv)}) == nil, "write first")
		}
		if h.Param("commitPoints", 0) == 1 {
			h.CrashAtCommits()
		}
		h.CrashWindowStart()
		_, err := hub.Dsm.CreateDataset("people", nil)
		h.Assert(err == nil, "create accepted")
	}
	h.CrashAndRecover()
	hub := VerifOpenHub(env)
	if h.Acked() {
		h.Assert(hub.Dsm.GetDataset("people") != nil, "an acknowledged create is in effect after the crash")
	}
	// create (or re-create) people and two more datasets
	var all []*Dataset
	for _, n := range []string{"people", "orders", "places"} {
		d, err := hub.Dsm.CreateDataset(n, nil)
		h.Assert(err == nil && d != nil, "create after recovery accepted :: "+n)
		if d != nil {
			all = append(all, d)
		}
	}
	if withFirst {
		h.Assert(hub.Dsm.GetDataset("first") != nil, "a dataset created before the crash is still there")
		all = append(all, hub.Dsm.GetDataset("first"))
	}
	all = append(all, hub.Dsm.GetDataset("core.Dataset"))
	for i := range all {
		for j := i + 1; j < len(all); j++ {
			if all[i] != nil && all[j] != nil {
				h.Assert(all[i].InternalID != all[j].InternalID, "no two datasets share an internal id after a crash inside create :: "+all[i].ID+" and "+all[j].ID+" have "+itoa(int(all[i].InternalID)))
			}
		}
	}
	// a batch written to orders shows up in orders only
	ov := &mVersion{ID: "ns0:o1", Props: map[string]string{"ns0:v": "order"}, Refs: map[string][]string{}}
	h.Assert(hub.Dsm.GetDataset("orders").StoreEntities([]*Entity{mkEntity(ov)}) == nil, "write after recovery accepted")
	for _, n := range []string{"people", "orders", "places", "first"} {
		d := hub.Dsm.GetDataset(n)
		if d == nil {
			continue
		}
		res, err := d.GetEntities("", -1)
		h.Assert(err == nil, "listing")
		want := ""
		switch {
		case n == "orders":
			want = mRender(ov)
		case n == "first":
			want = mRender(fv)
		}
		h.Assert(vJoin(vRenderList(res.Entities)) == want, "a dataset holds exactly what was written to it :: ds="+n+" got="+vJoin(vRenderList(res.Entities))+" want="+want)
	}
	h.Observe("acked", h.Acked())
}

// VerifC04LargeBatch: one StoreEntities call is one batch however large it is:
// a batch of N entities whose k-th entity is rejected (a null reference)
// returns an error and leaves nothing behind — no entity version, change
// entry, latest pointer, relation or item count — in the running store and
// after a restart; the same batch without the bad entity is stored whole.
func VerifC04LargeBatch(h *verifh.H) {
	env := VerifConfig(h, time.Hour)
	hub := VerifOpenHub(env)
	ds, err := hub.Dsm.CreateDataset("d", nil)
	h.Assert(err == nil, "create")
	n := h.Param("n", 40)
	// minimal entities (no properties, no references) keep a batch beyond 65536 entities — the
	// range of the 16-bit in-batch position of the version key — inside Badger's per-transaction
	// limit (MemTableSize 128 MB: fewer than 209715 writes), so the real store accepts it
	minimal := h.Param("minimal", 0) == 1
	bad := h.Choice("bad", 3) // 0: none, 1: the last entity, 2: one in the last tenth
	var batch []*Entity
	for i := 0; i < n; i++ {
		e := NewEntity("ns0:b"+itoa(i), 0)
		if !minimal {
			e.Properties["ns0:v"] = "x"
			e.References["ns0:p1"] = "ns0:hub"
		}
		batch = append(batch, e)
	}
	switch bad {
	case 1:
		batch[n-1].References["ns0:p1"] = nil
	case 2:
		batch[n-1-n/10].References["ns0:p1"] = nil
	}
	err = ds.StoreEntities(batch)
	check := func(when string) {
		d := hub.Dsm.GetDataset("d")
		res, lerr := d.GetEntities("", -1)
		h.Assert(lerr == nil, "listing")
		ch, cerr := d.GetChanges(0, 0, false)
		h.Assert(cerr == nil, "feed")
		want := 0
		if bad == 0 {
			want = n
		}
		h.Assert(len(res.Entities) == want && len(ch.Entities) == want, "a rejected batch leaves nothing behind, an accepted one is there whole :: "+when+" listed="+itoa(len(res.Entities))+" changes="+itoa(len(ch.Entities))+" want="+itoa(want))
		if minimal {
			return
		}
		r, qerr := hub.Store.GetManyRelatedEntitiesBatch([]string{"ns0:hub"}, "ns0:p1", true, []string{"d"}, 0, true)
		if qerr == nil {
			h.Assert(len(r.Relations) == want, "relations of a rejected batch are not indexed :: "+when+" got="+itoa(len(r.Relations)))
		} else {
			h.Assert(want == 0, "relation query fails only when nothing was stored")
		}
	}
	if bad == 0 {
		h.Assert(err == nil, "a well formed batch is accepted")
	} else {
		h.Assert(err != nil, "a batch with a null reference is rejected")
	}
	check("running store")
	hub = hub.Restart()
	check("after a restart")
	h.Observe("bad", bad)
}
