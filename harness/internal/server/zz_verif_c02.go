//go:build verif

package server

import (
	"github.com/mimiro-io/datahub/internal/verifh"
)

func mFeedRender(d *mDataset, latestOnly bool) []string {
	var out []string
	for _, v := range d.Feed {
		if latestOnly && d.Latest[v.ID] != v {
			continue
		}
		out = append(out, mRender(v))
	}
	return out
}

// VerifC02History: after every history in the box the change feed of each
// dataset is exactly one entry per stored version in commit order (identical
// re-writes add nothing), latest-only yields the newest version of each
// entity, reading with limits and following the tokens yields the same
// sequence with nothing skipped or repeated, a token obtained at the end
// returns nothing until new writes happen and then exactly the new entries.
func VerifC02History(h *verifh.H) {
	hs := vNewHistory(h, "d1", "d2")
	g := hs.g
	steps := h.Param("steps", 2)
	for s := 0; s < steps; s++ {
		hs.step(h, s, famProps, h.Param("batch2", 0) == 1 && s == steps-1, h.Param("firstAny", 0) == 1)
	}
	ends := map[string]uint64{}
	for _, name := range hs.dsn {
		ds := hs.dss[name]
		md := g.DS[name]
		want := mFeedRender(md, false)
		ch, err := ds.GetChanges(0, 0, false)
		h.Assert(err == nil, "changes readable")
		got := vRenderList(ch.Entities)
		h.Assert(vJoin(got) == vJoin(want), "feed is one entry per stored version in commit order :: ds="+name+" got="+vJoin(got)+" want="+vJoin(want))
		ends[name] = ch.NextToken

		lo, err := ds.GetChanges(0, 0, true)
		h.Assert(err == nil, "latest-only readable")
		wantLo := mFeedRender(md, true)
		h.Assert(vJoin(vRenderList(lo.Entities)) == vJoin(wantLo), "latest-only feed is the newest version of each entity :: ds="+name+" got="+vJoin(vRenderList(lo.Entities))+" want="+vJoin(wantLo))

		for limit := 1; limit <= 2; limit++ {
			var paged []string
			since := uint64(0)
			for page := 0; page < 8; page++ {
				pc, err := ds.GetChanges(since, limit, false)
				h.Assert(err == nil, "page readable")
				h.Assert(len(pc.Entities) <= limit, "page respects the limit")
				paged = append(paged, vRenderList(pc.Entities)...)
				if len(pc.Entities) == 0 {
					h.Assert(pc.NextToken == since, "an empty page hands back the same token")
					break
				}
				since = pc.NextToken
			}
			h.Assert(vJoin(paged) == vJoin(want), "paged feed equals the full feed, nothing skipped or repeated :: ds="+name+" limit="+itoa(limit)+" paged="+vJoin(paged)+" want="+vJoin(want))
			h.Assert(since == ch.NextToken || len(want) == 0, "following tokens ends at the same position as the single read")
		}
		// a position beyond the end returns nothing and is handed back unchanged
		far := ch.NextToken + 5
		fc, err := ds.GetChanges(far, 0, false)
		h.Assert(err == nil && len(fc.Entities) == 0 && fc.NextToken == far, "a position beyond the end returns nothing")
		// the end token returns nothing until new writes happen
		ec, err := ds.GetChanges(ch.NextToken, 0, false)
		h.Assert(err == nil && len(ec.Entities) == 0 && ec.NextToken == ch.NextToken, "the end token returns nothing while nothing is written")
	}
	// one more write, then the old end tokens return exactly the new entries
	before := map[string]int{}
	for _, name := range hs.dsn {
		before[name] = len(g.DS[name].Feed)
	}
	hs.step(h, steps, famProps, false, true)
	for _, name := range hs.dsn {
		md := g.DS[name]
		var want []string
		for _, v := range md.Feed[before[name]:] {
			want = append(want, mRender(v))
		}
		nc, err := hs.dss[name].GetChanges(ends[name], 0, false)
		h.Assert(err == nil, "resume readable")
		h.Assert(vJoin(vRenderList(nc.Entities)) == vJoin(want), "resuming from the end token returns exactly the new entries :: ds="+name+" got="+vJoin(vRenderList(nc.Entities))+" want="+vJoin(want))
	}
	h.Observe("seq", g.seq)
}

// VerifC02ReaderRace: a token-carrying reader reads the change feed while a
// batch is being written (symbolic scheduling; every Badger transaction start
// and every marked boundary is a scheduling point). Whatever the interleaving,
// what the reader saw in its first call plus what it gets when it continues
// from the token of that call is exactly the feed: nothing skipped, nothing
// twice.
func VerifC02ReaderRace(h *verifh.H) {
	hs := vNewHistory(h, "d")
	ds := hs.dss["d"]
	first := &mVersion{ID: "ns0:e1", Props: map[string]string{"ns0:v": "x"}, Refs: map[string][]string{}}
	h.Assert(ds.StoreEntities([]*Entity{mkEntity(first)}) == nil, "first write")
	second := &mVersion{ID: "ns0:e2", Props: map[string]string{"ns0:v": "y"}, Refs: map[string][]string{}}
	limit := h.Choice("limit", 3) // 0: no limit
	latestOnly := h.Choice("latestOnly", 2) == 1
	var seen []string
	var token uint64
	var rerr, werr error
	h.SymbolicTxns()
	h.SymbolicSched(h.Param("preemptions", 1))
	h.Go(func() {
		ch, err := ds.GetChanges(0, limit, latestOnly)
		rerr = err
		if err == nil {
			seen = vRenderList(ch.Entities)
			token = ch.NextToken
		}
	})
	h.Go(func() { werr = ds.StoreEntities([]*Entity{mkEntity(second)}) })
	h.Assert(h.Wait(), "reader and writer complete")
	h.Assert(rerr == nil && werr == nil, "read and write succeed")
	// the reader continues from its token until nothing more comes
	for page := 0; page < 4; page++ {
		ch, err := ds.GetChanges(token, limit, latestOnly)
		h.Assert(err == nil, "continuation readable")
		if err != nil || len(ch.Entities) == 0 {
			break
		}
		seen = append(seen, vRenderList(ch.Entities)...)
		token = ch.NextToken
	}
	want := vJoin([]string{mRender(first), mRender(second)})
	h.Assert(vJoin(seen) == want, "a reader following its tokens sees every change exactly once, whatever is written meanwhile :: saw="+vJoin(seen)+" feed="+want)
	h.Observe("n", len(seen))
}
