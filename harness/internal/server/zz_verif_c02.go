//go:build verif

package server

import (
	"github.com/mimiro-io/datahub/internal/verifh"
)

func mFeedRender(d *mDataset, latestOnly bool) []string {
	var out []string
	for _, v := range d.Feed {
		if latestOnly && d.Latest[v.ID] != v {
			continue
		}
		out = append(out, mRender(v))
	}
	return out
}

// VerifC02History: after every history in the box the change feed of each
// dataset is exactly one entry per stored version in commit order (identical
// re-writes add nothing), latest-only yields the newest version of each
// entity, reading with limits and following the tokens yields the same
// sequence with nothing skipped or repeated, a token obtained at the end
// returns nothing until new writes happen and then exactly the new entries.
func VerifC02History(h *verifh.H) {
	hs := vNewHistory(h, "d1", "d2")
	g := hs.g
	steps := h.Param("steps", 2)
	for s := 0; s < steps; s++ {
		hs.step(h, s, famProps, h.Param("batch2", 0) == 1 && s == steps-1, h.Param("firstAny", 0) == 1)
	}
	ends := map[string]uint64{}
	for _, name := range hs.dsn {
		ds := hs.dss[name]
		md := g.DS[name]
		want := mFeedRender(md, false)
		ch, err := ds.GetChanges(0, 0, false)
		h.Assert(err == nil, "changes readable")
		got := vRenderList(ch.Entities)
		h.Assert(vJoin(got) == vJoin(want), "feed is one entry per stored version in commit order :: ds="+name+" got="+vJoin(got)+" want="+vJoin(want))
		ends[name] = ch.NextToken

		lo, err := ds.GetChanges(0, 0, true)
		h.Assert(err == nil, "latest-only readable")
		wantLo := mFeedRender(md, true)
		h.Assert(vJoin(vRenderList(lo.Entities)) == vJoin(wantLo), "latest-only feed is the newest version of each entity :: ds="+name+" got="+vJoin(vRenderList(lo.Entities))+" want="+vJoin(wantLo))

		for limit := 1; limit <= 2; limit++ {
			var paged []string
			since := uint64(0)
			for page := 0; page < 8; page++ {
				pc, err := ds.GetChanges(since, limit, false)
				h.Assert(err == nil, "page readable")
				h.Assert(len(pc.Entities) <= limit, "page respects the limit")
				paged = append(paged, vRenderList(pc.Entities)...)
				if len(pc.Entities) == 0 {
					h.Assert(pc.NextToken == since, "an empty page hands back the same token")
					break
				}
				since = pc.NextToken
			}
			h.Assert(vJoin(paged) == vJoin(want), "paged feed equals the full feed, nothing skipped or repeated :: ds="+name+" limit="+itoa(limit)+" paged="+vJoin(paged)+" want="+vJoin(want))
			h.Assert(since == ch.NextToken || len(want) == 0, "following tokens ends at the same position as the single read")
		}
		// a position beyond the end returns nothing and is handed back unchanged
		far := ch.NextToken + 5
		fc, err := ds.GetChanges(far, 0, false)
		h.Assert(err == nil && len(fc.Entities) == 0 && fc.NextToken == far, "a position beyond the end returns nothing")
		// the end token returns nothing until new writes happen
		ec, err := ds.GetChanges(ch.NextToken, 0, false)
		h.Assert(err == nil && len(ec.Entities) == 0 && ec.NextToken == ch.NextToken, "the end token returns nothing while nothing is written")
	}
	// one more write, then the old end tokens return exactly the new entries
	before := map[string]int{}
	for _, name := range hs.dsn {
		before[name] = len(g.DS[name].Feed)
	}
	hs.step(h, steps, famProps, false, true)
	for _, name := range hs.dsn {
		md := g.DS[name]
		var want []string
		for _, v := range md.Feed[before[name]:] {
			want = append(want, mRender(v))
		}
		nc, err := hs.dss[name].GetChanges(ends[name], 0, false)
		h.Assert(err == nil, "resume readable")
		h.Assert(vJoin(vRenderList(nc.Entities)) == vJoin(want), "resuming from the end token returns exactly the new entries :: ds="+name+" got="+vJoin(vRenderList(nc.Entities))+" want="+vJoin(want))
	}
	h.Observe("seq", g.seq)
}

// VerifC02ReaderRace: a token-carrying reader reads the change feed while a
// batch is being written (symbolic scheduling; every Badger transaction start
// and every marked boundary is a scheduling point). Whatever the interleaving,
// what the reader saw in its first call plus what it gets when it continues
// from the token of that call is exactly the feed: nothing skipped, nothing
// twice.
func VerifC02ReaderRace(h *verifh.H) {
	hs := vNewHistory(h, "d")
	ds := hs.dss["d"]
	first := &mVersion{ID: "ns0:e1", Props: map[string]string{"ns0:v": "x"}, Refs: map[string][]string{}}
	h.Assert(ds.StoreEntities([]*Entity{mkEntity(first)}) == nil, "first write")
	second := &mVersion{ID: "ns0:e2", Props: map[string]string{"ns0:v": "y"}, Refs: map[string][]string{}}
	limit := h.Choice("limit", 3) // 0: no limit
	latestOnly := h.Choice("latestOnly", 2) == 1
	var seen []string
	var token uint64
	var rerr, werr error
	h.SymbolicTxns()
	h.SymbolicSched(h.Param("preemptions", 1))
	h.Go(func() {
		ch, err := ds.GetChanges(0, limit, latestOnly)
		rerr = err
		if err == nil {
			seen = vRenderList(ch.Entities)
			token = ch.NextToken
		}
	})
	h.Go(func() { werr = ds.StoreEntities([]*Entity{mkEntity(second)}) })
	h.Assert(h.Wait(), "reader and writer complete")
	h.Assert(rerr == nil && werr == nil, "read and write succeed")
	// the reader continues from its token until nothing more comes
	for page := 0; page < 4; page++ {
		ch, err := ds.GetChanges(token, limit, latestOnly)
		h.Assert(err == nil, "continuation readable")
		if err != nil || len(ch.Entities) == 0 {
			break
		}
		seen = append(seen, vRenderList(ch.Entities)...)
		token = ch.NextToken
	}
	want := vJoin([]string{mRender(first), mRender(second)})
	h.Assert(vJoin(seen) == want, "a reader following its tokens sees every change exactly once, whatever is written meanwhile :: saw="+vJoin(seen)+" feed="+want)
	h.Observe("n", len(seen))
}

// VerifC02Rename: the change feed of a dataset across renames. Two datasets
// (p, q) with one change each; then a history of writes (to the dataset
// currently known under a name) and renames among the names {p, q, r},
// including a rename onto a name another dataset used before (swap, forth and
// back). After every operation each dataset's feed from the start is exactly
// the changes written to THAT dataset, in write order, each once; a token
// taken at the end before a write returns exactly the new entry after it; and
// paging with limit 1 yields the same sequence.
func VerifC02Rename(h *verifh.H) {
	hub := VerifNewHub(h)
	names := []string{"p", "q", "r"}
	type mds struct {
		feed   []string
		latest map[string]string
	}
	model := map[string]*mds{}
	mk := func(id, v string) *Entity {
		e := NewEntity(id, 0)
		e.Properties["ns0:v"] = v
		return e
	}
	write := func(name, id, v string) {
		ds := hub.Dsm.GetDataset(name)
		m := model[name]
		before, err := ds.GetChanges(0, 0, false)
		h.Assert(err == nil, "feed readable")
		h.Assert(ds.StoreEntities([]*Entity{mk(id, v)}) == nil, "write accepted")
		var fresh []string
		if m.latest[id] != v {
			m.latest[id] = v
			fresh = []string{vRenderEntity(mk(id, v))}
			m.feed = append(m.feed, fresh...)
		}
		after, err := ds.GetChanges(before.NextToken, 0, false)
		h.Assert(err == nil, "feed readable from the end token")
		h.Assert(vJoin(vRenderList(after.Entities)) == vJoin(fresh), "a token taken at the end returns exactly the entries written since :: ds="+name+" got="+vJoin(vRenderList(after.Entities))+" want="+vJoin(fresh))
	}
	for k, n := range names[:2] {
		_, err := hub.Dsm.CreateDataset(n, nil)
		h.Assert(err == nil, "create")
		model[n] = &mds{latest: map[string]string{}}
		write(n, "ns0:e1", []string{"x", "y"}[k])
	}
	check := func(when string) {
		for _, n := range names {
			m, ok := model[n]
			h.Assert(hub.Dsm.IsDataset(n) == ok, "a dataset is known exactly under its current name :: "+n+" "+when)
			if !ok {
				continue
			}
			ds := hub.Dsm.GetDataset(n)
			all, err := ds.GetChanges(0, 0, false)
			h.Assert(err == nil, "feed readable")
			h.Assert(vJoin(vRenderList(all.Entities)) == vJoin(m.feed), "the feed is exactly the changes written to this dataset, in write order :: ds="+n+" "+when+" got="+vJoin(vRenderList(all.Entities))+" want="+vJoin(m.feed))
			var paged []string
			tok := uint64(0)
			for page := 0; page < 8; page++ {
				pg, err := ds.GetChanges(tok, 1, false)
				h.Assert(err == nil, "page readable")
				if err != nil || len(pg.Entities) == 0 {
					break
				}
				paged = append(paged, vRenderList(pg.Entities)...)
				tok = pg.NextToken
			}
			h.Assert(vJoin(paged) == vJoin(m.feed), "paging with limit 1 yields the same sequence :: ds="+n+" "+when+" paged="+vJoin(paged)+" want="+vJoin(m.feed))
		}
	}
	nops := h.Param("ops", 3)
	for k := 0; k < nops; k++ {
		when := "after op " + itoa(k)
		if h.Choice("op", 2) == 0 {
			n := names[h.Choice("name", 3)]
			if model[n] == nil {
				h.Assume(false)
				return
			}
			write(n, []string{"ns0:e1", "ns0:e2"}[h.Choice("id", 2)], "w"+itoa(k))
		} else {
			from := names[h.Choice("from", 3)]
			to := names[h.Choice("to", 3)]
			if model[from] == nil || model[to] != nil {
				h.Assume(false)
				return
			}
			_, err := hub.Dsm.UpdateDataset(from, &UpdateDatasetConfig{ID: to})
			h.Assert(err == nil, "rename accepted")
			model[to] = model[from]
			delete(model, from)
		}
		check(when)
	}
	h.Observe("ops", nops)
}
