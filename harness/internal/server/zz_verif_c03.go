//go:build verif

package server

import (
	"github.com/mimiro-io/datahub/internal/verifh"
)

var vScopes = [][]string{nil, {"d1"}, {"d2"}, {"d1", "d2"}}

// VerifC03History: after every history (in the box) of batches written through
// the real write path to two datasets, every relationship query — each start
// entity, each predicate or wildcard, both directions, each scope — returns
// exactly the pairs implied by the latest versions (reference model), and
// paging with a limit and following continuations returns the same set with
// nothing twice.
func VerifC03History(h *verifh.H) {
	hs := vNewHistory(h, "d1", "d2")
	hub, g := hs.hub, hs.g
	steps := h.Param("steps", 2)
	for s := 0; s < steps; s++ {
		hs.step(h, s, famRefs, h.Param("batch2", 0) == 1 && s == steps-1, h.Param("firstAny", 0) == 1)
	}
	starts := []string{"ns0:e1", "ns0:e2", "ns0:e3"}
	preds := []string{"*", "ns0:p1", "ns0:p2"}
	limit := h.Param("limit", 1)
	for _, start := range starts {
		for _, pred := range preds {
			for inv := 0; inv < 2; inv++ {
				for _, scope := range vScopes {
					want := g.related(start, pred, inv == 1, scope)
					res, err := hub.Store.GetManyRelatedEntitiesBatch([]string{start}, pred, inv == 1, scope, 0, true)
					if err != nil {
						// unknown start entity or predicate: nothing was ever written with it
						h.Assert(len(want) == 0, "query error only for identifiers never stored")
						continue
					}
					got := vRelPairs(res.Relations)
					if inv == 1 && pred == "*" {
						// known finding C03-incoming-tombstone (known_findings.json): the incoming
						// wildcard scan keeps one deleted-flag per referencing entity although it
						// collects a result per predicate. Class: some entity has referenced the
						// start entity under >= 2 different predicates in the in-scope datasets.
						h.Known("C03-incoming-tombstone", g.multiPredSource(start, scope))
					}
					q := " :: start=" + start + " pred=" + pred + " inverse=" + vB(inv == 1) + " scope=" + vJoin(scope)
					h.Assert(vJoin(got) == vJoin(want), "relationship query equals the graph of the latest versions"+q+" got="+vJoin(got)+" want="+vJoin(want))
					// paged
					pres, err := hub.Store.GetManyRelatedEntitiesBatch([]string{start}, pred, inv == 1, scope, limit, true)
					h.Assert(err == nil, "paged query")
					all := append([]RelatedEntityResult{}, pres.Relations...)
					cont := pres.Cont
					for page := 0; len(cont) > 0 && page < 8; page++ {
						next, err := hub.Store.GetManyRelatedEntitiesAtTime(cont, limit, true)
						h.Assert(err == nil, "continuation accepted")
						all = append(all, next.Relations...)
						cont = next.Cont
					}
					h.Assert(len(cont) == 0, "paging terminates")
					paged := vRelPairs(all)
					h.Assert(!vHasDup(paged), "paging returns nothing twice"+q+" paged="+vJoin(paged))
					h.Assert(vJoin(paged) == vJoin(got), "paging returns the same set as the single call"+q+" paged="+vJoin(paged)+" single="+vJoin(got))
				}
			}
		}
	}
	h.Observe("seq", g.seq)
}
