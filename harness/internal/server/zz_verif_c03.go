//go:build verif

package server

import (
	"github.com/mimiro-io/datahub/internal/verifh"
)

var vScopes = [][]string{nil, {"d1"}, {"d2"}, {"d1", "d2"}}

// VerifC03History: after every history (in the box) of batches written through
// the real write path to two datasets, every relationship query — each start
// entity, each predicate or wildcard, both directions, each scope — returns
// exactly the pairs implied by the latest versions (reference model), and
// paging with a limit and following continuations returns the same set with
// nothing twice.
func VerifC03History(h *verifh.H) {
	hs := vNewHistory(h, "d1", "d2")
	hub, g := hs.hub, hs.g
	steps := h.Param("steps", 2)
	for s := 0; s < steps; s++ {
		hs.step(h, s, famRefs, h.Param("batch2", 0) == 1 && s == steps-1, h.Param("firstAny", 0) == 1)
	}
	starts := []string{"ns0:e1", "ns0:e2", "ns0:e3"}
	preds := []string{"*", "ns0:p1", "ns0:p2"}
	limit := h.Param("limit", 1)
	for _, start := range starts {
		for _, pred := range preds {
			for inv := 0; inv < 2; inv++ {
				for _, scope := range vScopes {
					want := g.related(start, pred, inv == 1, scope)
					res, err := hub.Store.GetManyRelatedEntitiesBatch([]string{start}, pred, inv == 1, scope, 0, true)
					if err != nil {
						// unknown start entity or predicate: nothing was ever written with it
						h.Assert(len(want) == 0, "query error only for identifiers never stored")
						continue
					}
					got := vRelPairs(res.Relations)
					if inv == 1 && pred == "*" {
						// known finding C03-incoming-tombstone (known_findings.json): the incoming
						// wildcard scan keeps one deleted-flag per referencing entity although it
						// collects a result per predicate. Class: some entity has referenced the
						// start entity under >= 2 different predicates in the in-scope datasets.
						h.Known("C03-incoming-tombstone", g.multiPredSource(start, scope))
					}
					q := " :: start=" + start + " pred=" + pred + " inverse=" + vB(inv == 1) + " scope=" + vJoin(scope)
					h.Assert(vJoin(got) == vJoin(want), "relationship query equals the graph of the latest versions"+q+" got="+vJoin(got)+" want="+vJoin(want))
					// paged
					pres, err := hub.Store.GetManyRelatedEntitiesBatch([]string{start}, pred, inv == 1, scope, limit, true)
					h.Assert(err == nil, "paged query")
					all := append([]RelatedEntityResult{}, pres.Relations...)
					cont := pres.Cont
					for page := 0; len(cont) > 0 && page < 8; page++ {
						next, err := hub.Store.GetManyRelatedEntitiesAtTime(cont, limit, true)
						h.Assert(err == nil, "continuation accepted")
						all = append(all, next.Relations...)
						cont = next.Cont
					}
					h.Assert(len(cont) == 0, "paging terminates")
					paged := vRelPairs(all)
					h.Assert(!vHasDup(paged), "paging returns nothing twice"+q+" paged="+vJoin(paged))
					h.Assert(vJoin(paged) == vJoin(got), "paging returns the same set as the single call"+q+" paged="+vJoin(paged)+" single="+vJoin(got))
				}
			}
		}
	}
	// several start entities in one request (what POST /query startingEntities and the
	// multi-source joins do): the answer is the union of the single-start answers, also paged
	// (a start entity that was never stored simply has no relations)
	known := starts
	triples := func(rs []RelatedEntityResult) []string {
		var out []string
		for _, r := range rs {
			id := ""
			if r.RelatedEntity != nil {
				id = r.RelatedEntity.ID
			}
			out = append(out, r.StartURI+"|"+r.PredicateURI+"|"+id)
		}
		return vSorted(out)
	}
	if len(known) >= 2 && h.Param("multiStart", 1) == 1 {
		for _, pred := range preds {
			for inv := 0; inv < 2; inv++ {
				var want []string
				for _, start := range known {
					for _, pr := range g.related(start, pred, inv == 1, nil) {
						want = append(want, start+"|"+pr)
					}
				}
				want = vSorted(want)
				res, err := hub.Store.GetManyRelatedEntitiesBatch(known, pred, inv == 1, nil, 0, true)
				if err != nil {
					continue // predicate never stored
				}
				q := " :: starts=" + vJoin(known) + " pred=" + pred + " inverse=" + vB(inv == 1)
				got := triples(res.Relations)
				multiKnown := false
				for _, start := range known {
					multiKnown = multiKnown || g.multiPredSource(start, nil)
				}
				if inv == 1 && pred == "*" {
					h.Known("C03-incoming-tombstone", multiKnown)
				}
				h.Assert(vJoin(got) == vJoin(want), "a query with several start entities equals the union of the single-start answers"+q+" got="+vJoin(got)+" want="+vJoin(want))
				rev := []string{known[2], known[1], known[0]}
				for k, lim := range []int{1, 2, 1, 2} {
					order := known
					if k >= 2 {
						order = rev // the same request with the start entities listed the other way round
					}
					pres, err := hub.Store.GetManyRelatedEntitiesBatch(order, pred, inv == 1, nil, lim, true)
					h.Assert(err == nil, "paged query")
					all := append([]RelatedEntityResult{}, pres.Relations...)
					cont := pres.Cont
					for page := 0; len(cont) > 0 && page < 12; page++ {
						next, err := hub.Store.GetManyRelatedEntitiesAtTime(cont, lim, true)
						h.Assert(err == nil, "continuation accepted")
						all = append(all, next.Relations...)
						cont = next.Cont
					}
					h.Assert(len(cont) == 0, "paging terminates")
					paged := triples(all)
					h.Assert(vJoin(paged) == vJoin(got), "paging a query with several start entities returns the same set as the single call"+q+" limit="+itoa(lim)+" paged="+vJoin(paged)+" single="+vJoin(got))
				}
			}
		}
	}
	h.Observe("seq", g.seq)
}
