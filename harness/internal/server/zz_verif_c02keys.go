//go:build verif

package server

import (
	"encoding/binary"

	"github.com/mimiro-io/datahub/internal/verifh"
)

// VerifC02Feed: ProcessChangesRaw / GetChanges over an ARBITRARY change log of
// one dataset: n entries with symbolic, strictly increasing sequence numbers
// (gaps allowed, as sequence leases leave them after a restart), entries of a
// neighbouring dataset on both sides, a symbolic since (also beyond the end)
// and limit. The solver decides, for all values, that the page is the first
// `limit` entries with sequence >= since, that the token is last+1 (or since
// when nothing is found), and that resuming from the token continues exactly
// where the page ended.
func VerifC02Feed(h *verifh.H) {
	hub := VerifNewHub(h)
	dsA, err := hub.Dsm.CreateDataset("a", nil) // surrounding datasets: ids below and above b
	h.Assert(err == nil, "create")
	dsB, err := hub.Dsm.CreateDataset("b", nil)
	h.Assert(err == nil, "create")
	dsC, err := hub.Dsm.CreateDataset("c", nil)
	h.Assert(err == nil, "create")
	// neighbours have real entries
	h.Assert(dsA.StoreEntities([]*Entity{NewEntity("ns0:x", 0)}) == nil, "write a")
	h.Assert(dsC.StoreEntities([]*Entity{NewEntity("ns0:y", 0)}) == nil, "write c")
	db := hub.Store.database
	n := h.Choice("n", h.Param("maxEntries", 3)+1)
	seqs := make([]uint64, n)
	for i := 0; i < n; i++ {
		seqs[i] = h.U64("seq")
		h.Assume(seqs[i] < 1<<62)
		if i > 0 {
			h.Assume(seqs[i] > seqs[i-1])
		}
		// version key + json, change log entry pointing at it
		rid := uint64(100 + i)
		vkey := make([]byte, 24)
		binary.BigEndian.PutUint16(vkey, EntityIDToJSONIndexID)
		binary.BigEndian.PutUint64(vkey[2:], rid)
		binary.BigEndian.PutUint32(vkey[10:], dsB.InternalID)
		binary.BigEndian.PutUint64(vkey[14:], uint64(1700000000000000000+i))
		e := NewEntity("ns0:e"+itoa(i), rid)
		js, _ := jsonMarshal(e)
		h.Preload(db, vkey, js)
		ckey := make([]byte, 22)
		binary.BigEndian.PutUint16(ckey, DatasetEntityChangeLog)
		binary.BigEndian.PutUint32(ckey[2:], dsB.InternalID)
		binary.BigEndian.PutUint64(ckey[6:], seqs[i])
		binary.BigEndian.PutUint64(ckey[14:], rid)
		h.Preload(db, ckey, vkey)
	}
	since := h.U64("since")
	h.Assume(since < 1<<62)
	limit := h.Int("limit", 0, 3)
	page, err := dsB.GetChanges(since, limit, false)
	h.Assert(err == nil, "page readable")
	// oracle: entries with seq >= since, first `limit` of them (0 = unlimited)
	lim := h.Conc(limit)
	var want []int
	for i := 0; i < n; i++ {
		if h.Conc(btoi(seqs[i] >= since)) == 1 {
			if lim == 0 || len(want) < lim {
				want = append(want, i)
			}
		}
	}
	h.Assert(len(page.Entities) == len(want), "the page holds exactly the entries at or after since, up to the limit")
	for k, i := range want {
		if k < len(page.Entities) {
			h.Assert(page.Entities[k].ID == "ns0:e"+itoa(i), "entries come in sequence order")
		}
	}
	if len(want) == 0 {
		h.Assert(page.NextToken == since, "nothing found: the token is handed back unchanged")
	} else {
		h.Assert(page.NextToken == seqs[want[len(want)-1]]+1, "the token points right behind the last entry returned")
	}
	// resume: the rest, nothing skipped or repeated
	rest, err := dsB.GetChanges(page.NextToken, 0, false)
	h.Assert(err == nil, "resume readable")
	var wantRest []int
	for i := 0; i < n; i++ {
		if h.Conc(btoi(seqs[i] >= since)) == 1 {
			taken := false
			for _, w := range want {
				if w == i {
					taken = true
				}
			}
			if !taken {
				wantRest = append(wantRest, i)
			}
		}
	}
	h.Assert(len(rest.Entities) == len(wantRest), "resuming from the token yields exactly the remaining entries")
	for k, i := range wantRest {
		if k < len(rest.Entities) {
			h.Assert(rest.Entities[k].ID == "ns0:e"+itoa(i), "remaining entries in order")
		}
	}
	h.Observe("n", len(page.Entities))
}

func btoi(b bool) int {
	if b {
		return 1
	}
	return 0
}
