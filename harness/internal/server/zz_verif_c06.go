//go:build verif

package server

import (
	"time"

	"github.com/mimiro-io/datahub/internal/verifh"
)

var famMixed = vFamily{P1: 3, P2: false, Vals: 2, Del: true}
var famSmall = vFamily{P1: 2, P2: false, Vals: 2, Del: true}

type vSnap struct {
	t       int64
	lookups []string
	rels    []string
}

func vNoContent(id string) string { return id + "|del=false|props{}|refs{}" }

// vEvalNow evaluates the current-state queries.
func (hs *vHistory) vEvalNow(h *verifh.H) *vSnap {
	s := &vSnap{}
	ids := []string{"ns0:e1", "ns0:e2", "ns0:e3"}
	for _, id := range ids {
		for _, scope := range vScopes {
			e, err := hs.hub.Store.GetEntity(id, scope, true)
			h.Assert(err == nil, "lookup succeeds")
			if e == nil {
				s.lookups = append(s.lookups, vNoContent(id))
			} else {
				s.lookups = append(s.lookups, vRenderEntity(e))
			}
		}
	}
	for _, start := range ids {
		for _, pred := range []string{"*", "ns0:p1"} {
			for inv := 0; inv < 2; inv++ {
				for _, scope := range vScopes {
					res, err := hs.hub.Store.GetManyRelatedEntitiesBatch([]string{start}, pred, inv == 1, scope, 0, true)
					if err != nil {
						s.rels = append(s.rels, "")
					} else {
						s.rels = append(s.rels, vJoin(vRelPairs(res.Relations)))
					}
				}
			}
		}
	}
	return s
}

// vEvalAt evaluates the same queries pinned to instant t.
func (hs *vHistory) vEvalAt(h *verifh.H, t int64) *vSnap {
	st := hs.hub.Store
	s := &vSnap{t: t}
	ids := []string{"ns0:e1", "ns0:e2", "ns0:e3"}
	for _, id := range ids {
		for _, scope := range vScopes {
			rtxn := st.database.NewTransaction(false)
			rid, exists, err := st.getIDForURI(rtxn, id)
			rtxn.Discard()
			h.Assert(err == nil, "id lookup succeeds")
			if !exists {
				s.lookups = append(s.lookups, vNoContent(id))
				continue
			}
			e, err := st.GetEntityAtPointInTimeWithInternalID(rid, t, st.DatasetsToInternalIDs(scope), true)
			h.Assert(err == nil && e != nil, "point-in-time lookup succeeds")
			if e == nil {
				s.lookups = append(s.lookups, vNoContent(id))
			} else {
				s.lookups = append(s.lookups, vRenderEntity(e))
			}
		}
	}
	for _, start := range ids {
		for _, pred := range []string{"*", "ns0:p1"} {
			for inv := 0; inv < 2; inv++ {
				for _, scope := range vScopes {
					from, err := st.ToRelatedFrom([]string{start}, pred, inv == 1, scope, t)
					if err != nil || len(from) == 0 || from[0] == nil {
						s.rels = append(s.rels, "")
						continue
					}
					res, err := st.GetManyRelatedEntitiesAtTime(from, 0, true)
					h.Assert(err == nil, "point-in-time relationship query succeeds")
					s.rels = append(s.rels, vJoin(vRelPairs(res.Relations)))
				}
			}
		}
	}
	return s
}

// VerifC06History: entity lookups and relationship queries evaluated as of a
// past instant t (taken between commits and exactly at commit times) return
// what the current-state queries returned at t, whatever is written later;
// a paged relationship query whose first page was read before a later write
// continues to the result set as of t.
func VerifC06History(h *verifh.H) {
	hs := vNewHistory(h, "d1", "d2")
	steps := h.Param("steps", 1)
	suffix := h.Param("suffix", 1)
	fam := famMixed
	if h.Param("small", 0) == 1 {
		fam = famSmall
	}
	var snaps []*vSnap
	for s := 0; s < steps; s++ {
		if s == 0 && h.Param("fixFirst", 0) == 1 {
			// a fixed first version (symmetry: the later, drawn writes supply the variety)
			v := &mVersion{ID: "ns0:e1", Props: map[string]string{"ns0:v": "x"}, Refs: map[string][]string{"ns0:p1": {"ns0:e2"}}}
			h.Assert(hs.dss["d1"].StoreEntities([]*Entity{mkEntity(v)}) == nil, "first write")
			hs.g.write("d1", []*mVersion{v})
		} else {
			hs.step(h, s, fam, false, false)
		}
		sn := hs.vEvalNow(h)
		sn.t = time.Now().UnixNano()
		snaps = append(snaps, sn)
	}
	// first page of a paged outgoing query from e1, read before the suffix
	st := hs.hub.Store
	tq := time.Now().UnixNano()
	var page1 []RelatedEntityResult
	var cont []*RelatedFrom
	var fullBefore []string
	if from, err := st.ToRelatedFrom([]string{"ns0:e1"}, "*", false, nil, tq); err == nil && len(from) > 0 && from[0] != nil {
		full, err := st.GetManyRelatedEntitiesAtTime(from, 0, true)
		h.Assert(err == nil, "query")
		fullBefore = vRelPairs(full.Relations)
		from2, _ := st.ToRelatedFrom([]string{"ns0:e1"}, "*", false, nil, tq)
		p1, err := st.GetManyRelatedEntitiesAtTime(from2, 1, true)
		h.Assert(err == nil, "first page")
		page1 = p1.Relations
		cont = p1.Cont
	}
	for s := 0; s < suffix; s++ {
		hs.step(h, steps+s, fam, false, true)
	}
	for k, sn := range snaps {
		at := hs.vEvalAt(h, sn.t)
		h.Assert(vJoin(at.lookups) == vJoin(sn.lookups), "lookup as of a past instant equals the current-state answer given then :: after write "+itoa(k+1)+" then="+vJoin(sn.lookups)+" now="+vJoin(at.lookups))
		h.Assert(vJoin(at.rels) == vJoin(sn.rels), "relationship query as of a past instant equals the current-state answer given then :: after write "+itoa(k+1)+" then="+vJoin(sn.rels)+" now="+vJoin(at.rels))
	}
	// continue the paged query after the suffix writes
	all := append([]RelatedEntityResult{}, page1...)
	for page := 0; len(cont) > 0 && page < 6; page++ {
		next, err := st.GetManyRelatedEntitiesAtTime(cont, 1, true)
		h.Assert(err == nil, "continuation accepted after later writes")
		all = append(all, next.Relations...)
		cont = next.Cont
	}
	h.Assert(vJoin(vRelPairs(all)) == vJoin(fullBefore), "a paged query continued after later writes returns the result set as of its pinned instant :: paged="+vJoin(vRelPairs(all))+" asof="+vJoin(fullBefore))
	h.Observe("seq", hs.g.seq)
}

// VerifC06LockWait: a writer (batch or transaction) has to wait for the
// dataset's write lock while an observer takes an instant t and the
// current-state answers; the writer then commits. The answers as of t are
// still what the observer saw: a write that commits after t is not stamped
// before t. (The window in which a writer already holds the lock and has not
// committed yet is not covered: its stamp is taken at the start of the locked
// section by design.)
func VerifC06LockWait(h *verifh.H) {
	hs := vNewHistory(h, "d1", "d2")
	first := &mVersion{ID: "ns0:e1", Props: map[string]string{"ns0:v": "x"}, Refs: map[string][]string{"ns0:p1": {"ns0:e2"}}}
	h.Assert(hs.dss["d1"].StoreEntities([]*Entity{mkEntity(first)}) == nil, "first write")
	next := drawVersion(h, []string{"ns0:e1", "ns0:e2"}, []string{"ns0:e2", "ns0:e3"}, famSmall)
	asTxn := h.Choice("asTxn", 2) == 1
	ds := hs.dss["d1"]
	ds.WriteLock.Lock() // another writer is busy with d1
	var werr error
	h.Go(func() {
		if asTxn {
			werr = hs.hub.Store.ExecuteTransaction(&Transaction{DatasetEntities: map[string][]*Entity{"d1": {mkEntity(next)}, "d2": {mkEntity(next)}}})
		} else {
			werr = ds.StoreEntities([]*Entity{mkEntity(next)})
		}
	})
	if !h.Symbolic() {
		h.Pause(200 * time.Millisecond) // natively: let the writer reach the lock
	} else {
		h.Yield()
	}
	sn := hs.vEvalNow(h)
	sn.t = time.Now().UnixNano()
	if !h.Symbolic() {
		h.Pause(2 * time.Millisecond)
	}
	ds.WriteLock.Unlock()
	h.Assert(h.Wait(), "the waiting writer completes")
	h.Assert(werr == nil, "the waiting write is accepted")
	at := hs.vEvalAt(h, sn.t)
	h.Assert(vJoin(at.lookups) == vJoin(sn.lookups), "lookup as of an instant at which a writer was waiting for the lock equals the answer given then :: then="+vJoin(sn.lookups)+" now="+vJoin(at.lookups))
	h.Assert(vJoin(at.rels) == vJoin(sn.rels), "relationship query as of an instant at which a writer was waiting for the lock equals the answer given then :: then="+vJoin(sn.rels)+" now="+vJoin(at.rels))
	h.Observe("asTxn", asTxn)
}

// VerifC06PagedPinned: a relationship query with several results is read page
// by page (limit 1 or 2); between the first page and the continuation the
// start entity, a related entity or a referrer is written again or deleted
// (batches or a transaction, either dataset). The pages together are the
// result set as of the instant the first page pinned — for outgoing queries
// from an entity with three relations under two predicates (one of them live
// in two datasets) and incoming queries to an entity with two referrers.
func VerifC06PagedPinned(h *verifh.H) {
	hs := vNewHistory(h, "d1", "d2")
	e1 := &mVersion{ID: "ns0:e1", Props: map[string]string{"ns0:v": "x"}, Refs: map[string][]string{"ns0:p1": {"ns0:e2", "ns0:e3"}, "ns0:p2": {"ns0:e3"}}}
	e2 := &mVersion{ID: "ns0:e2", Props: map[string]string{}, Refs: map[string][]string{"ns0:p1": {"ns0:e3"}}}
	e1b := &mVersion{ID: "ns0:e1", Props: map[string]string{}, Refs: map[string][]string{"ns0:p1": {"ns0:e3"}}}
	h.Assert(hs.dss["d1"].StoreEntities([]*Entity{mkEntity(e1), mkEntity(e2)}) == nil, "first write")
	hs.g.write("d1", []*mVersion{e1, e2})
	h.Assert(hs.dss["d2"].StoreEntities([]*Entity{mkEntity(e1b)}) == nil, "second write")
	hs.g.write("d2", []*mVersion{e1b})

	st := hs.hub.Store
	start, inverse := "ns0:e1", false
	if h.Choice("incoming", 2) == 1 {
		start, inverse = "ns0:e3", true
	}
	pred := []string{"*", "ns0:p1"}[h.Choice("pred", 2)]
	limit := 1 + h.Choice("limit", 2)
	tq := time.Now().UnixNano()
	from, err := st.ToRelatedFrom([]string{start}, pred, inverse, nil, tq)
	h.Assert(err == nil && len(from) > 0 && from[0] != nil, "query start resolves")
	full, err := st.GetManyRelatedEntitiesAtTime(from, 0, true)
	h.Assert(err == nil, "unpaged query")
	fullBefore := vRelPairs(full.Relations)
	from2, _ := st.ToRelatedFrom([]string{start}, pred, inverse, nil, tq)
	p1, err := st.GetManyRelatedEntitiesAtTime(from2, limit, true)
	h.Assert(err == nil, "first page")
	all := append([]RelatedEntityResult{}, p1.Relations...)
	cont := p1.Cont
	// later writes
	for s := 0; s < h.Param("suffix", 1); s++ {
		hs.step(h, 2+s, famRefs, false, true)
	}
	for page := 0; len(cont) > 0 && page < 8; page++ {
		next, err := st.GetManyRelatedEntitiesAtTime(cont, limit, true)
		h.Assert(err == nil, "continuation accepted after later writes")
		all = append(all, next.Relations...)
		cont = next.Cont
	}
	h.Assert(vJoin(vSorted(vRelPairs(all))) == vJoin(vSorted(fullBefore)), "a paged query continued after later writes returns the result set as of its pinned instant :: start="+start+" pred="+pred+" paged="+vJoin(vRelPairs(all))+" asof="+vJoin(fullBefore))
	h.Observe("n", len(all))
}

// VerifC06MidWrite: an observer pins an instant t and reads the current state
// while a writer (batch or transaction) is anywhere inside its write — waiting
// for the lock, holding it before its commits, between its two commits, or
// done (symbolic schedule over the marked boundaries of the write path). After
// the writer has finished, the answers as of t are what the observer saw at t.
// Known finding C06-stamp-before-commit: a writer stamps its versions with the
// time it took the dataset lock, not with its commit; an instant pinned while
// the writer holds the lock lies after that stamp although the write is not
// visible yet, so the as-of-t answer later includes it.
func VerifC06MidWrite(h *verifh.H) {
	hs := vNewHistory(h, "d1", "d2")
	first := &mVersion{ID: "ns0:e1", Props: map[string]string{"ns0:v": "x"}, Refs: map[string][]string{"ns0:p1": {"ns0:e2"}}}
	h.Assert(hs.dss["d1"].StoreEntities([]*Entity{mkEntity(first)}) == nil, "first write")
	next := drawVersion(h, []string{"ns0:e1", "ns0:e2"}, []string{"ns0:e2", "ns0:e3"}, famSmall)
	asTxn := h.Choice("asTxn", 2) == 1
	ds := hs.dss["d1"]
	var werr error
	var sn *vSnap
	lockHeld := false
	h.SymbolicSched(h.Param("preemptions", 1))
	h.Go(func() {
		if asTxn {
			werr = hs.hub.Store.ExecuteTransaction(&Transaction{DatasetEntities: map[string][]*Entity{"d1": {mkEntity(next)}, "d2": {mkEntity(next)}}})
		} else {
			werr = ds.StoreEntities([]*Entity{mkEntity(next)})
		}
	})
	h.Go(func() {
		// is a writer inside its locked section right now?
		if ds.WriteLock.TryLock() {
			ds.WriteLock.Unlock()
		} else {
			lockHeld = true
		}
		sn = hs.vEvalNow(h)
		sn.t = time.Now().UnixNano()
	})
	h.Assert(h.Wait(), "writer and observer complete")
	h.Assert(werr == nil, "the write is accepted")
	if !h.Symbolic() {
		h.Pause(2 * time.Millisecond)
	}
	at := hs.vEvalAt(h, sn.t)
	h.Known("C06-stamp-before-commit", lockHeld)
	h.Assert(vJoin(at.lookups) == vJoin(sn.lookups), "lookup as of an instant pinned during a write equals the answer given then :: lockHeld="+vB(lockHeld)+" then="+vJoin(sn.lookups)+" now="+vJoin(at.lookups))
	h.Known("C06-stamp-before-commit", lockHeld)
	h.Assert(vJoin(at.rels) == vJoin(sn.rels), "relationship query as of an instant pinned during a write equals the answer given then :: lockHeld="+vB(lockHeld)+" then="+vJoin(sn.rels)+" now="+vJoin(at.rels))
	h.Observe("asTxn", asTxn)
}
