//go:build verif

package server

import (
	"time"

	"github.com/DataDog/datadog-go/v5/statsd"
	"go.uber.org/zap"

	"github.com/mimiro-io/datahub/internal/conf"
	"github.com/mimiro-io/datahub/internal/verifh"
)

// VHub is the minimal wiring the harnesses use instead of booting app.go.
type VHub struct {
	Env   *conf.Config
	Store *Store
	Dsm   *DsManager
}

func VerifConfig(h *verifh.H, lease time.Duration) *conf.Config {
	return &conf.Config{
		Logger:               zap.NewNop().Sugar(),
		StoreLocation:        h.TempDir() + "/store",
		FullsyncLeaseTimeout: lease,
		RunnerConfig:         &conf.RunnerConfig{PoolIncremental: 2, PoolFull: 2, Concurrent: 1},
	}
}

// VerifNewHub opens a store through the real NewStore/NewDsManager code.
func VerifNewHub(h *verifh.H) *VHub {
	env := VerifConfig(h, time.Hour)
	return VerifOpenHub(env)
}

func VerifOpenHub(env *conf.Config) *VHub {
	s := NewStore(env, &statsd.NoOpClient{})
	dsm := NewDsManager(env, s, NoOpBus())
	return &VHub{Env: env, Store: s, Dsm: dsm}
}

// Restart closes the store and rebuilds every in-memory object with the real
// load code.
func (hub *VHub) Restart() *VHub {
	_ = hub.Store.Close()
	return VerifOpenHub(hub.Env)
}

func vEntity(id string) *Entity {
	return NewEntity(id, 0)
}
