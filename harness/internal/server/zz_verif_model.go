//go:build verif

package server

import (
	"sort"
	"strings"

	"github.com/mimiro-io/datahub/internal/verifh"
)

// ---- reference model of the entity graph (transcribed from the properties)

// mVersion is one stored version of an entity in one dataset.
type mVersion struct {
	ID      string
	Props   map[string]string   // property → value (rendered as text)
	Refs    map[string][]string // predicate → targets
	Deleted bool
	Seq     int // position in the model's global write order (1-based)
}

type mDataset struct {
	Name    string
	Latest  map[string]*mVersion
	Order   []string    // ids in order of first appearance (= internal id order within a fresh store)
	Feed    []*mVersion // accepted versions in commit order
	Deleted bool
}

type mGraph struct {
	DS    map[string]*mDataset
	Names []string
	seq   int
	// ever[ds][source][target] = predicates under which source has ever
	// referenced target in ds (any version, also removed ones)
	ever map[string]map[string]map[string]map[string]bool
}

func newMGraph(names ...string) *mGraph {
	g := &mGraph{DS: map[string]*mDataset{}}
	for _, n := range names {
		g.DS[n] = &mDataset{Name: n, Latest: map[string]*mVersion{}}
		g.Names = append(g.Names, n)
	}
	return g
}

func mSameVersion(a, b *mVersion) bool {
	if a.Deleted != b.Deleted || len(a.Props) != len(b.Props) || len(a.Refs) != len(b.Refs) {
		return false
	}
	for k, v := range a.Props {
		if w, ok := b.Props[k]; !ok || w != v {
			return false
		}
	}
	for k, v := range a.Refs {
		w, ok := b.Refs[k]
		if !ok || len(w) != len(v) {
			return false
		}
		for i := range v {
			if v[i] != w[i] {
				return false
			}
		}
	}
	return true
}

// write applies one accepted batch to dataset ds: an element identical to the
// version it would replace is dropped, every other element becomes the latest
// version and one feed entry.
func (g *mGraph) write(ds string, batch []*mVersion) {
	d := g.DS[ds]
	for _, v := range batch {
		prev, ok := d.Latest[v.ID]
		if ok && mSameVersion(prev, v) {
			continue
		}
		if !ok {
			d.Order = append(d.Order, v.ID)
		}
		g.seq++
		g.noteRefs(ds, v)
		nv := *v
		nv.Seq = g.seq
		d.Latest[v.ID] = &nv
		d.Feed = append(d.Feed, &nv)
	}
}

func (g *mGraph) noteRefs(ds string, v *mVersion) {
	if g.ever == nil {
		g.ever = map[string]map[string]map[string]map[string]bool{}
	}
	if g.ever[ds] == nil {
		g.ever[ds] = map[string]map[string]map[string]bool{}
	}
	if g.ever[ds][v.ID] == nil {
		g.ever[ds][v.ID] = map[string]map[string]bool{}
	}
	for p, ts := range v.Refs {
		for _, t := range ts {
			if g.ever[ds][v.ID][t] == nil {
				g.ever[ds][v.ID][t] = map[string]bool{}
			}
			g.ever[ds][v.ID][t][p] = true
		}
	}
}

// multiPredSource reports whether some entity has ever referenced target
// under two or more different predicates within the in-scope datasets.
func (g *mGraph) multiPredSource(target string, scope []string) bool {
	perSource := map[string]map[string]bool{}
	for _, ds := range g.Names {
		if !g.inScope(ds, scope) {
			continue
		}
		for src, byTarget := range g.ever[ds] {
			for p := range byTarget[target] {
				if perSource[src] == nil {
					perSource[src] = map[string]bool{}
				}
				perSource[src][p] = true
			}
		}
	}
	for _, ps := range perSource {
		if len(ps) >= 2 {
			return true
		}
	}
	return false
}

func (g *mGraph) inScope(ds string, scope []string) bool {
	if g.DS[ds].Deleted {
		return false
	}
	if len(scope) == 0 {
		return true
	}
	for _, s := range scope {
		if s == ds {
			return true
		}
	}
	return false
}

// related returns the sorted "pred|other" pairs the property demands.
func (g *mGraph) related(start, pred string, inverse bool, scope []string) []string {
	set := map[string]bool{}
	for _, name := range g.Names {
		if !g.inScope(name, scope) {
			continue
		}
		for id, v := range g.DS[name].Latest {
			if v.Deleted {
				continue
			}
			for p, targets := range v.Refs {
				if pred != "*" && pred != p {
					continue
				}
				for _, t := range targets {
					if !inverse && id == start {
						set[p+"|"+t] = true
					}
					if inverse && t == start {
						set[p+"|"+id] = true
					}
				}
			}
		}
	}
	out := make([]string, 0, len(set))
	for k := range set {
		out = append(out, k)
	}
	sort.Strings(out)
	return out
}

func vRelPairs(rels []RelatedEntityResult) []string {
	out := make([]string, 0, len(rels))
	for _, r := range rels {
		id := ""
		if r.RelatedEntity != nil {
			id = r.RelatedEntity.ID
		}
		out = append(out, r.PredicateURI+"|"+id)
	}
	sort.Strings(out)
	return out
}

func vJoin(xs []string) string { return strings.Join(xs, ",") }

func vHasDup(xs []string) bool {
	for i := 1; i < len(xs); i++ {
		if xs[i] == xs[i-1] {
			return true
		}
	}
	return false
}

// mkEntity builds the implementation-side entity for a model version.
func mkEntity(v *mVersion) *Entity {
	e := NewEntity(v.ID, 0)
	for k, val := range v.Props {
		e.Properties[k] = val
	}
	for p, ts := range v.Refs {
		if len(ts) == 1 {
			e.References[p] = ts[0]
		} else {
			arr := make([]interface{}, len(ts))
			for i, t := range ts {
				arr[i] = t
			}
			e.References[p] = arr
		}
	}
	e.IsDeleted = v.Deleted
	return e
}

// drawVersion draws one entity version from the small family used by the
// history harnesses: id from ids, ref p1 ∈ {none, t0, t1, [t0,t1]}, ref p2 ∈
// {none, t1}, property v ∈ {absent, "x", "y"}, deleted flag.
func drawVersion(h *verifh.H, ids, targets []string, withProps bool) *mVersion {
	v := &mVersion{Props: map[string]string{}, Refs: map[string][]string{}}
	v.ID = ids[h.Choice("id", len(ids))]
	switch h.Choice("p1", 4) {
	case 1:
		v.Refs["ns0:p1"] = []string{targets[0]}
	case 2:
		v.Refs["ns0:p1"] = []string{targets[1]}
	case 3:
		v.Refs["ns0:p1"] = []string{targets[0], targets[1]}
	}
	if h.Choice("p2", 2) == 1 {
		v.Refs["ns0:p2"] = []string{targets[1]}
	}
	if withProps {
		switch h.Choice("val", 3) {
		case 1:
			v.Props["ns0:v"] = "x"
		case 2:
			v.Props["ns0:v"] = "y"
		}
	}
	v.Deleted = h.Choice("del", 2) == 1
	return v
}

func vB(b bool) string {
	if b {
		return "true"
	}
	return "false"
}
