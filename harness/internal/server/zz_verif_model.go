//go:build verif

package server

import (
	"sort"
	"strings"

	"github.com/mimiro-io/datahub/internal/verifh"
)

// ---- reference model of the entity graph (transcribed from the properties)

// mVersion is one stored version of an entity in one dataset.
type mVersion struct {
	ID      string
	Props   map[string]string   // property → value (rendered as text)
	Refs    map[string][]string // predicate → targets
	Deleted bool
	Seq     int // position in the model's global write order (1-based)
}

type mDataset struct {
	Name    string
	Latest  map[string]*mVersion
	Order   []string    // ids in order of first appearance (= internal id order within a fresh store)
	Feed    []*mVersion // accepted versions in commit order
	Deleted bool
}

type mGraph struct {
	DS    map[string]*mDataset
	Names []string
	seq   int
	// ever[ds][source][target] = predicates under which source has ever
	// referenced target in ds (any version, also removed ones)
	ever map[string]map[string]map[string]map[string]bool
}

func newMGraph(names ...string) *mGraph {
	g := &mGraph{DS: map[string]*mDataset{}}
	for _, n := range names {
		g.DS[n] = &mDataset{Name: n, Latest: map[string]*mVersion{}}
		g.Names = append(g.Names, n)
	}
	return g
}

// dataset lifecycle in the model
func (g *mGraph) createDS(name string) {
	g.DS[name] = &mDataset{Name: name, Latest: map[string]*mVersion{}}
	g.Names = append(g.Names, name)
}

func (g *mGraph) deleteDS(name string) {
	delete(g.DS, name)
	for i, n := range g.Names {
		if n == name {
			g.Names = append(g.Names[:i:i], g.Names[i+1:]...)
			break
		}
	}
	for ds := range g.ever {
		if ds == name {
			delete(g.ever, ds)
		}
	}
}

func (g *mGraph) renameDS(old, name string) {
	d := g.DS[old]
	delete(g.DS, old)
	d.Name = name
	g.DS[name] = d
	for i, n := range g.Names {
		if n == old {
			g.Names[i] = name
		}
	}
	if e, ok := g.ever[old]; ok {
		g.ever[name] = e
		delete(g.ever, old)
	}
}

func mSameVersion(a, b *mVersion) bool {
	if a.Deleted != b.Deleted || len(a.Props) != len(b.Props) || len(a.Refs) != len(b.Refs) {
		return false
	}
	for k, v := range a.Props {
		if w, ok := b.Props[k]; !ok || w != v {
			return false
		}
	}
	for k, v := range a.Refs {
		w, ok := b.Refs[k]
		if !ok || len(w) != len(v) {
			return false
		}
		for i := range v {
			if v[i] != w[i] {
				return false
			}
		}
	}
	return true
}

// write applies one accepted batch to dataset ds: an element identical to the
// version it would replace is dropped, every other element becomes the latest
// version and one feed entry.
func (g *mGraph) write(ds string, batch []*mVersion) {
	d := g.DS[ds]
	for _, v := range batch {
		prev, ok := d.Latest[v.ID]
		if ok && mSameVersion(prev, v) {
			continue
		}
		if !ok {
			d.Order = append(d.Order, v.ID)
		}
		g.seq++
		g.noteRefs(ds, v)
		nv := *v
		nv.Seq = g.seq
		d.Latest[v.ID] = &nv
		d.Feed = append(d.Feed, &nv)
	}
}

func (g *mGraph) noteRefs(ds string, v *mVersion) {
	if g.ever == nil {
		g.ever = map[string]map[string]map[string]map[string]bool{}
	}
	if g.ever[ds] == nil {
		g.ever[ds] = map[string]map[string]map[string]bool{}
	}
	if g.ever[ds][v.ID] == nil {
		g.ever[ds][v.ID] = map[string]map[string]bool{}
	}
	for p, ts := range v.Refs {
		for _, t := range ts {
			if g.ever[ds][v.ID][t] == nil {
				g.ever[ds][v.ID][t] = map[string]bool{}
			}
			g.ever[ds][v.ID][t][p] = true
		}
	}
}

// multiPredSource reports whether some entity has ever referenced target
// under two or more different predicates within the in-scope datasets.
func (g *mGraph) multiPredSource(target string, scope []string) bool {
	perSource := map[string]map[string]bool{}
	for _, ds := range g.Names {
		if !g.inScope(ds, scope) {
			continue
		}
		for src, byTarget := range g.ever[ds] {
			for p := range byTarget[target] {
				if perSource[src] == nil {
					perSource[src] = map[string]bool{}
				}
				perSource[src][p] = true
			}
		}
	}
	for _, ps := range perSource {
		if len(ps) >= 2 {
			return true
		}
	}
	return false
}

func (g *mGraph) inScope(ds string, scope []string) bool {
	if g.DS[ds].Deleted {
		return false
	}
	if len(scope) == 0 {
		return true
	}
	for _, s := range scope {
		if s == ds {
			return true
		}
	}
	return false
}

// related returns the sorted "pred|other" pairs the property demands.
func (g *mGraph) related(start, pred string, inverse bool, scope []string) []string {
	set := map[string]bool{}
	for _, name := range g.Names {
		if !g.inScope(name, scope) {
			continue
		}
		for id, v := range g.DS[name].Latest {
			if v.Deleted {
				continue
			}
			for p, targets := range v.Refs {
				if pred != "*" && pred != p {
					continue
				}
				for _, t := range targets {
					if !inverse && id == start {
						set[p+"|"+t] = true
					}
					if inverse && t == start {
						set[p+"|"+id] = true
					}
				}
			}
		}
	}
	out := make([]string, 0, len(set))
	for k := range set {
		out = append(out, k)
	}
	sort.Strings(out)
	return out
}

func vRelPairs(rels []RelatedEntityResult) []string {
	out := make([]string, 0, len(rels))
	for _, r := range rels {
		id := ""
		if r.RelatedEntity != nil {
			id = r.RelatedEntity.ID
		}
		out = append(out, r.PredicateURI+"|"+id)
	}
	sort.Strings(out)
	return out
}

func vJoin(xs []string) string { return strings.Join(xs, ",") }

func vHasDup(xs []string) bool {
	for i := 1; i < len(xs); i++ {
		if xs[i] == xs[i-1] {
			return true
		}
	}
	return false
}

// mkEntity builds the implementation-side entity for a model version.
func mkEntity(v *mVersion) *Entity {
	e := NewEntity(v.ID, 0)
	for k, val := range v.Props {
		e.Properties[k] = val
	}
	for p, ts := range v.Refs {
		if len(ts) == 1 {
			e.References[p] = ts[0]
		} else {
			arr := make([]interface{}, len(ts))
			for i, t := range ts {
				arr[i] = t
			}
			e.References[p] = arr
		}
	}
	e.IsDeleted = v.Deleted
	return e
}

// vFamily bounds the entity family drawn by drawVersion.
type vFamily struct {
	P1   int  // number of options for ref p1 out of {none, t0, t1, [t0,t1]}
	P2   bool // ref p2 ∈ {none, t1}
	Vals int  // number of options for property v out of {absent, "x", "y"}
	Del  bool // deleted flag
}

var famRefs = vFamily{P1: 4, P2: true, Vals: 1, Del: true}
var famProps = vFamily{P1: 2, P2: false, Vals: 3, Del: true}
var famTiny = vFamily{P1: 1, P2: false, Vals: 3, Del: true}

// drawVersion draws one entity version from a small family.
func drawVersion(h *verifh.H, ids, targets []string, fam vFamily) *mVersion {
	v := &mVersion{Props: map[string]string{}, Refs: map[string][]string{}}
	v.ID = ids[h.Choice("id", len(ids))]
	switch h.Choice("p1", fam.P1) {
	case 1:
		v.Refs["ns0:p1"] = []string{targets[0]}
	case 2:
		v.Refs["ns0:p1"] = []string{targets[1]}
	case 3:
		v.Refs["ns0:p1"] = []string{targets[0], targets[1]}
	case 4:
		v.Refs["ns0:p1"] = []string{targets[1], targets[0]} // same targets, other order: a different version
	case 5:
		v.Refs["ns0:p1"] = []string{targets[0], targets[0], targets[1]} // a target named twice
	}
	if fam.P2 && h.Choice("p2", 2) == 1 {
		v.Refs["ns0:p2"] = []string{targets[1]}
	}
	switch h.Choice("val", fam.Vals) {
	case 1:
		v.Props["ns0:v"] = "x"
	case 2:
		v.Props["ns0:v"] = "y"
	}
	if fam.Del {
		v.Deleted = h.Choice("del", 2) == 1
	}
	return v
}

// vHistory drives a history of batches through the real write path and the
// reference model in lock step.
type vHistory struct {
	hub *VHub
	dss map[string]*Dataset
	g   *mGraph
	dsn []string
}

func vNewHistory(h *verifh.H, dsn ...string) *vHistory {
	hub := VerifNewHub(h)
	hs := &vHistory{hub: hub, dss: map[string]*Dataset{}, g: newMGraph(dsn...), dsn: dsn}
	// optionally the datasets are created with public namespaces (their meta-entities in
	// core.Dataset then carry a publicNamespaces property, which the write path of core.Dataset
	// treats specially)
	var cfg *CreateDatasetConfig
	if h.Param("publicNs", 0) == 1 && h.Choice("publicNs", 2) == 1 {
		cfg = &CreateDatasetConfig{PublicNamespaces: []string{"http://example.com/pub/"}}
	}
	for _, n := range dsn {
		ds, err := hub.Dsm.CreateDataset(n, cfg)
		h.Assert(err == nil, "create dataset")
		hs.dss[n] = ds
	}
	return hs
}

// step writes one drawn batch; the first batch goes to the first dataset
// unless firstAny (symmetry reduction).
func (hs *vHistory) step(h *verifh.H, s int, fam vFamily, batch2, firstAny bool) string {
	ids := []string{"ns0:e1", "ns0:e2"}
	targets := []string{"ns0:e2", "ns0:e3"}
	name := hs.dsn[0]
	if (s > 0 || firstAny) && len(hs.dsn) > 1 {
		name = hs.dsn[h.Choice("ds", len(hs.dsn))]
	}
	nb := 1
	if batch2 {
		// the same dataset gets several versions in one batch (ids may repeat)
		nb = h.Param("batchN", 2)
	}
	if h.Param("oneId", 0) == 1 {
		ids = ids[:1]
	}
	switch h.Param("tiny", 0) {
	case 1:
		fam = famTiny
	case 2:
		fam = vFamily{P1: 1, P2: false, Vals: 2, Del: true}
	case 3:
		fam = vFamily{P1: 4, P2: false, Vals: 1, Del: true}
	case 4:
		fam = vFamily{P1: 2, P2: false, Vals: 1, Del: true}
	case 5:
		fam = vFamily{P1: 5, P2: false, Vals: 1, Del: false}
	case 6:
		fam = vFamily{P1: 6, P2: false, Vals: 1, Del: true}
	}
	if h.Param("txn", 0) == 1 && len(hs.dsn) > 1 && h.Choice("asTxn", 2) == 1 {
		// a transaction writing one version to each of the first two datasets
		txn := &Transaction{DatasetEntities: map[string][]*Entity{}}
		var vs []*mVersion
		for _, dn := range hs.dsn[:2] {
			v := drawVersion(h, ids, targets, fam)
			vs = append(vs, v)
			txn.DatasetEntities[dn] = []*Entity{mkEntity(v)}
		}
		h.Assert(hs.hub.Store.ExecuteTransaction(txn) == nil, "transaction accepted")
		for k, dn := range hs.dsn[:2] {
			hs.g.write(dn, []*mVersion{vs[k]})
		}
		return hs.dsn[0]
	}
	var batch []*mVersion
	var ents []*Entity
	for k := 0; k < nb; k++ {
		v := drawVersion(h, ids, targets, fam)
		batch = append(batch, v)
		ents = append(ents, mkEntity(v))
	}
	err := hs.dss[name].StoreEntities(ents)
	h.Assert(err == nil, "batch accepted")
	hs.g.write(name, batch)
	return name
}

// ---- rendering (same text for model versions and implementation entities)

func vRenderVal(v interface{}) string {
	switch x := v.(type) {
	case string:
		return x
	case []interface{}:
		s := "["
		for i, e := range x {
			if i > 0 {
				s += " "
			}
			s += vRenderVal(e)
		}
		return s + "]"
	case []string:
		s := "["
		for i, e := range x {
			if i > 0 {
				s += " "
			}
			s += e
		}
		return s + "]"
	case float64:
		if x == float64(int64(x)) {
			return itoa(int(x))
		}
		return "float"
	case int:
		return itoa(x)
	case int64:
		return itoa(int(x))
	case bool:
		return vB(x)
	case nil:
		return "null"
	}
	return "?"
}

func itoa(n int) string {
	if n == 0 {
		return "0"
	}
	neg := n < 0
	if neg {
		n = -n
	}
	s := ""
	for n > 0 {
		s = string(rune('0'+n%10)) + s
		n /= 10
	}
	if neg {
		s = "-" + s
	}
	return s
}

func vRenderMap(m map[string]interface{}) string {
	keys := make([]string, 0, len(m))
	for k := range m {
		keys = append(keys, k)
	}
	sort.Strings(keys)
	s := "{"
	for _, k := range keys {
		s += k + "=" + vRenderVal(m[k]) + ";"
	}
	return s + "}"
}

func vRenderEntity(e *Entity) string {
	if e == nil {
		return "<nil>"
	}
	return e.ID + "|del=" + vB(e.IsDeleted) + "|props" + vRenderMap(e.Properties) + "|refs" + vRenderMap(e.References)
}

func mRender(v *mVersion) string {
	props := map[string]interface{}{}
	for k, val := range v.Props {
		props[k] = val
	}
	refs := map[string]interface{}{}
	for p, ts := range v.Refs {
		if len(ts) == 1 {
			refs[p] = ts[0]
		} else {
			refs[p] = ts
		}
	}
	return v.ID + "|del=" + vB(v.Deleted) + "|props" + vRenderMap(props) + "|refs" + vRenderMap(refs)
}

func vRenderList(es []*Entity) []string {
	out := make([]string, 0, len(es))
	for _, e := range es {
		out = append(out, vRenderEntity(e))
	}
	return out
}

func vSorted(xs []string) []string {
	out := append([]string{}, xs...)
	sort.Strings(out)
	return out
}

// mMergeRender renders the merge of the non-deleted latest versions of id over
// the in-scope datasets, in dataset order, as mergeInto documents: a colliding
// key becomes a list of the values (lists are flattened one level).
func (g *mGraph) mMergeRender(id string, scope []string) (string, bool, bool) {
	props := map[string]interface{}{}
	refs := map[string]interface{}{}
	found, anyDeleted := false, false
	add := func(m map[string]interface{}, k string, v interface{}) {
		old, ok := m[k]
		if !ok {
			m[k] = v
			return
		}
		var list []interface{}
		if ol, isList := old.([]interface{}); isList {
			list = append(list, ol...)
		} else {
			list = append(list, old)
		}
		if vl, isList := v.([]interface{}); isList {
			list = append(list, vl...)
		} else {
			list = append(list, v)
		}
		m[k] = list
	}
	for _, name := range g.Names {
		if !g.inScope(name, scope) {
			continue
		}
		v, ok := g.DS[name].Latest[id]
		if !ok {
			continue
		}
		if v.Deleted {
			anyDeleted = true
			continue
		}
		found = true
		for k, val := range v.Props {
			add(props, k, val)
		}
		for p, ts := range v.Refs {
			if len(ts) == 1 {
				add(refs, p, ts[0])
			} else {
				l := make([]interface{}, len(ts))
				for i, t := range ts {
					l[i] = t
				}
				add(refs, p, l)
			}
		}
	}
	return id + "|del=false|props" + vRenderMap(props) + "|refs" + vRenderMap(refs), found, anyDeleted
}

func vB(b bool) string {
	if b {
		return "true"
	}
	return "false"
}
