//go:build verif

package server

import (
	"reflect"

	"github.com/mimiro-io/datahub/internal/verifh"
)

func VerifToyDeep(h *verifh.H) {
	a := []interface{}{int64(1), int64(2)}
	b, _ := jsonMarshal(a)
	var dec interface{}
	_ = jsonUnmarshal(b, &dec)
	v1, t1 := toJsonValue(dec)
	v2, t2 := toJsonValue(a)
	h.Assert(t1.Kind() == reflect.Slice, "t1")
	h.Assert(t2.Kind() == reflect.Slice, "t2")
	h.Assert(len(v1.([]interface{})) == len(v2.([]interface{})), "len")
	x1 := v1.([]interface{})[0]
	x2 := v2.([]interface{})[0]
	_, f1 := x1.(float64)
	_, f2 := x2.(float64)
	h.Assert(f1, "f1")
	h.Assert(f2, "f2")
	h.Assert(x1 == x2, "eq0")
	h.Assert(reflect.DeepEqual(x1, x2), "deq0")
	h.Assert(reflect.DeepEqual(v1, v2), "deep equal")
}
