//go:build verif

package server

import (
	"encoding/binary"

	"github.com/mimiro-io/datahub/internal/verifh"
)

// VerifC01PageKeys: paged listing (MapEntitiesRaw, the code behind
// GetEntities/MapEntities, the entities endpoint and the dataset sources) over
// a dataset whose latest-version index holds entities with ARBITRARY symbolic
// internal ids — the continuation token is the last key handed out, so whether
// paging steps correctly from one key to the next is a question about the
// bytes of the ids (carries, 0xFF bytes), not about histories. With page sizes
// 1 and 2, following the tokens returns every entity exactly once, in key
// order, and ends with an empty page.
func VerifC01PageKeys(h *verifh.H) {
	hub := VerifNewHub(h)
	ds, err := hub.Dsm.CreateDataset("d", nil)
	h.Assert(err == nil, "create")
	db := hub.Store.database
	n := 2 + h.Choice("n", h.Param("maxKeys", 3)-1)
	rids := make([]uint64, n)
	for i := 0; i < n; i++ {
		rids[i] = uint64(h.Int("rid", 1, h.Param("maxRid", 70000)))
		if i > 0 {
			h.Assume(rids[i-1] < rids[i]) // distinct, in key order
		}
		latest := make([]byte, 14)
		binary.BigEndian.PutUint16(latest, DatasetLatestEntities)
		binary.BigEndian.PutUint32(latest[2:], ds.InternalID)
		binary.BigEndian.PutUint64(latest[6:], rids[i])
		jsonKey := make([]byte, 24)
		binary.BigEndian.PutUint16(jsonKey, EntityIDToJSONIndexID)
		binary.BigEndian.PutUint64(jsonKey[2:], rids[i])
		binary.BigEndian.PutUint32(jsonKey[10:], ds.InternalID)
		binary.BigEndian.PutUint64(jsonKey[14:], 1700000000000000000)
		h.Preload(db, jsonKey, []byte(`{"id":"ns0:k`+itoa(i)+`","refs":{},"props":{}}`))
		h.Preload(db, latest, jsonKey)
	}
	for _, count := range []int{1, 2} {
		var got []string
		token := ""
		ended := false
		for page := 0; page < n+2; page++ {
			delivered := 0
			next, err := ds.MapEntitiesRaw(token, count, func(js []byte) error {
				got = append(got, string(js))
				delivered++
				return nil
			})
			h.Assert(err == nil, "page readable")
			h.Assert(delivered <= count, "a page holds at most count entities")
			if delivered == 0 {
				ended = true
				break
			}
			token = next
		}
		h.Assert(ended, "paging ends with an empty page :: count="+itoa(count))
		ok := len(got) == n
		for i := 0; ok && i < n; i++ {
			ok = got[i] == `{"id":"ns0:k`+itoa(i)+`","refs":{},"props":{}}`
		}
		h.Assert(ok, "following the tokens returns every entity exactly once, in key order :: count="+itoa(count)+" got="+vJoin(got))
	}
	h.Observe("n", n)
}
