//go:build verif

package server

import "encoding/json"

func jsonMarshal(v interface{}) ([]byte, error)   { return json.Marshal(v) }
func jsonUnmarshal(b []byte, v interface{}) error { return json.Unmarshal(b, v) }
