//go:build verif

package server

import (
	"github.com/mimiro-io/datahub/internal/verifh"
)

// VerifC01History: after every history in the box, listing a dataset and a
// lookup scoped to it return exactly the last version written there, each
// entity exactly once also when paged with continuation tokens; an unscoped
// lookup returns the merge of the per-dataset latest non-deleted versions.
func VerifC01History(h *verifh.H) {
	names := []string{"d1", "d2", "d3", "d4"}[:h.Param("nds", 2)]
	hs := vNewHistory(h, names...)
	hub, g := hs.hub, hs.g
	steps := h.Param("steps", 2)
	for s := 0; s < steps; s++ {
		hs.step(h, s, famProps, h.Param("batch2", 0) == 1 && s == steps-1, h.Param("firstAny", 0) == 1)
	}
	ids := []string{"ns0:e1", "ns0:e2"}
	for _, name := range hs.dsn {
		ds := hs.dss[name]
		md := g.DS[name]
		var want []string
		for _, id := range md.Order {
			want = append(want, mRender(md.Latest[id]))
		}
		res, err := ds.GetEntities("", -1)
		h.Assert(err == nil, "listing succeeds")
		got := vRenderList(res.Entities)
		h.Assert(vJoin(vSorted(got)) == vJoin(vSorted(want)), "listing equals the last stored version of every entity :: ds="+name+" got="+vJoin(got)+" want="+vJoin(want))
		// paged with count 1 and the continuation tokens
		var paged []string
		token := ""
		for page := 0; page < 6; page++ {
			pr, err := ds.GetEntities(token, 1)
			h.Assert(err == nil, "paged listing succeeds")
			if len(pr.Entities) == 0 {
				break
			}
			h.Assert(len(pr.Entities) <= 1, "page respects count")
			paged = append(paged, vRenderList(pr.Entities)...)
			token = pr.ContinuationToken
		}
		h.Assert(vJoin(paged) == vJoin(got), "paged listing equals the single call, each entity exactly once :: ds="+name+" paged="+vJoin(paged)+" single="+vJoin(got))
		// scoped lookup
		for _, id := range ids {
			e, err := hub.Store.GetEntity(id, []string{name}, true)
			h.Assert(err == nil, "scoped lookup succeeds")
			mv, ok := md.Latest[id]
			if !ok {
				// never written here: nothing of it may be returned
				h.Assert(e == nil || (len(e.Properties) == 0 && len(e.References) == 0), "scoped lookup of an entity never written to the dataset returns no content")
				continue
			}
			if e == nil {
				h.Fail("scoped lookup finds the entity :: ds=" + name + " id=" + id)
				continue
			}
			h.Assert(e.IsDeleted == mv.Deleted, "scoped lookup returns the deleted flag of the last version :: ds="+name+" id="+id)
			// known finding C01-deleted-lookup-skeleton: for a deleted latest version
			// the lookup returns a skeleton without the version's props/refs
			h.Known("C01-deleted-lookup-skeleton", mv.Deleted && (len(mv.Props) > 0 || len(mv.Refs) > 0))
			h.Assert(vRenderEntity(e) == mRender(mv), "scoped lookup returns props, refs and deleted flag of the last version :: ds="+name+" got="+vRenderEntity(e)+" want="+mRender(mv))
		}
	}
	// unscoped lookup
	for _, id := range ids {
		want, found, anyDeleted := g.mMergeRender(id, nil)
		e, err := hub.Store.GetEntity(id, nil, true)
		h.Assert(err == nil, "unscoped lookup succeeds")
		if !found {
			h.Assert(e == nil || (len(e.Properties) == 0 && len(e.References) == 0), "unscoped lookup without a live version returns no content :: id="+id)
			if e != nil && anyDeleted {
				h.Assert(e.IsDeleted, "unscoped lookup of an entity whose versions are all deleted says deleted")
			}
			continue
		}
		h.Assert(e != nil && vRenderEntity(e) == want, "unscoped lookup equals the merge of the latest non-deleted versions :: got="+vRenderEntity(e)+" want="+want)
	}
	// lookup scoped to several datasets, named in either order (with three datasets also around
	// one that is left out): the merge of the latest non-deleted versions in exactly those datasets
	for i := 0; i < len(hs.dsn); i++ {
		for j := 0; j < len(hs.dsn); j++ {
			if i == j {
				continue
			}
			scope := []string{hs.dsn[i], hs.dsn[j]}
			for _, id := range ids {
				want, found, _ := g.mMergeRender(id, scope)
				e, err := hub.Store.GetEntity(id, scope, true)
				h.Assert(err == nil, "multi-dataset lookup succeeds")
				if !found {
					h.Assert(e == nil || (len(e.Properties) == 0 && len(e.References) == 0), "lookup scoped to several datasets without a live version there returns no content :: id="+id+" scope="+vJoin(scope))
					continue
				}
				h.Assert(e != nil && vRenderEntity(e) == want, "lookup scoped to several datasets equals the merge of their latest non-deleted versions, in whatever order they are named :: scope="+vJoin(scope)+" got="+vRenderEntity(e)+" want="+want)
			}
		}
	}
	h.Observe("seq", g.seq)
}

// VerifC01Equal: IsEntityEqual(prev as stored, this as submitted) holds iff
// the two versions have the same properties, references and deleted flag — so
// a write is dropped only if it is identical to the version it would replace.
// String values are symbolic with case-split lengths, so pairs whose JSON
// serialisations have equal length are found by the solver, not sampled.
func VerifC01Equal(h *verifh.H) {
	maxLen := h.Param("maxLen", 4)
	mk := func(tag string) (*Entity, string) {
		e := NewEntity("ns0:e1", 7)
		desc := ""
		if h.Choice(tag+"a", 2) == 1 {
			e.Properties["ns0:a"] = h.StrOver(tag+"av", 1, "xy")
		}
		if wl := h.Choice(tag+"wlen", maxLen+2); wl > 0 {
			e.Properties["ns0:w"] = h.StrOver(tag+"wv", wl-1, "xy")
		}
		// references: none, one symbolic ref, or an array of 2..3 symbolic refs
		// (order and multiplicity are part of the version)
		switch n := h.Choice(tag+"r", 2+h.Param("maxRefs", 2)); {
		case n == 1:
			e.References["ns0:p"] = "ns0:t" + h.StrOver(tag+"r0", 1, "123")
		case n >= 2:
			arr := make([]interface{}, n)
			for k := 0; k < n; k++ {
				arr[k] = "ns0:t" + h.StrOver(tag+"r"+string(rune('0'+k)), 1, "123")
			}
			e.References["ns0:p"] = arr
		}
		e.IsDeleted = h.Choice(tag+"del", 2) == 1
		e.Recorded = 1700000000000000000
		return e, desc
	}
	prev, _ := mk("p")
	this, _ := mk("t")
	prevJSON, _ := jsonMarshal(prev)
	thisJSON, _ := jsonMarshal(this)
	// prev as the write path sees it: decoded from the stored bytes
	stored := &Entity{}
	h.Assert(jsonUnmarshal(prevJSON, stored) == nil, "stored version decodes")
	equal := IsEntityEqual(prevJSON, thisJSON, stored, this)

	same := prev.IsDeleted == this.IsDeleted
	sameStr := func(m1, m2 map[string]interface{}, k string) bool {
		v1, ok1 := m1[k]
		v2, ok2 := m2[k]
		if ok1 != ok2 {
			return false
		}
		if !ok1 {
			return true
		}
		return h.StrEq(v1.(string), v2.(string))
	}
	same = h.And(same, sameStr(prev.Properties, this.Properties, "ns0:a"), sameStr(prev.Properties, this.Properties, "ns0:w"))
	r1, ok1 := prev.References["ns0:p"]
	r2, ok2 := this.References["ns0:p"]
	sameRefs := ok1 == ok2
	if ok1 && ok2 {
		l1, a1 := r1.([]interface{})
		l2, a2 := r2.([]interface{})
		sameRefs = a1 == a2
		if a1 && a2 {
			sameRefs = len(l1) == len(l2)
			if sameRefs {
				for k := range l1 {
					sameRefs = h.And(sameRefs, h.StrEq(l1[k].(string), l2[k].(string)))
				}
			}
		} else if !a1 && !a2 {
			sameRefs = h.StrEq(r1.(string), r2.(string))
		}
	}
	same = h.And(same, sameRefs)
	// known finding C01-undelete-equal-length: the comparison ignores the
	// deleted flag and only walks the stored version's keys, so an un-delete
	// that adds content whose serialisation is as long as ,"deleted":true is
	// taken for identical.
	h.Known("C01-undelete-equal-length", prev.IsDeleted && !this.IsDeleted)
	h.Assert(h.Iff(equal, same), "a write is treated as identical iff props, refs and deleted flag are identical")
	h.Observe("equal", equal)
}

// vValueFamily: property values other than strings, as the JSON decoder
// (stored side: float64, []interface{}, map) and a transform (submitted side:
// int, int64, float64, nested []interface{}, nested *Entity) produce them.
// canon is the value's JSON text: two values denote the same property value
// iff their canon texts are equal.
type vValue struct {
	v     interface{}
	canon string
}

func vValueFamily() []vValue {
	sub := func(v string) *Entity {
		e := NewEntity("ns0:sub", 0)
		e.Properties["ns0:n"] = v
		return e
	}
	return []vValue{
		{int(10), "10"},
		{int64(10), "10"},
		{float64(10), "10"},
		{float64(10.5), "10.5"},
		{"10", `"10"`},
		{true, "true"},
		{[]interface{}{int64(1), int64(2)}, "[1,2]"},
		{[]interface{}{float64(1), float64(2)}, "[1,2]"},
		{[]interface{}{float64(1), float64(3)}, "[1,3]"},
		{[]interface{}{[]interface{}{int64(10), int64(59)}, []interface{}{int64(11), int64(60)}}, "[[10,59],[11,60]]"},
		{[]interface{}{[]interface{}{float64(10), float64(59)}, []interface{}{float64(11), float64(60)}}, "[[10,59],[11,60]]"},
		{[]interface{}{[]interface{}{int(10), int(59)}, []interface{}{int(11), int(61)}}, "[[10,59],[11,61]]"},
		{[]interface{}{"a", int64(1)}, `["a",1]`},
		{[]interface{}{"a", float64(1)}, `["a",1]`},
		{[]interface{}{sub("x")}, `[sub:x]`},
		{[]interface{}{sub("y")}, `[sub:y]`},
	}
}

// VerifC01EqualValues: IsEntityEqual over non-string property values. The
// stored side is what the write path compares against — the previous version
// decoded from its stored JSON — the submitted side is the value as a client
// batch (JSON-decoded) or a transform (Go ints, nested slices, nested
// entities) hands it in. A write is treated as identical iff the two values
// denote the same JSON value; so re-running a job that produces the same
// numbers, nested arrays or sub-entities adds no version, and a changed number
// inside a nested array is not dropped.
func VerifC01EqualValues(h *verifh.H) {
	fam := vValueFamily()
	pv := fam[h.Choice("prev", len(fam))]
	tv := fam[h.Choice("this", len(fam))]
	prev := NewEntity("ns0:e1", 7)
	prev.Properties["ns0:v"] = pv.v
	this := NewEntity("ns0:e1", 7)
	this.Properties["ns0:v"] = tv.v
	if h.Choice("thisDecoded", 2) == 1 {
		// the submitted side came through the JSON parser as well
		b, _ := jsonMarshal(this)
		this = &Entity{}
		h.Assert(jsonUnmarshal(b, this) == nil, "submitted version decodes")
	}
	prevJSON, _ := jsonMarshal(prev)
	thisJSON, _ := jsonMarshal(this)
	stored := &Entity{}
	h.Assert(jsonUnmarshal(prevJSON, stored) == nil, "stored version decodes")
	equal := IsEntityEqual(prevJSON, thisJSON, stored, this)
	h.Assert(equal == (pv.canon == tv.canon), "a write is treated as identical iff the property values denote the same JSON value :: prev="+pv.canon+" this="+tv.canon)
	h.Observe("equal", equal)
}
