//go:build verif

package server

import (
	"github.com/mimiro-io/datahub/internal/verifh"
)

// vCatalog checks the catalogue invariants against the model: names maps each
// existing dataset to the set of distinct ids ever stored in it; gone lists
// names that were deleted or renamed away.
func vCatalogCheck(h *verifh.H, hub *VHub, names map[string]map[string]bool, gone map[string]bool, when string) {
	// dataset list = existing datasets (+ core.Dataset)
	listed := map[string]bool{}
	for _, n := range hub.Dsm.GetDatasetNames() {
		listed[n.Name] = true
	}
	for n := range names {
		h.Assert(listed[n], "every existing dataset is listed :: "+when+" name="+n)
	}
	for n := range listed {
		_, ok := names[n]
		h.Assert(ok || n == "core.Dataset", "only existing datasets are listed :: "+when+" name="+n)
	}
	info, err := hub.Store.NamespaceManager.GetDatasetNamespaceInfo()
	h.Assert(err == nil, "dataset namespace known")
	core := hub.Dsm.GetDataset("core.Dataset")
	res, err := core.GetEntities("", -1)
	h.Assert(err == nil, "core.Dataset readable")
	live := map[string]int{}
	items := map[string]string{}
	for _, e := range res.Entities {
		name, _ := e.Properties[info.NameKey].(string)
		if !e.IsDeleted {
			live[name]++
			items[name] = vRenderVal(e.Properties[info.ItemsKey])
		}
	}
	pubs := map[string]string{}
	for _, e := range res.Entities {
		name, _ := e.Properties[info.NameKey].(string)
		if !e.IsDeleted {
			pubs[name] = vRenderNs(e.Properties[info.PublicNamespacesKey])
		}
	}
	remote := map[string]string{}
	for _, e := range res.Entities {
		name, _ := e.Properties[info.NameKey].(string)
		if !e.IsDeleted {
			remote[name], _ = e.Properties[info.DatasetPrefix+":remoteUrl"].(string)
		}
	}
	for n := range names {
		// ... and its proxy setting: the catalogue says proxy (with this remote) iff the dataset is one
		if d := hub.Dsm.GetDataset(n); d != nil {
			have := ""
			if d.IsProxy() && d.ProxyConfig != nil {
				have = d.ProxyConfig.RemoteURL
			}
			h.Assert(remote[n] == have, "the live meta-entity carries the dataset's proxy setting :: "+when+" name="+n+" meta="+remote[n]+" dataset="+have)
		}
	}
	for n := range names {
		// the meta-entity carries the dataset's public-namespace setting: what the catalogue says is
		// what the dataset object (and, after a restart, the stored dataset record) says
		if d := hub.Dsm.GetDataset(n); d != nil {
			var have []interface{}
			for _, x := range d.PublicNamespaces {
				have = append(have, x)
			}
			h.Assert(pubs[n] == vRenderNs(have), "the live meta-entity carries the dataset's public namespaces :: "+when+" name="+n+" meta="+pubs[n]+" dataset="+vRenderNs(have))
		}
	}
	for n, ids := range names {
		h.Assert(live[n] == 1, "each existing dataset has exactly one live meta-entity :: "+when+" name="+n+" live="+itoa(live[n]))
		h.Assert(items[n] == itoa(len(ids)), "the items counter equals the number of distinct ids ever stored :: "+when+" name="+n+" items="+items[n]+" want="+itoa(len(ids)))
	}
	// core.Dataset is a dataset too: its own meta-entity counts the meta-entities
	h.Assert(live["core.Dataset"] == 1, "core.Dataset has exactly one live meta-entity :: "+when)
	everMeta := 1 + len(names)
	for n := range gone {
		if _, exists := names[n]; !exists {
			everMeta++
		}
	}
	// known finding C19-core-self-count (known_findings.json)
	h.Known("C19-core-self-count", true)
	h.Assert(items["core.Dataset"] == itoa(everMeta), "core.Dataset's own items counter equals the number of meta-entities ever stored :: "+when+" items="+items["core.Dataset"]+" want="+itoa(everMeta))
	for n := range gone {
		if _, exists := names[n]; !exists {
			h.Assert(live[n] == 0, "deleted or renamed-away names have only deleted meta-entities :: "+when+" name="+n)
		}
	}
}

// VerifC19Catalog: dataset list, core.Dataset meta-entities and the datasets
// themselves agree after every history of create/delete/rename/re-create and
// writes (batches and transactions, with new, known and repeated ids).
func VerifC19Catalog(h *verifh.H) {
	hub := VerifNewHub(h)
	// the dataset under test has an ordinary name or one with characters that need escaping in a URI
	nameA := []string{"a", "a b/c"}[h.Choice("nameA", 2)]
	nameC := []string{"c", "c (old)"}[h.Choice("nameC", 2)]
	var cfgA *CreateDatasetConfig
	if h.Param("publicNs", 0) == 1 && h.Choice("publicNs", 2) == 1 {
		cfgA = &CreateDatasetConfig{PublicNamespaces: []string{"http://example.com/pub/"}}
	}
	_, err := hub.Dsm.CreateDataset(nameA, cfgA)
	h.Assert(err == nil, "create a")
	_, err = hub.Dsm.CreateDataset("b", nil)
	h.Assert(err == nil, "create b")
	names := map[string]map[string]bool{nameA: {}, "b": {}}
	proxyName := ""
	if h.Param("proxy", 0) == 1 {
		// a proxy dataset (its entities live on a remote data layer; the catalogue carries its settings)
		_, err = hub.Dsm.CreateDataset("px", &CreateDatasetConfig{ProxyDatasetConfig: &ProxyDatasetConfig{RemoteURL: "http://remote.example/datasets/r"}})
		h.Assert(err == nil, "create proxy dataset")
		names["px"] = map[string]bool{}
		proxyName = "px"
	}
	gone := map[string]bool{}
	pool := []string{"ns0:e1", "ns0:e2", "ns0:e3"}
	if h.Param("badTxn", 0) == 1 {
		pool = pool[:2]
	}
	mk := func(id string, tag string) *Entity {
		e := NewEntity(id, 0)
		e.Properties["ns0:v"] = tag
		return e
	}
	cur := nameA
	vCatalogCheck(h, hub, names, gone, "initial")
	nops := h.Param("ops", 2)
	for k := 0; k < nops; k++ {
		op := 0
		if h.Param("proxy", 0) != 1 {
			op = h.Choice("op", 7+h.Param("mirror", 0)+h.Param("nsBatch", 0))
		}
		if h.Param("nsBatch", 0) == 1 && h.Param("mirror", 0) == 0 && op == 7 {
			op = 8
		}
		if h.Param("proxy", 0) == 1 {
			op = []int{3, 4, 5, 6, 9}[h.Choice("pop", 5)] // delete, rename, re-create, restart, rename the proxy dataset
		}
		if h.Param("lifecycleOnly", 0) == 1 {
			h.Assume(op == 3 || op == 4 || op == 5 || op == 6 || op == 8) // delete, rename, re-create, restart, catalogue batch
		}
		if h.Param("badTxn", 0) == 1 {
			h.Assume(op == 0 || op == 2) // batch of one, transaction (accepted or refused)
		}
		when := "op" + itoa(k) + "=" + itoa(op)
		switch op {
		case 6: // the hub restarts: the catalogue is rebuilt from what is stored
			hub = hub.Restart()
		case 0, 1: // batch of one or two entities (ids may repeat inside the batch and across batches)
			if cur == "" {
				h.Assume(false)
			}
			var batch []*Entity
			n := op + 1
			for i := 0; i < n; i++ {
				id := pool[h.Choice("id", len(pool))]
				// the value is one of two, so a repeated id can carry an identical or a different version
				batch = append(batch, mk(id, []string{"x", "y"}[h.Choice("tag", 2)]))
				names[cur][id] = true
			}
			h.Assert(hub.Dsm.GetDataset(cur).StoreEntities(batch) == nil, "batch accepted")
		case 2: // transaction over the dataset under test and b
			if cur == "" {
				h.Assume(false)
			}
			id1 := pool[h.Choice("id", len(pool))]
			id2 := pool[h.Choice("id", len(pool))]
			txn := &Transaction{DatasetEntities: map[string][]*Entity{cur: {mk(id1, "t"+itoa(k))}, "b": {mk(id2, "t"+itoa(k))}}}
			if bad := h.Choice("badTxn", 1+2*h.Param("badTxn", 0)); bad != 0 {
				// one part of the transaction holds an entity the hub rejects (a nil reference), after a
				// good one: the transaction is refused as a whole and the catalogue counts nothing of it
				be := mk(pool[h.Choice("id", len(pool))], "bad")
				be.References["ns0:p1"] = nil
				part := []string{cur, "b"}[bad-1]
				txn.DatasetEntities[part] = append(txn.DatasetEntities[part], be)
				h.Assert(hub.Store.ExecuteTransaction(txn) != nil, "a transaction with a rejected entity is refused")
				break
			}
			h.Assert(hub.Store.ExecuteTransaction(txn) == nil, "transaction accepted")
			names[cur][id1] = true
			names["b"][id2] = true
		case 3: // delete
			if cur == "" {
				h.Assume(false)
			}
			h.Assert(hub.Dsm.DeleteDataset(cur) == nil, "delete accepted")
			delete(names, cur)
			gone[cur] = true
			cur = ""
		case 4: // rename
			if cur != nameA {
				h.Assume(false)
			}
			_, err := hub.Dsm.UpdateDataset(nameA, &UpdateDatasetConfig{ID: nameC})
			h.Assert(err == nil, "rename accepted")
			names[nameC] = names[nameA]
			delete(names, nameA)
			gone[nameA] = true
			cur = nameC
		case 7: // the catalogue is mirrored: b receives a copy of the dataset's meta-entity
			// (what a job with core.Dataset as its source writes), with a property of its own
			if cur == "" {
				h.Assume(false)
			}
			info, err := hub.Store.NamespaceManager.GetDatasetNamespaceInfo()
			h.Assert(err == nil, "dataset namespace known")
			res, err := hub.Dsm.GetDataset("core.Dataset").GetEntities("", -1)
			h.Assert(err == nil, "core.Dataset readable")
			for _, e := range res.Entities {
				if n, _ := e.Properties[info.NameKey].(string); n != cur || e.IsDeleted {
					continue
				}
				cp := NewEntity(e.ID, 0)
				for k, v := range e.Properties {
					cp.Properties[k] = v
				}
				cp.Properties["ns0:mirrored"] = "yes"
				h.Assert(hub.Dsm.GetDataset("b").StoreEntities([]*Entity{cp}) == nil, "mirror accepted")
				names["b"][e.ID] = true
			}
		case 8: // the public namespaces of every existing dataset are edited through the catalogue in
			// ONE batch to core.Dataset that also carries the tombstones of datasets that are gone
			// (what a client that syncs the whole catalogue back sends), tombstones first
			info, err := hub.Store.NamespaceManager.GetDatasetNamespaceInfo()
			h.Assert(err == nil, "dataset namespace known")
			res, err := hub.Dsm.GetDataset("core.Dataset").GetEntities("", -1)
			h.Assert(err == nil, "core.Dataset readable")
			var tomb, lives []*Entity
			for _, e := range res.Entities {
				n, _ := e.Properties[info.NameKey].(string)
				if n == "core.Dataset" {
					continue
				}
				cp := NewEntity(e.ID, 0)
				cp.IsDeleted = e.IsDeleted
				for k, v := range e.Properties {
					cp.Properties[k] = v
				}
				for k, v := range e.References {
					cp.References[k] = v
				}
				if e.IsDeleted {
					tomb = append(tomb, cp)
				} else {
					cp.Properties[info.PublicNamespacesKey] = []interface{}{"http://example.com/edited" + itoa(k) + "/"}
					lives = append(lives, cp)
				}
			}
			h.Assert(hub.Dsm.GetDataset("core.Dataset").StoreEntities(append(tomb, lives...)) == nil, "catalogue batch accepted")
		case 9: // the proxy dataset is renamed
			if proxyName != "px" {
				h.Assume(false)
			}
			_, err := hub.Dsm.UpdateDataset("px", &UpdateDatasetConfig{ID: "px2"})
			h.Assert(err == nil, "rename of the proxy dataset accepted")
			names["px2"] = names["px"]
			delete(names, "px")
			gone["px"] = true
			proxyName = "px2"
		case 5: // re-create
			if cur != "" {
				h.Assume(false)
			}
			_, err := hub.Dsm.CreateDataset(nameA, nil)
			h.Assert(err == nil, "re-create accepted")
			names[nameA] = map[string]bool{}
			cur = nameA
		}
		vCatalogCheck(h, hub, names, gone, when)
	}
	h.Observe("cur", cur)
}

// vItems returns the items counter of a dataset's live meta-entity in
// core.Dataset, rendered ("" if there is no live meta-entity).
func vItems(h *verifh.H, hub *VHub, name string) string {
	info, err := hub.Store.NamespaceManager.GetDatasetNamespaceInfo()
	h.Assert(err == nil, "dataset namespace known")
	core := hub.Dsm.GetDataset("core.Dataset")
	res, err := core.GetEntities("", -1)
	h.Assert(err == nil, "core.Dataset readable")
	out := ""
	for _, e := range res.Entities {
		n, _ := e.Properties[info.NameKey].(string)
		if n == name && !e.IsDeleted {
			out = vRenderVal(e.Properties[info.ItemsKey])
		}
	}
	return out
}

// vRenderNs renders a public-namespaces value (nil, []string or []interface{}).
func vRenderNs(v interface{}) string {
	out := ""
	switch x := v.(type) {
	case []interface{}:
		for _, e := range x {
			if s, ok := e.(string); ok {
				out += s + " "
			}
		}
	case []string:
		for _, e := range x {
			out += e + " "
		}
	}
	return out
}
