//go:build verif

package server

import (
	"strings"

	"github.com/mimiro-io/datahub/internal/verifh"
)

// fragments a mutated payload draws from: one valid and several wrongly typed
// or malformed alternatives per position
var (
	vCtxFrags = []string{
		`{"id":"@context","namespaces":{"_":"http://example.com/ns/","ex":"http://example.com/x/"}}`,
		`{"id":"@context"}`,
		`{"id":"@context","namespaces":"oops"}`,
		`{"id":"@context","namespaces":{"_":5}}`,
		`{"id":"@context","namespaces":null}`,
		`{"id":5,"namespaces":{}}`,
		`"not an object"`,
		`{"id":"other","namespaces":{}}`,
	}
	vIDFrags      = []string{`"e1"`, `"ex:e1"`, `"http://example.com/x/e1"`, `5`, `null`, `{}`, `[1]`, `true`, `"nope:e1"`, `""`}
	vDeletedFrags = []string{`true`, `false`, `"yes"`, `1`, `null`, `{}`}
	vRecFrags     = []string{`12345`, `"12"`, `null`, `true`, `[1]`}
	vPropsFrags   = []string{`{"name":"bob"}`, `{"ex:n":[1,"a",true,{"id":"ex:n1","props":{}}]}`, `{"name":null}`, `5`, `"x"`, `[1]`, `{"name":{"id":5}}`, `null`}
	vRefsFrags    = []string{`{"knows":"e2"}`, `{"ex:knows":["e2","ex:e3"]}`, `{"knows":5}`, `{"knows":[1]}`, `{"knows":null}`, `{"knows":{}}`, `5`, `"x"`, `null`, `{"nope:k":"e2"}`}
)

// number of leading fragments of each list that are valid
var vValid = map[string]int{"ctx": 1, "id": 3, "del": 2, "rec": 1, "props": 3, "refs": 2}

func vPayload(h *verifh.H) (string, bool, bool) {
	// one position is mutated (any fragment of its list, valid or not), the others take a
	// valid fragment; optional members are present or absent
	pick := func(name string, frags []string, mutated bool) (int, bool) {
		if mutated {
			k := h.Choice(name, len(frags))
			return k, k < vValid[name]
		}
		return h.Choice(name+"ok", vValid[name]), true
	}
	which := h.Choice("mutate", 7) // 0 none, 1 ctx, 2 id, 3 deleted, 4 recorded, 5 props, 6 refs
	valid := true
	ctx, ok := pick("ctx", vCtxFrags, which == 1)
	valid = valid && ok
	// a context without (or with null) namespaces is acceptable when no element needs a
	// prefix: whether such a document parses depends on its identifiers, so either outcome
	// is allowed — but never a panic, and nothing may be emitted together with an error
	either := ctx == 1 || ctx == 4
	idf, ok := pick("id", vIDFrags, which == 2)
	valid = valid && ok
	ent := `{"id":` + vIDFrags[idf]
	if which == 3 || h.Choice("hasDel", 2) == 1 {
		k, ok := pick("del", vDeletedFrags, which == 3)
		valid = valid && ok
		ent += `,"deleted":` + vDeletedFrags[k]
	}
	if which == 4 || h.Choice("hasRec", 2) == 1 {
		k, ok := pick("rec", vRecFrags, which == 4)
		valid = valid && ok
		ent += `,"recorded":` + vRecFrags[k]
	}
	if which == 5 || h.Choice("hasProps", 2) == 1 {
		k, ok := pick("props", vPropsFrags, which == 5)
		valid = valid && ok
		ent += `,"props":` + vPropsFrags[k]
	}
	if which == 6 || h.Choice("hasRefs", 2) == 1 {
		k, ok := pick("refs", vRefsFrags, which == 6)
		valid = valid && ok
		ent += `,"refs":` + vRefsFrags[k]
	}
	ent += `}`
	doc := `[` + vCtxFrags[ctx] + `,` + ent + `]`
	// truncation of an otherwise untouched document at any byte position
	if which == 0 && h.Param("truncate", 1) == 1 && h.Choice("truncated", 2) == 1 {
		pos := h.Choice("cut", len(doc))
		doc = doc[:pos]
		valid = false
		either = false
	}
	return doc, valid, either
}

// vCutAfterElement: the document is an array that was cut off right after a complete element
// (all braces closed, the closing bracket missing): only the array is malformed, and a streaming
// parser has handed the complete element on before it meets the end.
func vCutAfterElement(doc string) bool {
	if strings.HasSuffix(doc, "]") || !strings.HasSuffix(doc, "}") {
		return false
	}
	depth, inStr := 0, false
	for i := 0; i < len(doc); i++ {
		c := doc[i]
		switch {
		case inStr && c == '\\':
			i++
		case c == '"':
			inStr = !inStr
		case !inStr && c == '{':
			depth++
		case !inStr && c == '}':
			depth--
		}
	}
	return depth == 0 && !inStr
}

// VerifC15Parse: every byte sequence from the grammar-mutated family either
// parses (when it is a valid payload) or is rejected with an error — never a
// panic — and nothing is emitted from a malformed element.
func VerifC15Parse(h *verifh.H) {
	hub := VerifNewHub(h)
	doc, valid, either := vPayload(h)
	esp := NewEntityStreamParser(hub.Store)
	var emitted []*Entity
	err := esp.ParseStream(strings.NewReader(doc), func(e *Entity) error {
		emitted = append(emitted, e)
		return nil
	})
	if either {
		h.Assert(err == nil || len(emitted) == 0, "nothing is emitted from a document that is rejected :: doc="+doc)
	} else if valid {
		h.Assert(err == nil && len(emitted) == 1, "a valid payload is parsed :: doc="+doc)
	} else {
		h.Assert(err != nil, "a malformed payload is rejected with an error :: doc="+doc)
		// (an element that is complete and well formed may have been handed on before the document
		// turned out to be cut off after it — the property forbids entities assembled from the
		// malformed element, which here is the array, not the entity)
		h.Assert(len(emitted) == 0 || (vCutAfterElement(doc) && len(emitted) == 1), "nothing is emitted from a malformed element :: doc="+doc)
	}
	h.Observe("err", err != nil)
}

// VerifC15RoundTrip: an entity serialised the way the GET handlers do (context
// first, then the entities as stored) parses back to the same ids, properties,
// references and deleted flag.
func VerifC15RoundTrip(h *verifh.H) {
	hub := VerifNewHub(h)
	ds, err := hub.Dsm.CreateDataset("d", nil)
	h.Assert(err == nil, "create")
	v := drawVersion(h, []string{"ns0:e1", "ns0:e2"}, []string{"ns0:e2", "ns0:e3"}, vFamily{P1: 4, P2: true, Vals: 3, Del: true})
	h.Assert(ds.StoreEntities([]*Entity{mkEntity(v)}) == nil, "store")
	res, err := ds.GetEntities("", -1)
	h.Assert(err == nil && len(res.Entities) == 1, "listing")
	ctxJSON, err := jsonMarshal(res.Context)
	h.Assert(err == nil, "context serialises")
	entJSON, err := jsonMarshal(res.Entities[0])
	h.Assert(err == nil, "entity serialises")
	doc := "[" + string(ctxJSON) + "," + string(entJSON) + `,{"id":"@continuation","token":"` + res.ContinuationToken + `"}]`
	esp := NewEntityStreamParser(hub.Store)
	var got []*Entity
	err = esp.ParseStream(strings.NewReader(doc), func(e *Entity) error {
		got = append(got, e)
		return nil
	})
	h.Assert(err == nil, "the serialised collection parses :: doc="+doc)
	h.Assert(len(got) == 2 && got[1].ID == "@continuation", "entity and continuation element come back")
	if len(got) >= 1 {
		h.Assert(vRenderEntity(got[0]) == mRender(v), "the parsed entity equals the stored one :: got="+vRenderEntity(got[0])+" want="+mRender(v))
	}
	h.Observe("doc", len(doc))
}

// property / reference values a posted entity may carry; each is valid JSON
// that json.Marshal reproduces byte for byte
var (
	vPostProps = []string{`"bob"`, `5`, `true`, `[]`, `[1,"a",true]`, `[[],[1]]`, `["x"]`, `1e999`, `[-1e400]`}
	vPostRefs  = []string{`"ex:e2"`, `["ex:e2","ex:e3"]`, `[]`, `["ex:e2"]`}
)

// VerifC15PostGet: a valid posted payload — parsed by the real stream parser,
// stored, listed, serialised as the GET handlers do — comes back with the same
// id, deleted flag and, byte for byte, the same property and reference values
// (empty arrays stay empty arrays); the serialised collection parses again to
// the same entity; and the entity can be updated afterwards.
func VerifC15PostGet(h *verifh.H) {
	hub := VerifNewHub(h)
	ds, err := hub.Dsm.CreateDataset("d", nil)
	h.Assert(err == nil, "create")
	// the payload's prefix is a local name: one that the hub does not know, one that the hub
	// itself uses for another namespace (ns1), or the default prefix "_" (bare names)
	pfxChoice := h.Choice("pfx", 4)
	pfx := []string{"ex", "ns1", "_", "ex"}[pfxChoice]
	fullKeys := false
	q := func(local string) string {
		if pfx == "_" {
			return local
		}
		return pfx + ":" + local
	}
	if pfxChoice == 3 {
		// identifiers, property and reference names written as full URIs (several of them in one payload)
		fullKeys = true
		q = func(local string) string { return "http://example.com/x/" + local }
	}
	_ = fullKeys
	np := h.Choice("nprops", 3)
	nr := h.Choice("nrefs", 3)
	var pv, rv []string
	props, refs := "", ""
	for k := 0; k < np; k++ {
		f := vPostProps[h.Choice("pv", len(vPostProps))]
		pv = append(pv, f)
		if k > 0 {
			props += ","
		}
		props += `"` + q("p"+itoa(k)) + `":` + f
	}
	for k := 0; k < nr; k++ {
		f := vPostRefs[h.Choice("rv", len(vPostRefs))]
		rv = append(rv, f)
		if k > 0 {
			refs += ","
		}
		refs += `"` + q("r"+itoa(k)) + `":` + strings.ReplaceAll(f, "ex:", q(""))
	}
	del := h.Choice("del", 2) == 1
	doc := `[{"id":"@context","namespaces":{"` + pfx + `":"http://example.com/x/"}},{"id":"` + q("e1") + `","deleted":` + vB(del) + `,"props":{` + props + `},"refs":{` + refs + `}}]`
	parse := func(doc string) ([]*Entity, error) {
		var out []*Entity
		err := NewEntityStreamParser(hub.Store).ParseStream(strings.NewReader(doc), func(e *Entity) error {
			out = append(out, e)
			return nil
		})
		return out, err
	}
	posted, err := parse(doc)
	// a number literal outside the range of the hub's number type (1e999) is JSON the hub cannot
	// represent: it may be rejected; if it is accepted, everything below applies to it as well
	unrepresentable := false
	for _, f := range pv {
		if strings.Contains(f, "e999") || strings.Contains(f, "e400") {
			unrepresentable = true
		}
	}
	if unrepresentable && err != nil {
		res, lerr := ds.GetEntities("", -1)
		h.Assert(lerr == nil && len(res.Entities) == 0, "a rejected payload stores nothing")
		h.Observe("body", 0)
		return
	}
	h.Assert(err == nil && len(posted) == 1, "the valid payload parses :: doc="+doc)
	if err != nil || len(posted) != 1 {
		return
	}
	prefix, err := hub.Store.NamespaceManager.AssertPrefixMappingForExpansion("http://example.com/x/")
	h.Assert(err == nil, "prefix known")
	h.Assert(ds.StoreEntities(posted) == nil, "the parsed payload is stored :: doc="+doc)
	res, err := ds.GetEntities("", -1)
	h.Assert(err == nil && len(res.Entities) == 1, "listing")
	if err != nil || len(res.Entities) != 1 {
		return
	}
	got := res.Entities[0]
	h.Assert(got.ID == prefix+":e1" && got.IsDeleted == del, "id and deleted flag come back")
	ctxJSON, err := jsonMarshal(res.Context)
	h.Assert(err == nil, "context serialises")
	entJSON, err := jsonMarshal(got)
	h.Assert(err == nil, "entity serialises")
	body := string(entJSON)
	for k, f := range pv {
		h.Assert(strings.Contains(body, `"`+prefix+`:p`+itoa(k)+`":`+f), "a posted property value comes back byte for byte :: posted="+f+" body="+body)
	}
	for k, f := range rv {
		want := strings.ReplaceAll(f, "ex:", prefix+":")
		h.Assert(strings.Contains(body, `"`+prefix+`:r`+itoa(k)+`":`+want), "a posted reference value comes back byte for byte :: posted="+f+" body="+body)
	}
	h.Assert(len(got.Properties) == np && len(got.References) == nr, "no property or reference is lost or invented :: body="+body)
	// the hub's own GET body parses back to the same entity
	back, err := parse("[" + string(ctxJSON) + "," + body + "]")
	h.Assert(err == nil && len(back) == 1, "the serialised collection parses :: body="+body)
	if err == nil && len(back) == 1 {
		p1, _ := jsonMarshal(got.Properties)
		p2, _ := jsonMarshal(back[0].Properties)
		r1, _ := jsonMarshal(got.References)
		r2, _ := jsonMarshal(back[0].References)
		same := back[0].ID == got.ID && back[0].IsDeleted == got.IsDeleted && string(p1) == string(p2) && string(r1) == string(r2)
		h.Assert(same, "parsing the GET body gives the same id, deleted flag, properties and references :: props="+string(p2)+" refs="+string(r2)+" body="+body)
	}
	// a later valid update of the entity is accepted
	upd, err := parse(`[{"id":"@context","namespaces":{"` + pfx + `":"http://example.com/x/"}},{"id":"` + q("e1") + `","props":{"` + q("new") + `":"v"},"refs":{}}]`)
	h.Assert(err == nil && len(upd) == 1, "update parses")
	if err == nil {
		h.Assert(ds.StoreEntities(upd) == nil, "a later valid update of the entity is accepted :: after doc="+doc)
	}
	if h.Choice("restart", 2) == 1 {
		// after a restart the hub serves the entity under a context that still denotes the posted URIs
		hub2 := hub.Restart()
		res2, err := hub2.Dsm.GetDataset("d").GetEntities("", -1)
		h.Assert(err == nil && len(res2.Entities) == 1, "listing after a restart")
		if err == nil && len(res2.Entities) == 1 {
			c2, _ := jsonMarshal(res2.Context)
			e2, _ := jsonMarshal(res2.Entities[0])
			pr := strings.SplitN(res2.Entities[0].ID, ":", 2)[0]
			h.Assert(res2.Context.Namespaces[pr] == "http://example.com/x/", "after a restart the context served with the entity maps its prefix to the posted namespace :: prefix="+pr+" context="+string(c2))
			perr := NewEntityStreamParser(hub2.Store).ParseStream(strings.NewReader("["+string(c2)+","+string(e2)+"]"), func(*Entity) error { return nil })
			h.Assert(perr == nil, "after a restart the serialised collection parses back :: body="+string(e2)+" context="+string(c2))
		}
	}
	h.Observe("body", len(body))
}

// transaction payload fragments: the value of a dataset key
var vTxnDsFrags = []string{
	`[{"id":"ex:e1","props":{"ex:n":"a"},"refs":{}}]`, // valid
	`[]`, // valid: no entities
	`[{"id":"ex:e1","props":{},"refs":{}},{"id":"ex:e2","props":{},"refs":{"ex:k":"ex:e1"}}]`, // valid
	`5`,
	`"x"`,
	`null`,
	`{"id":"ex:e1","props":{},"refs":{}}`,
	`[5]`,
	`["x",{"id":"ex:e1","props":{},"refs":{}}]`,
	`[[{"id":"ex:e1","props":{},"refs":{}}]]`,
	`[{"id":5}]`,
	`[{"id":"ex:e1","refs":{"ex:k":5}}]`,
	`[{"id":"nope:e1","props":{},"refs":{}}]`,
}

// VerifC15Txn: ParseTransaction over the grammar-mutated family of transaction
// payloads (context fragment, two dataset keys with any value fragment,
// truncation at any byte): a valid payload parses to exactly the entities it
// denotes; any other payload yields an error or, at worst, a transaction that
// contains nothing assembled from a malformed element — never a panic.
func VerifC15Txn(h *verifh.H) {
	hub := VerifNewHub(h)
	ctxFrags := []string{
		`{"namespaces":{"ex":"http://example.com/x/"}}`, // valid
		`{}`,
		`{"namespaces":"oops"}`,
		`{"namespaces":{"ex":5}}`,
		`5`,
		`null`,
		`[1]`,
	}
	c := h.Choice("ctx", len(ctxFrags))
	d1 := h.Choice("d1", len(vTxnDsFrags))
	d2 := h.Choice("d2", 4) // 0: no second dataset, 1..3: a valid fragment
	doc := `{"@context":` + ctxFrags[c] + `,"ds1":` + vTxnDsFrags[d1]
	if d2 > 0 {
		// the second dataset's entities have ids of their own (f1, f2)
		doc += `,"ds2":` + strings.ReplaceAll(vTxnDsFrags[d2-1], "ex:e", "ex:f")
	}
	doc += `}`
	valid := c == 0 && d1 < 3
	if h.Param("truncate", 0) == 1 && valid && h.Choice("truncated", 2) == 1 {
		doc = doc[:h.Choice("cut", len(doc))]
		valid = false
	}
	txn, err := NewEntityStreamParser(hub.Store).ParseTransaction(strings.NewReader(doc))
	count := func(name string) int {
		if txn == nil {
			return 0
		}
		return len(txn.DatasetEntities[name])
	}
	if valid {
		want1 := []int{1, 0, 2}[d1]
		h.Assert(err == nil && txn != nil && count("ds1") == want1, "a valid transaction payload parses to the entities it denotes :: doc="+doc)
		idsOf := func(name string) string {
			out := ""
			if txn != nil {
				for _, e := range txn.DatasetEntities[name] {
					// local part of the id (the prefix is the hub's)
					out += e.ID[strings.Index(e.ID, ":")+1:] + ","
				}
			}
			return out
		}
		wantIDs := []string{"e1,", "", "e1,e2,"}
		h.Assert(idsOf("ds1") == wantIDs[d1], "each dataset of a transaction gets exactly its own entities, in order :: ds1="+idsOf("ds1")+" doc="+doc)
		if d2 > 0 && err == nil {
			h.Assert(count("ds2") == []int{1, 0, 2}[d2-1], "the second dataset's entities are parsed :: doc="+doc)
			h.Assert(idsOf("ds2") == strings.ReplaceAll(wantIDs[d2-1], "e", "f"), "each dataset of a transaction gets exactly its own entities, in order :: ds2="+idsOf("ds2")+" doc="+doc)
		}
	} else if c == 1 || c == 5 {
		// a context without (or with null) namespaces is acceptable when no identifier needs a
		// prefix: either outcome is allowed, but nothing malformed may be accepted with it
		if err == nil {
			h.Assert(d1 < 3 && count("ds1") == []int{1, 0, 2}[d1%3], "with a context that declares no namespaces only a payload whose datasets are well formed may be accepted :: doc="+doc)
		}
	} else {
		h.Assert(err != nil, "a transaction payload that is not valid is rejected with an error :: doc="+doc)
	}
	if err != nil {
		h.Assert(txn == nil, "no transaction is returned together with an error")
	}
	h.Observe("err", err != nil)
}
