//go:build verif

package server

import (
	"encoding/binary"

	"github.com/mimiro-io/datahub/internal/verifh"
)

type vRefKey struct {
	time, pred, other uint64
	del               bool
	ds                uint32
}

// VerifC03OutKeys: GetRelatedAtTime (outgoing direction) over an ARBITRARY
// sorted set of outgoing reference-index keys of one start entity — symbolic
// time, predicate, related entity, tombstone flag and dataset per key — with a
// symbolic query instant, predicate or wildcard, scope and a symbolically
// chosen deleted dataset. Oracle at key level: (p, r) is returned, once, iff in
// some in-scope, non-deleted dataset the newest key for (p, r, dataset) at or
// before the query instant is live (a tombstone beats a live key of the same
// instant). Paging with a limit and following continuations gives the same set.
func VerifC03OutKeys(h *verifh.H) {
	hub := VerifNewHub(h)
	dsA, err := hub.Dsm.CreateDataset("a", nil)
	h.Assert(err == nil, "create")
	dsB, err := hub.Dsm.CreateDataset("b", nil)
	h.Assert(err == nil, "create")
	db := hub.Store.database
	const start = uint64(777)
	n := 1 + h.Choice("n", h.Param("maxKeys", 3))
	keys := make([]vRefKey, n)
	raw := make([][]byte, n)
	for i := 0; i < n; i++ {
		k := vRefKey{
			time:  uint64(h.Int("time", 1, 4)),
			pred:  uint64(h.Int("pred", 1, 2)),
			other: uint64(h.Int("other", 5, 6)),
			del:   h.Bool("del"),
		}
		k.ds = dsA.InternalID
		if h.Bool("inB") {
			k.ds = dsB.InternalID
		}
		b := make([]byte, 40)
		binary.BigEndian.PutUint16(b, OutgoingRefIndex)
		binary.BigEndian.PutUint64(b[2:], start)
		binary.BigEndian.PutUint64(b[10:], k.time)
		binary.BigEndian.PutUint64(b[18:], k.pred)
		binary.BigEndian.PutUint64(b[26:], k.other)
		if k.del {
			binary.BigEndian.PutUint16(b[34:], 1)
		}
		binary.BigEndian.PutUint32(b[36:], k.ds)
		if i > 0 {
			h.Assume(h.KeyLess(raw[i-1], b)) // sorted, distinct
		}
		keys[i], raw[i] = k, b
		h.Preload(db, b, []byte{})
	}
	// a key of another start entity on each side (must never be returned)
	for _, other := range []uint64{start - 1, start + 1} {
		b := make([]byte, 40)
		binary.BigEndian.PutUint16(b, OutgoingRefIndex)
		binary.BigEndian.PutUint64(b[2:], other)
		binary.BigEndian.PutUint64(b[10:], 2)
		binary.BigEndian.PutUint64(b[18:], 1)
		binary.BigEndian.PutUint64(b[26:], 9)
		binary.BigEndian.PutUint32(b[36:], dsA.InternalID)
		h.Preload(db, b, []byte{})
	}
	at := int64(h.Int("at", 0, 5))
	qpred := uint64(h.Int("qpred", 0, 2))
	var scope []uint32
	switch h.Choice("scope", 3) {
	case 1:
		scope = []uint32{dsA.InternalID}
	case 2:
		scope = []uint32{dsB.InternalID}
	}
	deletedB := h.Choice("deletedB", 2) == 1
	if deletedB {
		hub.Store.deletedDatasets = map[uint32]bool{dsB.InternalID: true}
	}
	inScope := func(ds uint32) bool {
		if deletedB && ds == dsB.InternalID {
			return false
		}
		if len(scope) == 0 {
			return true
		}
		return scope[0] == ds
	}
	prefix := make([]byte, 10)
	binary.BigEndian.PutUint16(prefix, OutgoingRefIndex)
	binary.BigEndian.PutUint64(prefix[2:], start)
	from := &RelatedFrom{RelationIndexFromKey: prefix, Predicate: qpred, Inverse: false, Datasets: scope, At: at}
	got, cont, err := hub.Store.GetRelatedAtTime(from, 0)
	h.Assert(err == nil && cont == nil, "unlimited query returns everything in one call")

	check := func(results []qresult, what string) {
		for p := uint64(1); p <= 2; p++ {
			for r := uint64(5); r <= 6; r++ {
				// expected
				var lives []bool
				for _, ds := range []uint32{dsA.InternalID, dsB.InternalID} {
					if !inScope(ds) {
						continue
					}
					for i := range keys {
						ki := keys[i]
						mi := h.And(ki.pred == p, ki.other == r, ki.ds == ds, int64(ki.time) <= at, !ki.del)
						var newer []bool
						for j := range keys {
							if j == i {
								continue
							}
							kj := keys[j]
							newer = append(newer, h.And(kj.pred == p, kj.other == r, kj.ds == ds, int64(kj.time) <= at,
								h.Or(kj.time > ki.time, h.And(kj.time == ki.time, kj.del, !ki.del))))
						}
						lives = append(lives, h.And(mi, h.Not(h.Or(newer...))))
					}
				}
				want := h.And(h.Or(lives...), h.Or(qpred == 0, qpred == p))
				cnt := 0
				var hits []bool
				for _, q := range results {
					hits = append(hits, h.And(q.PredicateID == p, q.EntityID == r))
				}
				_ = cnt
				h.Assert(h.Iff(h.Or(hits...), want), what+": (predicate, related) is returned iff its newest in-scope key is live")
				// at most once
				for a := 0; a < len(hits); a++ {
					for b := a + 1; b < len(hits); b++ {
						h.Assert(h.Not(h.And(hits[a], hits[b])), what+": nothing is returned twice")
					}
				}
			}
		}
		for _, q := range results {
			h.Assert(h.And(q.EntityID != 9), what+": keys of other start entities are never returned")
		}
	}
	check(got, "single call")
	// paged
	limit := 1 + h.Choice("limit", 2)
	from2 := &RelatedFrom{RelationIndexFromKey: prefix, Predicate: qpred, Inverse: false, Datasets: scope, At: at}
	var all []qresult
	cur := from2
	for page := 0; cur != nil && page < 6; page++ {
		res, next, err := hub.Store.GetRelatedAtTime(cur, limit)
		h.Assert(err == nil, "page readable")
		all = append(all, res...)
		cur = next
	}
	h.Assert(cur == nil, "paging terminates")
	check(all, "paged")
	h.Observe("n", len(got))
}

// VerifC03InKeys: the incoming direction of GetRelatedAtTime over an ARBITRARY
// sorted set of incoming reference-index keys of one target entity — symbolic
// referencing entity, time, predicate, tombstone flag and dataset per key —
// with a symbolic query instant, predicate or wildcard, scope and deleted
// dataset. Same key-level oracle as VerifC03OutKeys; single call and paged.
// The class of the known finding C03-incoming-tombstone (wildcard query and a
// referencing entity with in-scope keys under two predicates) is tagged.
func VerifC03InKeys(h *verifh.H) {
	hub := VerifNewHub(h)
	dsA, err := hub.Dsm.CreateDataset("a", nil)
	h.Assert(err == nil, "create")
	dsB, err := hub.Dsm.CreateDataset("b", nil)
	h.Assert(err == nil, "create")
	db := hub.Store.database
	const target = uint64(777)
	n := 1 + h.Choice("n", h.Param("maxKeys", 3))
	maxPred := h.Param("preds", 2)
	keys := make([]vRefKey, n)
	raw := make([][]byte, n)
	mk := func(tgt, src, tm, pred uint64, del bool, ds uint32) []byte {
		b := make([]byte, 40)
		binary.BigEndian.PutUint16(b, IncomingRefIndex)
		binary.BigEndian.PutUint64(b[2:], tgt)
		binary.BigEndian.PutUint64(b[10:], src)
		binary.BigEndian.PutUint64(b[18:], tm)
		binary.BigEndian.PutUint64(b[26:], pred)
		if del {
			binary.BigEndian.PutUint16(b[34:], 1)
		}
		binary.BigEndian.PutUint32(b[36:], ds)
		return b
	}
	for i := 0; i < n; i++ {
		k := vRefKey{
			time:  uint64(h.Int("time", 1, 4)),
			pred:  uint64(h.Int("pred", 1, maxPred)),
			other: uint64(h.Int("src", 5, 6)),
			del:   h.Bool("del"),
		}
		k.ds = dsA.InternalID
		if h.Bool("inB") {
			k.ds = dsB.InternalID
		}
		b := mk(target, k.other, k.time, k.pred, k.del, k.ds)
		if i > 0 {
			h.Assume(h.KeyLess(raw[i-1], b)) // sorted, distinct
		}
		keys[i], raw[i] = k, b
		h.Preload(db, b, []byte{})
	}
	for _, other := range []uint64{target - 1, target + 1} {
		h.Preload(db, mk(other, 9, 2, 1, false, dsA.InternalID), []byte{})
	}
	at := int64(h.Int("at", 0, 5))
	qpred := uint64(h.Int("qpred", 0, maxPred))
	var scope []uint32
	switch h.Choice("scope", 3) {
	case 1:
		scope = []uint32{dsA.InternalID}
	case 2:
		scope = []uint32{dsB.InternalID}
	}
	deletedB := h.Choice("deletedB", 2) == 1
	if deletedB {
		hub.Store.deletedDatasets = map[uint32]bool{dsB.InternalID: true}
	}
	inScope := func(ds uint32) bool {
		if deletedB && ds == dsB.InternalID {
			return false
		}
		if len(scope) == 0 {
			return true
		}
		return scope[0] == ds
	}
	prefix := make([]byte, 10)
	binary.BigEndian.PutUint16(prefix, IncomingRefIndex)
	binary.BigEndian.PutUint64(prefix[2:], target)
	// class of the known finding: wildcard query, one referencing entity with visible keys
	// under two different predicates
	var multi []bool
	for i := range keys {
		for j := i + 1; j < n; j++ {
			multi = append(multi, h.And(keys[i].other == keys[j].other, keys[i].pred != keys[j].pred,
				int64(keys[i].time) <= at, int64(keys[j].time) <= at, inScope(keys[i].ds), inScope(keys[j].ds)))
		}
	}
	knownClass := h.And(qpred == 0, h.Or(multi...))

	from := &RelatedFrom{RelationIndexFromKey: prefix, Predicate: qpred, Inverse: true, Datasets: scope, At: at}
	got, cont, err := hub.Store.GetRelatedAtTime(from, 0)
	h.Assert(err == nil, "unlimited query succeeds")
	// the incoming scan may hand out a continuation although everything was returned; following
	// it must add nothing (an extra empty page is not a violation of the property)
	for page := 0; cont != nil && page < 4; page++ {
		more, next, err := hub.Store.GetRelatedAtTime(cont, 0)
		h.Assert(err == nil, "continuation of the unlimited query readable")
		got = append(got, more...)
		cont = next
	}
	h.Assert(cont == nil, "the unlimited query terminates")

	check := func(results []qresult, what string) {
		for p := uint64(1); p <= uint64(maxPred); p++ {
			for r := uint64(5); r <= 6; r++ {
				var lives []bool
				for _, ds := range []uint32{dsA.InternalID, dsB.InternalID} {
					if !inScope(ds) {
						continue
					}
					for i := range keys {
						ki := keys[i]
						mi := h.And(ki.pred == p, ki.other == r, ki.ds == ds, int64(ki.time) <= at, !ki.del)
						var newer []bool
						for j := range keys {
							if j == i {
								continue
							}
							kj := keys[j]
							newer = append(newer, h.And(kj.pred == p, kj.other == r, kj.ds == ds, int64(kj.time) <= at,
								h.Or(kj.time > ki.time, h.And(kj.time == ki.time, kj.del, !ki.del))))
						}
						lives = append(lives, h.And(mi, h.Not(h.Or(newer...))))
					}
				}
				want := h.And(h.Or(lives...), h.Or(qpred == 0, qpred == p))
				var hits []bool
				for _, q := range results {
					hits = append(hits, h.And(q.PredicateID == p, q.EntityID == r))
				}
				h.Known("C03-incoming-tombstone", knownClass)
				h.Assert(h.Iff(h.Or(hits...), want), what+": (predicate, referencing entity) is returned iff its newest in-scope key is live")
				for a := 0; a < len(hits); a++ {
					for b := a + 1; b < len(hits); b++ {
						h.Known("C03-incoming-tombstone", knownClass)
						h.Assert(h.Not(h.And(hits[a], hits[b])), what+": nothing is returned twice")
					}
				}
			}
		}
		for _, q := range results {
			h.Assert(h.And(q.EntityID != 9), what+": keys of other target entities are never returned")
		}
	}
	check(got, "single call")
	limit := 1 + h.Choice("limit", 2)
	var all []qresult
	cur := &RelatedFrom{RelationIndexFromKey: prefix, Predicate: qpred, Inverse: true, Datasets: scope, At: at}
	for page := 0; cur != nil && page < 8; page++ {
		res, next, err := hub.Store.GetRelatedAtTime(cur, limit)
		h.Assert(err == nil, "page readable")
		all = append(all, res...)
		cur = next
	}
	h.Assert(cur == nil, "paging terminates")
	check(all, "paged")
	h.Observe("n", len(got))
}
