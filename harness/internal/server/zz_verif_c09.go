//go:build verif

package server

import (
	"context"
	"time"

	"github.com/mimiro-io/datahub/internal/verifh"
)

// vHTTPEntities transcribes what web.datasetHandler.processEntities does with
// the dataset for one POST /datasets/{ds}/entities request (the echo and JSON
// stream handling around it is outside this harness): start → lease; else
// refresh when a sync is running; store; end → release + complete.
// It returns false when the request is rejected.
func vHTTPEntities(ds *Dataset, start bool, id string, end bool, ents []*Entity) bool {
	return vHTTPEntitiesCtx(context.Background(), ds, start, id, end, ents)
}

func vHTTPEntitiesCtx(ctx context.Context, ds *Dataset, start bool, id string, end bool, ents []*Entity) bool {
	if start {
		if err := ds.StartFullSyncWithLease(id); err != nil {
			return false
		}
	} else if ds.FullSyncStarted() {
		if err := ds.RefreshFullSyncLease(id); err != nil {
			return false
		}
	}
	if len(ents) > 0 {
		if err := ds.StoreEntities(ents); err != nil {
			return false
		}
	}
	if end {
		if err := ds.ReleaseFullSyncLease(id); err != nil {
			return false
		}
		if err := ds.CompleteFullSync(ctx); err != nil {
			return false
		}
	}
	return true
}

// mSync is the reference machine transcribed from property C09.
type mSync struct {
	active  int // 0 none, 1 job, 2 http
	id      string
	seen    map[string]bool
	live    map[string]bool
	dels    map[string]int // number of deleted versions written per id
	content map[string]string
}

func (m *mSync) write(id, tag string) {
	m.live[id] = true
	m.content[id] = tag
	if m.active != 0 {
		m.seen[id] = true
	}
}

func (m *mSync) complete() {
	for id, l := range m.live {
		if l && !m.seen[id] {
			m.live[id] = false
			m.dels[id]++
		}
	}
	m.active, m.id, m.seen = 0, "", map[string]bool{}
}

// VerifC09FullSync: for every history of HTTP start/batch/end requests with
// matching, missing and foreign sync ids, job-driven syncs on the same dataset,
// plain writes and lease expiry, deletions happen only when the sync that is
// still the active, unexpired one completes, and then exactly the previously
// live entities not written since its start are marked deleted, once.
func VerifC09FullSync(h *verifh.H) {
	lease := time.Hour
	if !h.Symbolic() {
		lease = 1500 * time.Millisecond
	}
	hub := VerifOpenHub(VerifConfig(h, lease))
	ds, err := hub.Dsm.CreateDataset("d", nil)
	h.Assert(err == nil, "create")
	pool := []string{"ns0:old", "ns0:e1", "ns0:e2"}
	m := &mSync{seen: map[string]bool{}, live: map[string]bool{}, dels: map[string]int{}, content: map[string]string{}}
	mk := func(id, tag string) []*Entity {
		e := NewEntity(id, 0)
		e.Properties["ns0:tag"] = tag
		return []*Entity{e}
	}
	// pre-existing live entities
	h.Assert(ds.StoreEntities(mk("ns0:old", "t0")) == nil, "seed")
	m.write("ns0:old", "t0")
	if h.Choice("seedE1", 2) == 1 {
		h.Assert(ds.StoreEntities(mk("ns0:e1", "t0")) == nil, "seed")
		m.write("ns0:e1", "t0")
	}
	ids := []string{"x", "y"}
	// a job pipeline calls start, then batches, then end, in that order; HTTP
	// requests and expiry may fall anywhere in between
	jobRunning := false
	jobSuperseded := false // an HTTP start arrived while the job's sync was running
	nops := h.Param("ops", 3)
	for k := 0; k < nops; k++ {
		tag := "k" + itoa(k)
		op := h.Choice("op", 8+h.Param("cutOff", 0))
		when := "op" + itoa(k) + "=" + itoa(op)
		switch op {
		case 7: // a write to the dataset through a transaction (POST /transactions), sync running or not
			ent := pool[1+h.Choice("ent", 2)]
			txn := &Transaction{DatasetEntities: map[string][]*Entity{"d": mk(ent, tag)}}
			h.Assert(hub.Store.ExecuteTransaction(txn) == nil, "transaction accepted :: "+when)
			m.write(ent, tag)
		case 0: // HTTP start with a batch
			id := ids[h.Choice("sid", 2)]
			if h.Param("symIds", 0) == 1 {
				// the sync id is any two bytes over {x,y,X}: whether two ids are the same id is the
				// solver's decision, so an id that only resembles the active one (other case, common
				// prefix) is a foreign id
				id = h.StrOver("sidv", 2, "xyX")
			}
			ent := pool[1+h.Choice("ent", 2)]
			ok := vHTTPEntities(ds, true, id, false, mk(ent, tag))
			h.Assert(ok, "a start request is accepted :: "+when)
			m.active, m.id, m.seen = 2, id, map[string]bool{}
			m.write(ent, tag)
			if jobRunning {
				jobSuperseded = true
			}
		case 1, 2: // HTTP batch (1) or HTTP end (2)
			reqID := []string{"", "x", "y"}[h.Choice("rid", 3)]
			if h.Param("symIds", 0) == 1 && reqID != "" {
				reqID = h.StrOver("ridv", 2, "xyX")
			}
			ent := pool[1+h.Choice("ent", 2)]
			end := op == 2
			ok := vHTTPEntities(ds, false, reqID, end, mk(ent, tag))
			accept := m.active == 0 || (m.active == 1 && reqID == "") || (m.active == 2 && reqID == m.id)
			if accept {
				m.write(ent, tag)
				if end && m.active == 2 && reqID == m.id {
					m.complete()
				}
			} else {
				h.Assert(!ok, "a batch carrying a foreign or missing sync id is rejected :: "+when)
			}
		case 8: // HTTP end request of the running sync whose client goes away while the hub completes it
			// (the request context is cancelled): the completion fails, nothing is deleted, and the sync is
			// over — abandoned — so nothing is deleted later either
			if m.active != 2 {
				h.Assume(false)
			}
			ent := pool[1+h.Choice("ent", 2)]
			cctx, cancel := context.WithCancel(context.Background())
			cancel()
			ok := vHTTPEntitiesCtx(cctx, ds, false, m.id, true, mk(ent, tag))
			h.Assert(!ok, "an end request whose completion was cut off is not answered as completed :: "+when)
			m.write(ent, tag)
			m.active, m.id, m.seen = 0, "", map[string]bool{}
		case 3: // job-driven full sync starts
			if jobRunning {
				h.Assume(false) // one run per job id at a time (C11)
			}
			h.Assert(ds.StartFullSync() == nil, "job start")
			m.active, m.id, m.seen = 1, "", map[string]bool{}
			jobRunning, jobSuperseded = true, false
		case 4: // job batch (datasetSink.processEntities stores directly)
			if !jobRunning {
				h.Assume(false)
			}
			ent := pool[1+h.Choice("ent", 2)]
			h.Assert(ds.StoreEntities(mk(ent, tag)) == nil, "job batch stored")
			m.write(ent, tag)
		case 5: // job-driven full sync ends
			if !jobRunning {
				h.Assume(false)
			}
			_ = ds.CompleteFullSync(context.Background())
			if m.active == 1 {
				m.complete()
			}
			jobRunning = false
		case 6: // a pending lease expires
			if h.FireTimer("expire", 2500*time.Millisecond) {
				if m.active == 2 {
					m.active, m.id, m.seen = 0, "", map[string]bool{}
				}
			} else {
				h.Assume(false) // nothing to expire: not a distinct history
			}
		}
		// observe: liveness, number of deleted versions, content of every pool entity
		ch, err := ds.GetChanges(0, 0, false)
		h.Assert(err == nil, "feed")
		got, want := "", ""
		for _, id := range pool {
			live, dels, tagv := false, 0, ""
			for _, e := range ch.Entities {
				if e.ID != id {
					continue
				}
				live = !e.IsDeleted
				if e.IsDeleted {
					dels++
				}
				if t, ok := e.Properties["ns0:tag"].(string); ok {
					tagv = t
				}
			}
			got += id + ":live=" + vB(live) + ",dels=" + itoa(dels) + ",tag=" + tagv + " "
			want += id + ":live=" + vB(m.live[id]) + ",dels=" + itoa(m.dels[id]) + ",tag=" + m.content[id] + " "
		}
		// known finding C09-superseded-job-completes (known_findings.json): when an HTTP
		// start supersedes a running job-driven sync, the job's end still runs
		// CompleteFullSync, which completes the HTTP sync in its place.
		h.Known("C09-superseded-job-completes", op == 5 && jobSuperseded)
		h.Assert(got == want, "deletions happen exactly when the active, unexpired sync completes :: "+when+" got="+got+" want="+want)
		if got != want {
			return
		}
	}
	h.Observe("active", m.active)
}
