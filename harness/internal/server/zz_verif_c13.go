//go:build verif

package server

import (
	"github.com/mimiro-io/datahub/internal/verifh"
)

// VerifC13RoundTrip: compacting an http(s) URI to a CURIE and expanding it
// again returns the original URI, for every URI shape in the box (hash and
// slash namespaces, empty local part, colons in the local part).
func VerifC13RoundTrip(h *verifh.H) {
	hub := VerifNewHub(h)
	scheme := []string{"http://", "https://"}[h.Choice("scheme", 2)]
	n := h.Choice("len", h.Param("maxLen", 5)+1)
	uri := scheme + h.StrOver("u", n, "/#:ab")
	curie, err := hub.Store.GetNamespacedIdentifier(uri, nil)
	h.Assert(err == nil && curie != "", "an http(s) URI is compacted")
	back, err := hub.Store.ExpandCurie(curie)
	h.Assert(err == nil, "the CURIE expands")
	h.Assert(h.StrEq(back, uri), "expanding the CURIE of a URI returns the URI")
	// the same through the helper used for lookups
	curie2, err := hub.Store.GetNamespacedIdentifierFromURI(uri)
	h.Assert(err == nil && h.StrEq(curie2, curie), "both compaction entry points agree")
	h.Observe("curie", curie)
}

// VerifC13Namespaces: every expansion maps to exactly one prefix and every
// prefix to one expansion, a mapping handed out never changes, also across a
// restart, for every order of first use in the box.
func VerifC13Namespaces(h *verifh.H) {
	hub := VerifNewHub(h)
	pool := []string{"http://a/", "http://a/b#", "http://b/", "https://a/"}
	n := h.Param("asserts", 3)
	handed := map[string]string{} // expansion -> prefix as first handed out
	restartAt := h.Choice("restartAt", n+1)
	for k := 0; k < n; k++ {
		if k == restartAt {
			hub = hub.Restart()
		}
		exp := pool[h.Choice("exp", len(pool))]
		var prefix string
		var err error
		if h.Choice("via", 2) == 0 {
			prefix, err = hub.Store.NamespaceManager.AssertPrefixMappingForExpansion(exp)
		} else {
			var curie string
			curie, err = hub.Store.GetNamespacedIdentifier(exp+"x", nil)
			if err == nil {
				prefix = curie[:len(curie)-2]
			}
		}
		h.Assert(err == nil && prefix != "", "prefix handed out")
		if old, ok := handed[exp]; ok {
			h.Assert(old == prefix, "an expansion keeps the prefix it was given :: exp="+exp+" first="+old+" now="+prefix)
		} else {
			handed[exp] = prefix
		}
		// one-to-one at every point
		seen := map[string]string{}
		for e, p := range handed {
			if other, dup := seen[p]; dup {
				h.Fail("two expansions share a prefix :: " + other + " and " + e + " -> " + p)
			}
			seen[p] = e
			back, err := hub.Store.ExpandCurie(p + ":x")
			h.Assert(err == nil && back == e+"x", "a prefix handed out keeps expanding to its expansion :: prefix="+p+" exp="+e+" got="+back)
			q, err := hub.Store.NamespaceManager.GetPrefixMappingForExpansion(e)
			h.Assert(err == nil && q == p, "lookup by expansion returns the prefix handed out")
		}
	}
	hub = hub.Restart()
	for e, p := range handed {
		back, err := hub.Store.ExpandCurie(p + ":x")
		h.Assert(err == nil && back == e+"x", "mappings survive a restart :: prefix="+p+" exp="+e+" got="+back)
	}
	ctx := hub.Store.GetGlobalContext(false)
	cnt := map[string]int{}
	for _, e := range ctx.Namespaces {
		cnt[e]++
	}
	for e, c := range cnt {
		h.Assert(c == 1, "the context lists every expansion under one prefix :: exp="+e)
	}
	h.Observe("n", len(handed))
}
