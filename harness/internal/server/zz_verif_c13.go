//go:build verif

package server

import (
	"encoding/binary"
	"os"
	"strings"
	"time"

	"github.com/dgraph-io/badger/v4"

	"github.com/mimiro-io/datahub/internal/verifh"
)

// VerifC13RoundTrip: compacting an http(s) URI to a CURIE and expanding it
// again returns the original URI, for every URI shape in the box (hash and
// slash namespaces, empty local part, colons in the local part).
func VerifC13RoundTrip(h *verifh.H) {
	hub := VerifNewHub(h)
	scheme := []string{"http://", "https://"}[h.Choice("scheme", 2)]
	n := h.Choice("len", h.Param("maxLen", 5)+1)
	uri := scheme + h.StrOver("u", n, "/#:ab")
	curie, err := hub.Store.GetNamespacedIdentifier(uri, nil)
	h.Assert(err == nil && curie != "", "an http(s) URI is compacted")
	back, err := hub.Store.ExpandCurie(curie)
	h.Assert(err == nil, "the CURIE expands")
	h.Assert(h.StrEq(back, uri), "expanding the CURIE of a URI returns the URI")
	// the same through the helper used for lookups
	curie2, err := hub.Store.GetNamespacedIdentifierFromURI(uri)
	h.Assert(err == nil && h.StrEq(curie2, curie), "both compaction entry points agree")
	h.Observe("curie", curie)
}

// VerifC13Namespaces: every expansion maps to exactly one prefix and every
// prefix to one expansion, a mapping handed out never changes, also across a
// restart, for every order of first use in the box.
func VerifC13Namespaces(h *verifh.H) {
	hub := VerifNewHub(h)
	// (the last expansion does not end in / or #: only a client's own context can introduce it, and
	// the strict context handed to remote sinks leaves it out)
	pool := []string{"http://a/", "http://a/b#", "http://b/", "https://a/", "http://a/q?id="}
	n := h.Param("asserts", 3)
	handed := map[string]string{} // expansion -> prefix as first handed out
	restartAt := h.Choice("restartAt", n+1)
	for k := 0; k < n; k++ {
		if k == restartAt {
			hub = hub.Restart()
		}
		exp := pool[h.Choice("exp", len(pool))]
		var prefix string
		var err error
		via := h.Choice("via", 3)
		if exp == pool[4] && via != 0 {
			// a URI is split at its last / or #: this expansion can only be declared, not derived
			h.Assume(false)
		}
		switch {
		case via == 0:
			prefix, err = hub.Store.NamespaceManager.AssertPrefixMappingForExpansion(exp)
		case via == 2:
			// the first mention is a READ by full URI (entity lookup, query start point): the
			// prefix it makes the hub hand out is as permanent as any other
			_, err = hub.Store.GetEntity(exp+"x", nil, true)
			if err == nil {
				var curie string
				curie, err = hub.Store.GetNamespacedIdentifierFromURI(exp + "x")
				if err == nil {
					prefix = curie[:len(curie)-2]
				}
			}
		default:
			var curie string
			curie, err = hub.Store.GetNamespacedIdentifier(exp+"x", nil)
			if err == nil {
				prefix = curie[:len(curie)-2]
			}
		}
		h.Assert(err == nil && prefix != "", "prefix handed out")
		if old, ok := handed[exp]; ok {
			h.Assert(old == prefix, "an expansion keeps the prefix it was given :: exp="+exp+" first="+old+" now="+prefix)
		} else {
			handed[exp] = prefix
		}
		// the contexts the hub hands out (the full one and the strict one for remote sinks) are views:
		// asking for them changes nothing
		_ = hub.Store.GetGlobalContext(false)
		strict := hub.Store.GetGlobalContext(true)
		for p, e := range strict.Namespaces {
			h.Assert(strings.HasSuffix(e, "/") || strings.HasSuffix(e, "#"), "the strict context lists only expansions ending in / or # :: "+p+"="+e)
		}
		// one-to-one at every point
		seen := map[string]string{}
		for e, p := range handed {
			if other, dup := seen[p]; dup {
				h.Fail("two expansions share a prefix :: " + other + " and " + e + " -> " + p)
			}
			seen[p] = e
			back, err := hub.Store.ExpandCurie(p + ":x")
			h.Assert(err == nil && back == e+"x", "a prefix handed out keeps expanding to its expansion :: prefix="+p+" exp="+e+" got="+back)
			q, err := hub.Store.NamespaceManager.GetPrefixMappingForExpansion(e)
			h.Assert(err == nil && q == p, "lookup by expansion returns the prefix handed out")
		}
	}
	hub = hub.Restart()
	for e, p := range handed {
		back, err := hub.Store.ExpandCurie(p + ":x")
		h.Assert(err == nil && back == e+"x", "mappings survive a restart :: prefix="+p+" exp="+e+" got="+back)
	}
	ctx := hub.Store.GetGlobalContext(false)
	cnt := map[string]int{}
	for _, e := range ctx.Namespaces {
		cnt[e]++
	}
	for e, c := range cnt {
		h.Assert(c == 1, "the context lists every expansion under one prefix :: exp="+e)
	}
	h.Observe("n", len(handed))
}

// VerifC13Race: two clients concurrently make the first use of namespaces
// (the same one or different ones, through either entry point) under a
// symbolic scheduler that may preempt before every lock acquisition: both
// complete, each expansion ends up with exactly one prefix and each prefix
// with one expansion, both clients got the same prefix for the same
// expansion, the prefixes keep expanding to what they were handed out for,
// and all of that is what a restart reloads.
func VerifC13Race(h *verifh.H) {
	hub := VerifNewHub(h)
	pool := []string{"http://a/", "http://b/"}
	e1 := pool[h.Choice("exp1", 2)]
	e2 := pool[h.Choice("exp2", 2)]
	via1 := h.Choice("via1", 2)
	via2 := h.Choice("via2", 2)
	use := func(exp string, via int) (string, error) {
		if via == 0 {
			return hub.Store.NamespaceManager.AssertPrefixMappingForExpansion(exp)
		}
		curie, err := hub.Store.GetNamespacedIdentifier(exp+"x", nil)
		if err != nil || len(curie) < 2 {
			return "", err
		}
		return curie[:len(curie)-2], nil
	}
	var p1, p2 string
	var err1, err2 error
	h.SymbolicLocks()
	h.SymbolicTxns() // also before every Badger transaction /repo code starts (a state write after the lock was released)
	h.SymbolicSched(h.Param("preemptions", 2))
	h.Go(func() { p1, err1 = use(e1, via1) })
	h.Go(func() { p2, err2 = use(e2, via2) })
	h.Assert(h.Wait(), "both clients complete")
	h.Assert(err1 == nil && err2 == nil && p1 != "" && p2 != "", "both clients are handed a prefix")
	if e1 == e2 {
		h.Assert(p1 == p2, "concurrent first use of one namespace hands out one prefix :: exp="+e1+" p1="+p1+" p2="+p2)
	} else {
		h.Assert(p1 != p2, "different namespaces get different prefixes :: p1="+p1+" p2="+p2)
	}
	check := func(when string) {
		for _, c := range []struct{ e, p string }{{e1, p1}, {e2, p2}} {
			back, err := hub.Store.ExpandCurie(c.p + ":x")
			h.Assert(err == nil && back == c.e+"x", "a prefix handed out expands to its namespace :: "+when+" prefix="+c.p+" exp="+c.e+" got="+back)
			q, err := hub.Store.NamespaceManager.GetPrefixMappingForExpansion(c.e)
			h.Assert(err == nil && q == c.p, "lookup by expansion returns the prefix handed out :: "+when+" exp="+c.e+" handed="+c.p+" now="+q)
		}
		cnt := map[string]int{}
		for _, e := range hub.Store.GetGlobalContext(false).Namespaces {
			cnt[e]++
		}
		for e, c := range cnt {
			h.Assert(c == 1, "the context lists every expansion under one prefix :: "+when+" exp="+e)
		}
	}
	check("after the race")
	hub = hub.Restart()
	check("after a restart")
	// (which client gets which prefix depends on the schedule; only schedule-independent
	// values are observed for the concolic validation)
	h.Observe("same", p1 == p2)
}

// VerifC13Crash: mappings that were handed out survive a crash unchanged. The
// process dies at any Badger commit statement (or marked boundary) inside the
// first use of a namespace or inside a batch that introduces a new identifier;
// what the dead process had handed out before is read from a note it left on
// disk. After recovery: the earlier prefix and internal id are what they were,
// a mapping acknowledged before the crash still holds, asking again for an
// unacknowledged namespace gives a prefix that collides with nothing, a new
// namespace and a new identifier get values never handed out before.
func VerifC13Crash(h *verifh.H) {
	env := VerifConfig(h, time.Hour)
	note := h.TempDir() + "/handed.txt"
	op := h.Choice("op", 2)
	idOf := func(hub *VHub, curie string) (uint64, bool) {
		rtxn := hub.Store.database.NewTransaction(false)
		defer rtxn.Discard()
		rid, ok, err := hub.Store.getIDForURI(rtxn, curie)
		return rid, ok && err == nil
	}
	if h.BeforeCrash() {
		hub := VerifOpenHub(env)
		ds, err := hub.Dsm.CreateDataset("d", nil)
		h.Assert(err == nil, "create")
		pA, err := hub.Store.NamespaceManager.AssertPrefixMappingForExpansion("http://a/")
		h.Assert(err == nil, "first namespace")
		e1 := NewEntity(pA+":e1", 0)
		e1.Properties[pA+":v"] = "x"
		h.Assert(ds.StoreEntities([]*Entity{e1}) == nil, "first entity")
		i1, ok := idOf(hub, pA+":e1")
		h.Assert(ok, "first entity has an internal id")
		text := "A=" + pA + ";e1=" + itoa(int(i1))
		h.Assert(os.WriteFile(note, []byte(text), 0o644) == nil, "note")
		if h.Param("commitPoints", 1) == 1 {
			h.CrashAtCommits()
		}
		h.CrashWindowStart()
		if op == 0 {
			pB, err := hub.Store.NamespaceManager.AssertPrefixMappingForExpansion("http://b/")
			h.Assert(err == nil, "second namespace")
			text += ";B=" + pB
		} else {
			e2 := NewEntity(pA+":e2", 0)
			e2.References[pA+":r"] = pA + ":e9" // the reference target gets an internal id as well
			h.Assert(ds.StoreEntities([]*Entity{e2}) == nil, "second entity")
			i2, ok := idOf(hub, pA+":e2")
			h.Assert(ok, "second entity has an internal id")
			text += ";e2=" + itoa(int(i2))
		}
		h.Assert(os.WriteFile(note, []byte(text), 0o644) == nil, "note")
	}
	h.CrashAndRecover()

	hub := VerifOpenHub(env)
	raw, err := os.ReadFile(note)
	h.Assert(err == nil, "note readable")
	handed := map[string]string{}
	for _, kv := range strings.Split(string(raw), ";") {
		if k := strings.Index(kv, "="); k > 0 {
			handed[kv[:k]] = kv[k+1:]
		}
	}
	pA := handed["A"]
	nm := hub.Store.NamespaceManager
	q, err := nm.GetPrefixMappingForExpansion("http://a/")
	h.Assert(err == nil && q == pA, "the prefix handed out before the crash is unchanged :: handed="+pA+" now="+q)
	back, err := hub.Store.ExpandCurie(pA + ":x")
	h.Assert(err == nil && back == "http://a/x", "the prefix still expands to its namespace :: got="+back)
	i1, ok := idOf(hub, pA+":e1")
	h.Assert(ok && itoa(int(i1)) == handed["e1"], "the internal id handed out before the crash is unchanged :: handed="+handed["e1"]+" now="+itoa(int(i1)))
	if h.Acked() {
		if op == 0 {
			h.Assert(handed["B"] != "", "note complete")
		} else {
			h.Assert(handed["e2"] != "", "note complete")
		}
	}
	if pB := handed["B"]; pB != "" {
		q, err := nm.GetPrefixMappingForExpansion("http://b/")
		h.Assert(err == nil && q == pB, "a prefix acknowledged before the crash is unchanged :: handed="+pB+" now="+q)
	}
	if s2 := handed["e2"]; s2 != "" {
		i2, ok := idOf(hub, pA+":e2")
		h.Assert(ok && itoa(int(i2)) == s2, "an internal id acknowledged before the crash is unchanged :: handed="+s2+" now="+itoa(int(i2)))
	}
	// new mappings after recovery collide with nothing handed out before
	pB2, err := nm.AssertPrefixMappingForExpansion("http://b/")
	h.Assert(err == nil && pB2 != pA, "asking again after the crash gives a prefix of its own :: "+pB2)
	if handed["B"] != "" {
		h.Assert(pB2 == handed["B"], "and the same one if it was handed out :: handed="+handed["B"]+" now="+pB2)
	}
	pC, err := nm.AssertPrefixMappingForExpansion("http://c/")
	h.Assert(err == nil && pC != pA && pC != pB2, "a new namespace gets a prefix never handed out :: "+pC)
	for _, p := range []string{pA, pB2, pC} {
		cnt := 0
		for q := range hub.Store.GetGlobalContext(false).Namespaces {
			if q == p {
				cnt++
			}
		}
		h.Assert(cnt == 1, "every prefix is in the context exactly once :: "+p)
	}
	e3 := NewEntity(pA+":e3", 0)
	h.Assert(hub.Dsm.GetDataset("d").StoreEntities([]*Entity{e3}) == nil, "write after recovery")
	i3, ok := idOf(hub, pA+":e3")
	h.Assert(ok && itoa(int(i3)) != handed["e1"] && (handed["e2"] == "" || itoa(int(i3)) != handed["e2"]), "a new identifier gets an internal id never handed out :: "+itoa(int(i3)))
	if i2, ok := idOf(hub, pA+":e2"); ok {
		h.Assert(i2 != i3 && i2 != i1, "identifiers have distinct internal ids")
	}
	h.Observe("acked", h.Acked())
}

// vIDTables reads the two identifier tables (uri -> id, id -> uri) straight
// from the store.
func vIDTables(h *verifh.H, hub *VHub) (map[string]uint64, map[uint64]string) {
	u2i := map[string]uint64{}
	i2u := map[uint64]string{}
	err := hub.Store.database.View(func(txn *badger.Txn) error {
		for _, idx := range []uint16{URIToIDIndexID, IDToURIIndexID} {
			opts := badger.DefaultIteratorOptions
			prefix := []byte{byte(idx >> 8), byte(idx)}
			it := txn.NewIterator(opts)
			for it.Seek(prefix); it.ValidForPrefix(prefix); it.Next() {
				k := it.Item().KeyCopy(nil)
				v, _ := it.Item().ValueCopy(nil)
				if idx == URIToIDIndexID {
					if len(v) == 8 {
						u2i[string(k[2:])] = binary.BigEndian.Uint64(v)
					}
				} else if len(k) == 10 {
					i2u[binary.BigEndian.Uint64(k[2:])] = string(v)
				}
			}
			it.Close()
		}
		return nil
	})
	h.Assert(err == nil, "identifier tables readable")
	return u2i, i2u
}

// VerifC13Ids: every identifier string has exactly one internal id and every
// internal id one identifier, whatever introduces the identifiers: a history
// of batches and multi-dataset transactions in which a new entity id, a new
// predicate or a new reference target may be named in two datasets of one
// transaction, several times in one batch, or again after a restart. After
// every step the two identifier tables are inverse to each other, no id was
// given to two identifiers, an id handed out before is unchanged, and the
// entity written under an identifier is found under it in every dataset it was
// written to.
func VerifC13Ids(h *verifh.H) {
	hub := VerifNewHub(h)
	_, err := hub.Dsm.CreateDataset("d1", nil)
	h.Assert(err == nil, "create")
	_, err = hub.Dsm.CreateDataset("d2", nil)
	h.Assert(err == nil, "create")
	ids := []string{"ns0:n1", "ns0:n2"}
	preds := []string{"ns0:q1", "ns0:q2"}
	targets := []string{"ns0:t1", "ns0:n1"}
	mk := func(tag string) *Entity {
		e := NewEntity(ids[h.Choice(tag+"id", 2)], 0)
		if h.Choice(tag+"ref", 2) == 1 {
			e.References[preds[h.Choice(tag+"pred", 2)]] = targets[h.Choice(tag+"tgt", 2)]
		}
		return e
	}
	seen := map[string]uint64{}
	wrote := map[string]map[string]bool{"d1": {}, "d2": {}}
	steps := h.Param("steps", 2)
	// a fixed first write, so that also one-step histories meet identifiers that exist already
	pre := NewEntity("ns0:n1", 0)
	pre.References["ns0:q1"] = "ns0:t1"
	h.Assert(hub.Dsm.GetDataset("d1").StoreEntities([]*Entity{pre}) == nil, "first write")
	wrote["d1"]["ns0:n1"] = true
	for s := 0; s <= steps; s++ {
		op := 2 // the history ends with a restart
		if s < steps {
			op = h.Choice("op", 3)
		}
		switch op {
		case 0: // a batch of two entities to one dataset
			dn := []string{"d1", "d2"}[h.Choice("ds", 2)]
			a, b := mk("a"), mk("b")
			h.Assert(hub.Dsm.GetDataset(dn).StoreEntities([]*Entity{a, b}) == nil, "batch accepted")
			wrote[dn][a.ID], wrote[dn][b.ID] = true, true
		case 1: // one transaction writing one entity to each dataset
			a, b := mk("a"), mk("b")
			txn := &Transaction{DatasetEntities: map[string][]*Entity{"d1": {a}, "d2": {b}}}
			h.Assert(hub.Store.ExecuteTransaction(txn) == nil, "transaction accepted")
			wrote["d1"][a.ID], wrote["d2"][b.ID] = true, true
		case 2: // restart
			hub = hub.Restart()
		}
		u2i, i2u := vIDTables(h, hub)
		used := map[uint64]string{}
		for u, id := range u2i {
			other, dup := used[id]
			h.Assert(!dup, "no internal id is given to two identifiers :: id="+itoa(int(id))+" "+u+" and "+other)
			used[id] = u
			h.Assert(i2u[id] == u, "the id -> identifier table is the inverse of the identifier -> id table :: "+u+" -> "+itoa(int(id))+" -> "+i2u[id])
			if old, ok := seen[u]; ok {
				h.Assert(old == id, "an internal id never changes once handed out :: "+u+" was "+itoa(int(old))+" is "+itoa(int(id)))
			}
			seen[u] = id
		}
		for id, u := range i2u {
			h.Assert(u2i[u] == id, "every internal id belongs to the identifier that maps to it :: id="+itoa(int(id))+" names "+u+" which maps to "+itoa(int(u2i[u])))
		}
		// an entity written under an identifier is found under it in every dataset it went to
		for _, dn := range []string{"d1", "d2"} {
			for u := range wrote[dn] {
				e, err := hub.Store.GetEntity(u, []string{dn}, true)
				h.Assert(err == nil && e != nil && e.ID == u && e.Recorded != 0, "an entity written under an identifier is found under it :: ds="+dn+" id="+u)
			}
		}
	}
	h.Observe("ids", len(seen))
}

// VerifC13IdsRace: two clients write batches to DIFFERENT datasets at the same
// time and both introduce identifiers that are new to the store — the same new
// entity id, possibly the same new predicate and reference target — under a
// symbolic schedule that may preempt before every lock acquisition (the id
// mutex included) and every Badger access. After both were acknowledged: the
// identifier tables are inverse to each other, no id belongs to two
// identifiers, each entity is found under its identifier in the dataset it was
// written to, and the unscoped lookup merges both versions.
func VerifC13IdsRace(h *verifh.H) {
	hub := VerifNewHub(h)
	d1, err := hub.Dsm.CreateDataset("d1", nil)
	h.Assert(err == nil, "create")
	d2, err := hub.Dsm.CreateDataset("d2", nil)
	h.Assert(err == nil, "create")
	mk := func(tag string) []*Entity {
		v := NewEntity("ns0:v", 0)
		v.Properties["ns0:from"] = tag
		if h.Param("three", 0) == 1 {
			return []*Entity{v} // three writers: the schedule is the only thing drawn
		}
		if h.Choice(tag+"ref", 2) == 1 {
			v.References["ns0:q"] = "ns0:t"
		}
		out := []*Entity{v}
		if h.Choice(tag+"two", 2) == 1 {
			w := NewEntity("ns0:w"+tag, 0)
			w.Properties["ns0:from"] = tag
			out = append(out, w)
		}
		return out
	}
	b1, b2 := mk("a"), mk("b")
	var e1, e2, e3 error
	// optionally a third client writes the shared identifier to a third dataset
	var d3 *Dataset
	var b3 []*Entity
	if h.Param("three", 0) == 1 {
		d3, err = hub.Dsm.CreateDataset("d3", nil)
		h.Assert(err == nil, "create")
		v := NewEntity("ns0:v", 0)
		v.Properties["ns0:from"] = "c"
		b3 = []*Entity{v}
	}
	h.SymbolicLocks()
	h.SymbolicTxns()
	h.SymbolicSched(h.Param("preemptions", 2))
	h.Go(func() { e1 = d1.StoreEntities(b1) })
	h.Go(func() { e2 = d2.StoreEntities(b2) })
	if d3 != nil {
		h.Go(func() { e3 = d3.StoreEntities(b3) })
	}
	h.Assert(h.Wait(), "the writers complete")
	h.Assert(e1 == nil && e2 == nil && e3 == nil, "the batches are acknowledged")
	u2i, i2u := vIDTables(h, hub)
	used := map[uint64]string{}
	for u, id := range u2i {
		other, dup := used[id]
		h.Assert(!dup, "no internal id is given to two identifiers :: id="+itoa(int(id))+" "+u+" and "+other)
		used[id] = u
		h.Assert(i2u[id] == u, "the id -> identifier table is the inverse of the identifier -> id table :: "+u+" -> "+itoa(int(id))+" -> "+i2u[id])
	}
	for id, u := range i2u {
		h.Assert(u2i[u] == id, "every internal id belongs to the identifier that maps to it :: id="+itoa(int(id))+" names "+u+" which maps to "+itoa(int(u2i[u])))
	}
	for dn, batch := range map[string][]*Entity{"d1": b1, "d2": b2, "d3": b3} {
		for _, e := range batch {
			got, err := hub.Store.GetEntity(e.ID, []string{dn}, true)
			h.Assert(err == nil && got != nil && got.Recorded != 0 && len(got.Properties) == 1, "an acknowledged entity is found under its identifier in its dataset :: ds="+dn+" id="+e.ID)
		}
	}
	m, err := hub.Store.GetEntity("ns0:v", nil, true)
	h.Assert(err == nil && m != nil, "unscoped lookup")
	if m != nil {
		fl, isList := m.Properties["ns0:from"].([]interface{})
		wantN := 2
		if d3 != nil {
			wantN = 3
		}
		h.Assert(isList && len(fl) == wantN, "the unscoped lookup merges the versions of all datasets :: from="+vRenderVal(m.Properties["ns0:from"]))
	}
	h.Observe("ids", len(u2i))
}
