//go:build verif

package server

import (
	"os"
	"time"

	"github.com/mimiro-io/datahub/internal/conf"
	"github.com/mimiro-io/datahub/internal/verifh"
)

func vNewBackupManager(h *verifh.H, hub *VHub, location string) *BackupManager {
	// what NewBackupManager does, minus cron registration
	bm := &BackupManager{backupLocation: location, backupSourceLocation: hub.Env.StoreLocation, store: hub.Store, logger: hub.Env.Logger}
	last, err := bm.LoadLastID()
	h.Assert(err == nil, "cursor readable")
	bm.lastID = last
	return bm
}

// vRun runs the manager the way the cron wrapper does (panics are recovered there).
func vRun(bm *BackupManager) (panicked bool) {
	defer func() {
		if recover() != nil {
			panicked = true
			bm.isRunning = false
		}
	}()
	bm.Run()
	return false
}

// VerifC20Backup: after any history of writes, native backup runs and backup
// manager restarts, restoring the backup location into an empty store gives a
// hub whose read APIs answer as the source did when the last completed backup
// run started.
func VerifC20Backup(h *verifh.H) {
	env := VerifConfig(h, time.Hour)
	location := h.TempDir() + "/backup"
	hub := VerifOpenHub(env)
	ds, err := hub.Dsm.CreateDataset("d", nil)
	h.Assert(err == nil, "create")
	if h.Param("delJob", 0) == 1 {
		for _, n := range []string{"x", "y"} {
			xd, err := hub.Dsm.CreateDataset(n, nil)
			h.Assert(err == nil, "create")
			h.Assert(xd.StoreEntities([]*Entity{NewEntity("ns0:"+n+"1", 0)}) == nil, "write")
		}
	}
	bm := vNewBackupManager(h, hub, location)
	nops := h.Param("ops", 3)
	ids := []string{"ns0:e1", "ns0:e2"}
	targets := []string{"ns0:e2", "ns0:e3"}
	runs := 0
	wiped := false
	for k := 0; k < nops; k++ {
		op := h.Choice("op", h.Param("opKinds", 3))
		if h.Param("wipeJob", 0) == 1 {
			h.Assume(op == 0 || op == 1 || op == 5) // write, backup run, wipe
		}
		if h.Param("faultJob", 0) == 1 {
			h.Assume(op == 0 || op == 1 || op == 2 || op == 6) // write, backup run, restart, faulty backup run
		}
		if h.Param("delJob", 0) == 1 {
			h.Assume(op == 0 || op == 1 || op == 2 || op == 7 || op == 8) // write, backup run, restart, dataset deleted, dataset renamed
		}
		if k == nops-1 {
			op = 1 // histories end with a backup run (the interesting observation point)
		}
		switch op {
		case 0: // write
			v := drawVersion(h, ids, targets, vFamily{P1: 2, P2: false, Vals: 2, Del: false})
			v.Props["ns0:k"] = "k" + itoa(k)
			h.Assert(ds.StoreEntities([]*Entity{mkEntity(v)}) == nil, "write")
		case 5: // the store is wiped (DELETE /datasets): an empty store with a new identity
			h.Assert(hub.Store.Delete() == nil, "wipe accepted")
			// (core.Dataset only comes back when a new dataset manager is built, i.e. with the
			// restart that follows a wipe in practice)
			hub = hub.Restart()
			bm = vNewBackupManager(h, hub, location)
			ds, err = hub.Dsm.CreateDataset("d", nil)
			h.Assert(err == nil, "create after wipe")
			// only a location that already holds a backup of the old store belongs to it
			wiped = runs > 0
		case 1: // backup run, then restore and compare
			if wiped {
				// the backup location belongs to the store as it was before the wipe: a run must
				// refuse it and leave the backup file as it is
				before, _ := os.ReadFile(location + "/datahub-backup.kv")
				refused := vRun(bm)
				after, _ := os.ReadFile(location + "/datahub-backup.kv")
				h.Assert(refused, "after a wipe a backup run against the old store's backup location is refused")
				h.Assert(len(before) == len(after), "after a wipe the old store's backup is not written to :: before="+itoa(len(before))+" after="+itoa(len(after)))
				runs++
				break
			}
			atStart := vObsBackup(h, hub)
			h.Assert(!vRun(bm), "backup run completes")
			runs++
			rdir := h.TempDir() + "/restore" + itoa(k)
			h.RestoreBackup(location+"/datahub-backup.kv", rdir)
			renv := &conf.Config{Logger: env.Logger, StoreLocation: rdir, FullsyncLeaseTimeout: time.Hour, RunnerConfig: env.RunnerConfig}
			rhub := VerifOpenHub(renv)
			got := vObsBackup(h, rhub)
			h.Assert(got == atStart, "the restored backup answers as the source did when the run started :: run="+itoa(runs)+" restored="+got+" source="+atStart)
			_ = rhub.Store.Close()
		case 6: // a backup run during which the backup file cannot be written (its volume is full); the
			// fault is gone afterwards. The run may fail; nothing it did not write may count as backed up.
			if wiped {
				h.Assume(false)
			}
			kv := location + "/datahub-backup.kv"
			if h.Symbolic() {
				h.FailWrites("/datahub-backup.kv")
			} else {
				h.FailWrites(kv)
			}
			_ = vRun(bm)
			h.FailWrites("")
		case 3: // first use of a new namespace (one commit carrying lasting information)
			_, err := hub.Store.NamespaceManager.AssertPrefixMappingForExpansion("http://example.com/n" + itoa(k) + "/")
			h.Assert(err == nil, "namespace asserted")
		case 4: // another dataset is created
			_, err := hub.Dsm.CreateDataset("x"+itoa(k), nil)
			h.Assert(err == nil, "create")
		case 7: // the dataset x (created with the hub) is deleted, or created again
			if hub.Dsm.IsDataset("x") {
				h.Assert(hub.Dsm.DeleteDataset("x") == nil, "dataset deleted")
			} else {
				_, err := hub.Dsm.CreateDataset("x", nil)
				h.Assert(err == nil, "dataset created again")
			}
		case 8: // the dataset y is renamed to y2, or back
			from, to := "y", "y2"
			if !hub.Dsm.IsDataset("y") {
				from, to = "y2", "y"
			}
			_, err := hub.Dsm.UpdateDataset(from, &UpdateDatasetConfig{ID: to})
			h.Assert(err == nil, "dataset renamed")
		case 2: // the hub (and with it the backup manager) restarts, once or twice in a row
			hub = hub.Restart()
			if h.Param("delJob", 0) == 1 && h.Choice("twice", 2) == 1 {
				hub = hub.Restart()
			}
			ds = hub.Dsm.GetDataset("d")
			bm = vNewBackupManager(h, hub, location)
		}
	}
	h.Observe("runs", runs)
}

// vObsBackup: what a restored backup has to answer like the source: dataset d's
// content, the dataset list and the namespace mappings.
func vObsBackup(h *verifh.H, hub *VHub) string {
	out := vObsCore(h, hub, "d")
	var names []string
	for _, n := range hub.Dsm.GetDatasetNames() {
		names = append(names, n.Name)
	}
	out += " datasets=" + vJoin(vSorted(names))
	var ns []string
	for p, e := range hub.Store.GetGlobalContext(false).Namespaces {
		ns = append(ns, p+"="+e)
	}
	return out + " ns=" + vJoin(vSorted(ns))
}

// VerifC20Cursor: the backup cursor written by StoreLastID is read back
// unchanged by LoadLastID, for every 64-bit value.
func VerifC20Cursor(h *verifh.H) {
	env := VerifConfig(h, time.Hour)
	location := h.TempDir() + "/backup"
	h.Assert(os.MkdirAll(location, 0o700) == nil, "mkdir")
	bm := &BackupManager{backupLocation: location, logger: env.Logger}
	x := h.U64("cursor")
	bm.lastID = x
	h.Assert(bm.StoreLastID() == nil, "cursor stored")
	bm2 := &BackupManager{backupLocation: location, logger: env.Logger}
	got, err := bm2.LoadLastID()
	h.Assert(err == nil, "cursor loaded")
	h.Assert(got == x, "LoadLastID(StoreLastID(x)) == x")
	h.Observe("got", got)
}

// VerifC20Foreign: a backup location that belongs to a different store is
// never written.
func VerifC20Foreign(h *verifh.H) {
	env := VerifConfig(h, time.Hour)
	location := h.TempDir() + "/backup"
	hub := VerifOpenHub(env)
	ds, err := hub.Dsm.CreateDataset("d", nil)
	h.Assert(err == nil, "create")
	h.Assert(ds.StoreEntities([]*Entity{NewEntity("ns0:e1", 0)}) == nil, "write")
	h.Assert(os.MkdirAll(location, 0o700) == nil, "mkdir")
	h.Assert(os.WriteFile(location+"/"+StorageIDFileName, []byte("some-other-store"), 0o644) == nil, "foreign id file")
	h.Assert(os.WriteFile(location+"/datahub-backup.kv", []byte("foreign backup"), 0o644) == nil, "foreign backup file")
	if h.Choice("foreignCursor", 2) == 1 {
		// the other store completed native backup runs there: its cursor file exists too
		cur := make([]byte, 8)
		cur[0] = byte(1 + h.Choice("cursor", 3))
		h.Assert(os.WriteFile(location+"/datahub-backup.lastseen", cur, 0o644) == nil, "foreign cursor file")
	}
	bm := vNewBackupManager(h, hub, location)
	_ = vRun(bm)
	b, err := os.ReadFile(location + "/datahub-backup.kv")
	h.Assert(err == nil && string(b) == "foreign backup", "a backup location of a different store is not written")
	b, err = os.ReadFile(location + "/" + StorageIDFileName)
	h.Assert(err == nil && string(b) == "some-other-store", "the foreign store id is kept")
	h.Observe("done", true)
}

// VerifC20DuringRun: a client writes while a backup run is in progress (every
// Badger access of /repo code — transaction starts, the backup stream, the
// version query — and every lock acquisition is a scheduling point). Whatever
// the interleaving, nothing committed is lost to the backups: after one more,
// undisturbed run the restored location answers as the source did when that
// run started. (What the disturbed run itself contains is a snapshot taken
// somewhere inside the concurrent write and is not compared.)
func VerifC20DuringRun(h *verifh.H) {
	env := VerifConfig(h, time.Hour)
	location := h.TempDir() + "/backup"
	hub := VerifOpenHub(env)
	ds, err := hub.Dsm.CreateDataset("d", nil)
	h.Assert(err == nil, "create")
	bm := vNewBackupManager(h, hub, location)
	first := &mVersion{ID: "ns0:e1", Props: map[string]string{"ns0:v": "x"}, Refs: map[string][]string{}}
	h.Assert(ds.StoreEntities([]*Entity{mkEntity(first)}) == nil, "first write")
	if h.Choice("earlierRun", 2) == 1 {
		h.Assert(!vRun(bm), "an earlier backup run completes")
	}
	v := drawVersion(h, []string{"ns0:e1", "ns0:e2"}, []string{"ns0:e2", "ns0:e3"}, vFamily{P1: 2, P2: false, Vals: 2, Del: true})
	v.Props["ns0:k"] = "during"
	var werr error
	var runPanicked bool
	h.SymbolicLocks()
	h.SymbolicTxns()
	h.SymbolicSched(h.Param("preemptions", 1))
	h.Go(func() { runPanicked = vRun(bm) })
	h.Go(func() { werr = ds.StoreEntities([]*Entity{mkEntity(v)}) })
	h.Assert(h.Wait(), "backup run and writer complete")
	h.Assert(werr == nil && !runPanicked, "both succeed")
	// one more, undisturbed run
	atStart := vObsBackup(h, hub)
	h.Assert(!vRun(bm), "backup run completes")
	rdir := h.TempDir() + "/restore"
	h.RestoreBackup(location+"/datahub-backup.kv", rdir)
	renv := &conf.Config{Logger: env.Logger, StoreLocation: rdir, FullsyncLeaseTimeout: time.Hour, RunnerConfig: env.RunnerConfig}
	rhub := VerifOpenHub(renv)
	got := vObsBackup(h, rhub)
	h.Assert(got == atStart, "after a write that raced a backup run, the next run's backup restores to the source's state :: restored="+got+" source="+atStart)
	_ = rhub.Store.Close()
	h.Observe("ok", got == atStart)
}
