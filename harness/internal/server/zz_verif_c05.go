//go:build verif

package server

import (
	"github.com/mimiro-io/datahub/internal/verifh"
)

func vTxn(first, second string, tag string) *Transaction {
	t := &Transaction{DatasetEntities: map[string][]*Entity{}}
	for _, n := range []string{first, second} {
		e := NewEntity("ns0:"+tag+n, 0)
		e.Properties["ns0:v"] = tag
		if n == "core.Dataset" {
			e = NewEntity("ns0:meta-"+tag, 0)
		}
		t.DatasetEntities[n] = []*Entity{e}
	}
	return t
}

// VerifC05Deadlock: two clients concurrently running any two operations of
// {batch to A, batch to B, transaction over {A,B} in either naming order,
// transaction naming core.Dataset, create, rename} always complete: no
// interleaving at the marked boundaries leaves all of them blocked.
func VerifC05Deadlock(h *verifh.H) {
	attempts := 1
	if !h.Symbolic() {
		attempts = 10 // Go's map iteration order is random: give the native replay several tries
	}
	var op1, op2 int
	if h.Param("txnOnly", 0) == 1 {
		// two transactions over the same two datasets, every map iteration order
		op1, op2 = 2, 3
	} else {
		op1 = h.Choice("op1", h.Param("ops", 6))
		op2 = h.Choice("op2", h.Param("ops", 6))
	}
	// dataset B is called "B" (sorts before core.Dataset) or "z" (sorts after it)
	nameB := []string{"B", "z"}[h.Param("lateName", 0)]
	for a := 0; a < attempts; a++ {
		hub := VerifNewHub(h)
		_, err := hub.Dsm.CreateDataset("A", nil)
		h.Assert(err == nil, "create A")
		_, err = hub.Dsm.CreateDataset(nameB, nil)
		h.Assert(err == nil, "create B")
		dsA, dsB := hub.Dsm.GetDataset("A"), hub.Dsm.GetDataset(nameB)
		run := func(op int, tag string) func() {
			return func() {
				switch op {
				case 0:
					_ = dsA.StoreEntities([]*Entity{NewEntity("ns0:"+tag, 0)})
				case 1:
					_ = dsB.StoreEntities([]*Entity{NewEntity("ns0:"+tag, 0)})
				case 2:
					_ = hub.Store.ExecuteTransaction(vTxn("A", nameB, tag))
				case 3:
					_ = hub.Store.ExecuteTransaction(vTxn(nameB, "A", tag))
				case 4:
					_, _ = hub.Dsm.CreateDataset("C"+tag, nil)
				case 5:
					_, _ = hub.Dsm.UpdateDataset("A", &UpdateDatasetConfig{ID: "D" + tag})
				case 6:
					_ = hub.Store.ExecuteTransaction(vTxn("core.Dataset", "A", tag))
				case 7:
					_ = hub.Store.ExecuteTransaction(vTxn("core.Dataset", nameB, tag))
				case 8:
					// the public namespaces of dataset A are changed by writing its meta-entity to
					// core.Dataset (what PATCH-ing the dataset entity through the API does)
					nsi, err := hub.Store.NamespaceManager.GetDatasetNamespaceInfo()
					if err != nil {
						return
					}
					meta, err := hub.Store.GetEntity(nsi.DatasetPrefix+":A", []string{"core.Dataset"}, true)
					if err != nil || meta == nil {
						return
					}
					meta.Properties[nsi.PublicNamespacesKey] = []interface{}{"http://example.com/pub-" + tag + "/"}
					_ = hub.Dsm.GetDataset("core.Dataset").StoreEntities([]*Entity{meta})
				}
			}
		}
		if h.Param("locks", 0) == 1 {
			h.SymbolicLocks() // preempt before every lock acquisition of /repo code, not only the marked ones
		}
		h.SymbolicSched(h.Param("preemptions", 2))
		h.SymbolicMapOrder(h.Param("mapOrders", 0))
		h.Go(run(op1, "x"))
		h.Go(run(op2, "y"))
		ok := h.Wait()
		h.Assert(ok, "both clients complete (no deadlock)")
		if !ok {
			return
		}
		h.Cleanup()
	}
	h.Observe("op1", op1)
}

// VerifC05SelfLock: a single client's transaction that names core.Dataset
// together with a dataset receiving new entities completes.
func VerifC05SelfLock(h *verifh.H) {
	hub := VerifNewHub(h)
	_, err := hub.Dsm.CreateDataset("A", nil)
	h.Assert(err == nil, "create A")
	first := []string{"core.Dataset", "A"}[h.Choice("order", 2)]
	second := "A"
	if first == "A" {
		second = "core.Dataset"
	}
	h.Go(func() { _ = hub.Store.ExecuteTransaction(vTxn(first, second, "x")) })
	h.Assert(h.Wait(), "a transaction naming core.Dataset completes")
}

// VerifC05Atomic: a reader running concurrently with a batch writer sees, in a
// single listing, feed page or lookup, the dataset before the batch or after
// it — never part of it; two concurrent writers to one dataset leave it in a
// state some serial order explains.
func VerifC05Atomic(h *verifh.H) {
	hs := vNewHistory(h, "d")
	pre := mClone(hs.g)
	b1 := []*mVersion{
		{ID: "ns0:e1", Props: map[string]string{"ns0:v": "x"}, Refs: map[string][]string{"ns0:p1": {"ns0:e2"}}},
		{ID: "ns0:e2", Props: map[string]string{"ns0:v": "x"}, Refs: map[string][]string{}},
	}
	b2 := []*mVersion{{ID: "ns0:e1", Props: map[string]string{"ns0:v": "y"}, Refs: map[string][]string{}}}
	ents := func(b []*mVersion) []*Entity {
		var out []*Entity
		for _, v := range b {
			out = append(out, mkEntity(v))
		}
		return out
	}
	post1 := mClone(pre)
	post1.write("d", b1)
	tw := h.Choice("twoWriters", 3) // 0: writer + reader, 1: two writers on one entity, 2: two writers introducing different new ids
	twoWriters := tw != 0
	if tw == 2 {
		b2 = []*mVersion{{ID: "ns0:e3", Props: map[string]string{"ns0:v": "y"}, Refs: map[string][]string{}}}
	}
	ds := hs.dss["d"]
	ds2 := ds
	obsName := "d"
	if twoWriters && h.Choice("renamed", 2) == 1 {
		// the dataset was renamed while the first client held on to its handle (a multi-batch upload,
		// a job's sink): the second client looks it up under the new name — the same dataset, the same
		// lock
		_, err := hs.hub.Dsm.UpdateDataset("d", &UpdateDatasetConfig{ID: "d2"})
		h.Assert(err == nil, "rename accepted")
		ds2 = hs.hub.Dsm.GetDataset("d2")
		h.Assert(ds2 != nil, "dataset found under its new name")
		obsName = "d2"
	}
	var seen []string
	h.SymbolicTxns() // every Badger transaction start of /repo code is a scheduling point too
	h.SymbolicSched(h.Param("preemptions", 2))
	h.Go(func() { _ = ds.StoreEntities(ents(b1)) })
	if twoWriters {
		h.Go(func() { _ = ds2.StoreEntities(ents(b2)) })
	} else {
		h.Go(func() {
			res, err := ds.GetEntities("", -1)
			if err == nil {
				seen = append(seen, "list="+vJoin(vSorted(vRenderList(res.Entities))))
			}
			ch, err := ds.GetChanges(0, 0, false)
			if err == nil {
				seen = append(seen, "feed="+vJoin(vRenderList(ch.Entities)))
			}
		})
	}
	h.Assert(h.Wait(), "clients complete")
	if twoWriters {
		s12 := mClone(pre)
		s12.write("d", b1)
		s12.write("d", b2)
		s21 := mClone(pre)
		s21.write("d", b2)
		s21.write("d", b1)
		got := vObsCore(h, hs.hub, obsName)
		h.Assert(got == mObsCore(s12, "d") || got == mObsCore(s21, "d"), "two concurrent batches leave the dataset as some serial order would :: got="+got)
		// ... including its catalogue entry: both batches were acknowledged, the items counter
		// counts every distinct id they stored
		wantItems := "2"
		if tw == 2 {
			wantItems = "3"
		}
		h.Assert(vItems(h, hs.hub, obsName) == wantItems, "after two acknowledged concurrent batches the dataset's items counter counts every distinct id stored :: items="+vItems(h, hs.hub, obsName)+" want="+wantItems)
	} else {
		preList := "list=" + vJoin(vSorted(mListRender(pre, "d")))
		postList := "list=" + vJoin(vSorted(mListRender(post1, "d")))
		preFeed := "feed=" + vJoin(mFeedRender(pre.DS["d"], false))
		postFeed := "feed=" + vJoin(mFeedRender(post1.DS["d"], false))
		for _, s := range seen {
			h.Assert(s == preList || s == postList || s == preFeed || s == postFeed, "a concurrent reader sees the batch entirely or not at all :: saw="+s)
		}
	}
	h.Observe("seen", len(seen))
}

func mListRender(g *mGraph, name string) []string {
	md := g.DS[name]
	var list []string
	for _, id := range md.Order {
		list = append(list, mRender(md.Latest[id]))
	}
	return list
}

// vObsWithLookup: listing, feed and relationship answers of a dataset plus the
// scoped lookups of e1 and e2 (for live latest versions), for the
// implementation and for the model.
func vObsWithLookup(h *verifh.H, hub *VHub, g *mGraph, name string) (string, string) {
	got, want := vObsCore(h, hub, name), mObsCore(g, name)
	for _, id := range []string{"ns0:e1", "ns0:e2"} {
		mv, ok := g.DS[name].Latest[id]
		if !ok || mv.Deleted {
			continue
		}
		e, err := hub.Store.GetEntity(id, []string{name}, true)
		h.Assert(err == nil, "scoped lookup succeeds")
		got += " lookup(" + id + ")=" + vRenderEntity(e)
		want += " lookup(" + id + ")=" + mRender(mv)
	}
	return got, want
}

// VerifC05TxnOrder: a transaction over {a, b} runs concurrently with another
// acknowledged write of the same entity (a batch to b, a batch to a, or a
// transaction over {b}); scheduling is symbolic at every marked boundary,
// including before each lock acquisition. Afterwards every read API of both
// datasets — listing, feed, relationship queries AND entity lookups, scoped
// and unscoped — answers as one of the two serial orders would.
func VerifC05TxnOrder(h *verifh.H) {
	hs := vNewHistory(h, "a", "b", "c")
	pre := mClone(hs.g)
	ta := &mVersion{ID: "ns0:e1", Props: map[string]string{"ns0:v": "t"}, Refs: map[string][]string{}}
	tb := &mVersion{ID: "ns0:e1", Props: map[string]string{"ns0:v": "t"}, Refs: map[string][]string{"ns0:p1": {"ns0:e3"}}}
	wv := &mVersion{ID: "ns0:e1", Props: map[string]string{"ns0:v": "w"}, Refs: map[string][]string{"ns0:p1": {"ns0:e2"}}}
	other := h.Choice("other", 4)
	otherDS := []string{"b", "a", "b", "b"}[other]
	dsA, dsB, dsC := hs.dss["a"], hs.dss["b"], hs.dss["c"]
	h.SymbolicSched(h.Param("preemptions", 1))
	var e1, e2, rejected error
	h.Go(func() {
		e1 = hs.hub.Store.ExecuteTransaction(&Transaction{DatasetEntities: map[string][]*Entity{"a": {mkEntity(ta)}, "b": {mkEntity(tb)}}})
	})
	h.Go(func() {
		switch other {
		case 0:
			e2 = dsB.StoreEntities([]*Entity{mkEntity(wv)})
		case 1:
			e2 = dsA.StoreEntities([]*Entity{mkEntity(wv)})
		case 2:
			e2 = hs.hub.Store.ExecuteTransaction(&Transaction{DatasetEntities: map[string][]*Entity{"b": {mkEntity(wv)}}})
		case 3:
			// a batch the hub rejects (a null reference): it must have no effect at all, in
			// particular not on what the concurrent, acknowledged transaction wrote
			bad := NewEntity("ns0:bad", 0)
			bad.References["ns0:p1"] = nil
			rejected = dsC.StoreEntities([]*Entity{mkEntity(wv), bad}) // a dataset the transaction does not lock
		}
	})
	h.Assert(h.Wait(), "both clients complete")
	if other == 3 {
		h.Assert(e1 == nil && rejected != nil, "the transaction is acknowledged, the malformed batch rejected")
	} else {
		h.Assert(e1 == nil && e2 == nil, "both writes are acknowledged")
	}
	sTW := mClone(pre) // transaction first, then the other write
	sTW.write("a", []*mVersion{ta})
	sTW.write("b", []*mVersion{tb})
	sWT := mClone(pre)
	if other != 3 { // a rejected batch writes nothing
		sTW.write(otherDS, []*mVersion{wv})
		sWT.write(otherDS, []*mVersion{wv})
	}
	sWT.write("a", []*mVersion{ta})
	sWT.write("b", []*mVersion{tb})
	match := func(g *mGraph) bool {
		ok := true
		for _, name := range []string{"a", "b"} {
			got, want := vObsWithLookup(h, hs.hub, g, name)
			ok = ok && got == want
		}
		want, found, _ := g.mMergeRender("ns0:e1", nil)
		e, err := hs.hub.Store.GetEntity("ns0:e1", nil, true)
		ok = ok && err == nil && found && e != nil && vRenderEntity(e) == want
		return ok
	}
	gotA, _ := vObsWithLookup(h, hs.hub, sTW, "a")
	gotB, _ := vObsWithLookup(h, hs.hub, sTW, "b")
	h.Assert(match(sTW) || match(sWT), "listing, feed, queries and lookups of both datasets answer as one serial order of the two acknowledged writes would :: a: "+gotA+" b: "+gotB)
	h.Observe("other", other)
}

// VerifC05CreateRace: two clients concurrently assert (create) the same, not
// yet existing dataset and each writes a batch through the dataset it was
// handed — what transforms and POST /datasets/:name do. Scheduling is symbolic
// at the marked boundaries and before every lock acquisition. Both clients
// must end up with the same dataset (one internal id) and both acknowledged
// batches must be in its listing, feed and lookups.
func VerifC05CreateRace(h *verifh.H) {
	hub := VerifNewHub(h)
	var ds [2]*Dataset
	var cerr, werr [2]error
	ids := []string{"ns0:e1", "ns0:e2"}
	h.SymbolicLocks()
	h.SymbolicTxns() // every Badger transaction start of /repo code is a scheduling point too
	h.SymbolicSched(h.Param("preemptions", 2))
	for k := 0; k < 2; k++ {
		k := k
		h.Go(func() {
			ds[k], cerr[k] = hub.Dsm.CreateDataset("shared", nil)
			if cerr[k] == nil && ds[k] != nil {
				e := NewEntity(ids[k], 0)
				e.Properties["ns0:v"] = "w" + itoa(k)
				werr[k] = ds[k].StoreEntities([]*Entity{e})
			}
		})
	}
	h.Assert(h.Wait(), "both clients complete")
	h.Assert(cerr[0] == nil && cerr[1] == nil && ds[0] != nil && ds[1] != nil, "both clients are handed the dataset")
	h.Assert(werr[0] == nil && werr[1] == nil, "both batches are acknowledged")
	if ds[0] == nil || ds[1] == nil {
		return
	}
	h.Assert(ds[0].InternalID == ds[1].InternalID, "both clients are handed the same dataset :: ids "+itoa(int(ds[0].InternalID))+" and "+itoa(int(ds[1].InternalID)))
	cur := hub.Dsm.GetDataset("shared")
	h.Assert(cur != nil, "the dataset exists")
	if cur == nil {
		return
	}
	res, err := cur.GetEntities("", -1)
	h.Assert(err == nil, "listing")
	got := vJoin(vSorted(vRenderList(res.Entities)))
	want := "ns0:e1|del=false|props{ns0:v=w0;}|refs{},ns0:e2|del=false|props{ns0:v=w1;}|refs{}"
	h.Assert(got == want, "both acknowledged batches are in the dataset :: got="+got)
	ch, err := cur.GetChanges(0, 0, false)
	h.Assert(err == nil && len(ch.Entities) == 2, "both acknowledged batches are in the feed")
	for k := 0; k < 2; k++ {
		e, err := hub.Store.GetEntity(ids[k], []string{"shared"}, true)
		h.Assert(err == nil && e != nil && len(e.Properties) == 1, "an acknowledged entity is found by a lookup scoped to the dataset :: "+ids[k])
	}
	h.Observe("n", len(res.Entities))
}

// VerifC05LargePage: a single listing page or feed page is one snapshot however
// many entities it holds. The dataset holds N entities (one batch); a reader
// asks for everything in one page while a writer commits one batch that
// rewrites the first and the last entity of the page. Every transaction start
// and lock acquisition of /repo code is a scheduling point, so a page stitched
// from several read transactions can be cut between them. The page shows both
// rewritten entities old or both new, never one of each.
func VerifC05LargePage(h *verifh.H) {
	hub := VerifNewHub(h)
	ds, err := hub.Dsm.CreateDataset("d", nil)
	h.Assert(err == nil, "create")
	n := h.Param("n", 40)
	var batch []*Entity
	for i := 0; i < n; i++ {
		e := NewEntity("ns0:b"+itoa(i), 0)
		e.Properties["ns0:v"] = "x"
		batch = append(batch, e)
	}
	h.Assert(ds.StoreEntities(batch) == nil, "first batch")
	first := NewEntity("ns0:b0", 0)
	first.Properties["ns0:v"] = "y"
	last := NewEntity("ns0:b"+itoa(n-1), 0)
	last.Properties["ns0:v"] = "y"
	val := func(es []*Entity, id string) string {
		out := ""
		for _, e := range es {
			if e.ID == id {
				out, _ = e.Properties["ns0:v"].(string) // the newest occurrence wins (feed order)
			}
		}
		return out
	}
	var listFirst, listLast, feedFirst, feedLast string
	var listN, feedN int
	h.SymbolicSched(h.Param("preemptions", 2))
	h.SymbolicTxns()
	h.Go(func() { _ = ds.StoreEntities([]*Entity{first, last}) })
	h.Go(func() {
		if res, err := ds.GetEntities("", -1); err == nil {
			listN = len(res.Entities)
			listFirst, listLast = val(res.Entities, first.ID), val(res.Entities, last.ID)
		}
		if ch, err := ds.GetChanges(0, 0, false); err == nil {
			feedN = len(ch.Entities)
			feedFirst, feedLast = val(ch.Entities, first.ID), val(ch.Entities, last.ID)
		}
	})
	h.Assert(h.Wait(), "clients complete")
	h.Assert(listN == n, "the listing page holds every entity exactly once :: n="+itoa(listN))
	h.Assert(listFirst == listLast, "a listing page shows a concurrent batch entirely or not at all :: first="+listFirst+" last="+listLast)
	h.Assert(feedN == n || feedN == n+2, "a feed page shows a concurrent batch entirely or not at all :: entries="+itoa(feedN))
	h.Assert(feedFirst == feedLast, "a feed page shows both rewritten entities in the same state :: first="+feedFirst+" last="+feedLast)
	h.Observe("n", listN)
}
