//go:build verif

package server

import (
	"github.com/mimiro-io/datahub/internal/verifh"
)

// VerifToyURLParts: getURLParts splits so that the parts concatenate back.
func VerifToyURLParts(h *verifh.H) {
	n := h.Choice("n", 6)
	u := "http://" + h.StrOver("u", n, "/#:ab")
	a, b, err := getURLParts(u)
	h.Assert(err == nil, "split ok")
	h.Assert(a+b == u, "concat")
	h.Observe("a", a)
}

func VerifToyArith(h *verifh.H) {
	x := h.Int("x", 0, 100)
	y := h.Int("y", 0, 100)
	if x > y {
		h.Assert(x-y > 0, "pos")
	} else {
		h.Assert(y-x >= 0, "nonneg")
	}
	h.Assert(x+y != 150 || x != 75, "find 75+75")
}

// VerifToyStore: one write, read back through the listing and the feed.
func VerifToyStore(h *verifh.H) {
	hub := VerifNewHub(h)
	ds, err := hub.Dsm.CreateDataset("people", nil)
	h.Assert(err == nil, "create")
	e := vEntity("ns0:bob")
	e.Properties["ns0:name"] = h.Str("name", 3)
	e.References["ns0:knows"] = "ns0:alice"
	err = ds.StoreEntities([]*Entity{e})
	h.Assert(err == nil, "store")
	res, err := ds.GetEntities("", -1)
	h.Assert(err == nil, "list")
	h.Assert(len(res.Entities) == 1, "one entity")
	h.Assert(res.Entities[0].Properties["ns0:name"] == e.Properties["ns0:name"], "same name")
	ch, err := ds.GetChanges(0, 10, false)
	h.Assert(err == nil, "changes")
	h.Assert(len(ch.Entities) == 1, "one change")
	h.Observe("token", ch.NextToken)
}
