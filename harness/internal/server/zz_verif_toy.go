//go:build verif

package server

import (
	"github.com/mimiro-io/datahub/internal/verifh"
)

// VerifToyURLParts: getURLParts splits so that the parts concatenate back.
func VerifToyURLParts(h *verifh.H) {
	n := h.Choice("n", 6)
	u := "http://" + h.StrOver("u", n, "/#:ab")
	a, b, err := getURLParts(u)
	h.Assert(err == nil, "split ok")
	h.Assert(a+b == u, "concat")
	h.Observe("a", a)
}

func VerifToyArith(h *verifh.H) {
	x := h.Int("x", 0, 100)
	y := h.Int("y", 0, 100)
	if x > y {
		h.Assert(x-y > 0, "pos")
	} else {
		h.Assert(y-x >= 0, "nonneg")
	}
	h.Assert(x+y != 150 || x != 75, "find 75+75")
}
