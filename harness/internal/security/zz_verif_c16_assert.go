//go:build verif

package security

import (
	"crypto/rand"
	"crypto/rsa"
	"os"
	"time"

	"github.com/golang-jwt/jwt/v4"

	"github.com/mimiro-io/datahub/internal/verifh"
)

var vAssertKeys [4]*rsa.PrivateKey // [0] the node's, [k] client k's

func vAssertKey(k int) *rsa.PrivateKey {
	if vAssertKeys[k] == nil {
		vAssertKeys[k], _ = rsa.GenerateKey(rand.Reader, 2048)
	}
	return vAssertKeys[k]
}

// VerifC16Assertion: the client-assertion login (the jwt-bearer branch of the
// open POST /security/token route, ValidateClientJWTMakeJWTAccessToken). Two
// clients are registered with their public keys; a third key pair belongs to
// nobody. For an assertion with subject client-<sub>, issuer client-<iss> or
// none, signed with the private key of <signer>, fresh or expired: an access
// token is issued only if the assertion is fresh, its subject is a registered
// client and it is signed with THAT client's key — and the token issued names
// that client as its subject, which is what every ACL decision is keyed by. So
// nobody obtains a token that is evaluated against another client's ACL.
// (A nil dereference for an unknown subject is a refusal: the recover middleware
// answers 500.) Symbolically the JWT library is the contract stub of ext_jwt.go
// (signature verifies iff the key function returns the signer's public key);
// natively real RSA keys and real tokens are used.
func VerifC16Assertion(h *verifh.H) {
	dir := h.TempDir() + "/sec"
	_ = os.MkdirAll(dir, 0o755)
	core := &ServiceCore{Location: dir}
	core.NodeInfo = &NodeInfo{NodeID: "n1", KeyPairs: []*KeyPair{{}}}
	pem := func(k int) []byte {
		if h.Symbolic() {
			return []byte("VERIF-PUBLIC-KEY-" + string(rune('0'+k)))
		}
		s, _ := ExportRsaPublicKeyAsPem(&vAssertKey(k).PublicKey)
		return []byte(s)
	}
	if h.Symbolic() {
		core.NodeInfo.KeyPairs[0] = &KeyPair{PrivateKey: &rsa.PrivateKey{}, Active: true}
	} else {
		core.NodeInfo.KeyPairs[0] = &KeyPair{PrivateKey: vAssertKey(0), PublicKey: &vAssertKey(0).PublicKey, Active: true}
	}
	name := func(k int) string { return "client-" + string(rune('0'+k)) }
	core.RegisterClient(&ClientInfo{ClientID: name(1), PublicKey: pem(1)})
	core.RegisterClient(&ClientInfo{ClientID: name(2), PublicKey: pem(2)})

	sub := 1 + h.Choice("sub", 3)       // 3: not registered
	iss := h.Choice("iss", 4)           // 0: no iss claim
	signer := 1 + h.Choice("signer", 3) // 3: a key nobody registered
	fresh := h.Choice("fresh", 2) == 1
	text := "stub.assertion"
	if h.Symbolic() {
		h.StubAssertion(sub, iss, signer, fresh)
	} else {
		exp := time.Now().Add(time.Minute)
		if !fresh {
			exp = time.Now().Add(-time.Minute)
		}
		claims := jwt.RegisteredClaims{ExpiresAt: jwt.NewNumericDate(exp), Subject: name(sub), Audience: jwt.ClaimStrings{"node:n1"}}
		if iss != 0 {
			claims.Issuer = name(iss)
		}
		text, _ = jwt.NewWithClaims(jwt.SigningMethodRS256, claims).SignedString(vAssertKey(signer))
	}
	var tok string
	var err error
	panicked := false
	func() {
		defer func() {
			if recover() != nil {
				panicked = true
			}
		}()
		tok, err = core.ValidateClientJWTMakeJWTAccessToken(text)
	}()
	issued := !panicked && err == nil
	legit := fresh && sub <= 2 && signer == sub
	h.Assert(!issued || legit, "an access token is issued only for a fresh assertion signed with the key registered for its subject :: sub="+name(sub)+" iss="+itoa(iss)+" signer="+itoa(signer))
	h.Assert(!legit || issued, "a registered client's own fresh assertion is accepted")
	if issued {
		got := ""
		if h.Symbolic() {
			if len(tok) > 11 {
				got = tok[11:] // "minted-for:<subject>"
			}
		} else {
			c := &CustomClaims{}
			_, perr := jwt.ParseWithClaims(tok, c, func(*jwt.Token) (interface{}, error) { return &vAssertKey(0).PublicKey, nil })
			h.Assert(perr == nil, "the token issued verifies with the node's key")
			got = c.Subject
		}
		h.Assert(got == name(sub), "the token issued names the client that proved possession of its key :: subject="+got)
	}
	h.Observe("issued", issued)
}

func itoa(k int) string { return string(rune('0' + k)) }
