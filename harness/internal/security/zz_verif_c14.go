//go:build verif

package security

import (
	"sort"
	"strings"

	"github.com/mimiro-io/datahub/internal/server"
	"github.com/mimiro-io/datahub/internal/verifh"
)

// vProvidersObs: what the hub answers about its login providers — the stored
// definitions (ListProviders, GetProviderConfig) and which providers are live
// (Get by lower-cased name, what a job's security lookup uses), with the user
// each live basic provider authenticates as.
func vProvidersObs(h *verifh.H, tp *TokenProviders, names []string) string {
	list, err := tp.ListProviders()
	h.Assert(err == nil, "providers listable")
	var stored []string
	for _, p := range list {
		u := ""
		if p.User != nil {
			u = p.User.Value
		}
		stored = append(stored, p.Name+"/"+p.Type+"/"+u)
	}
	sort.Strings(stored)
	var live []string
	for _, n := range names {
		if p, ok := tp.Get(strings.ToLower(n)); ok {
			u := ""
			if bp, isBasic := p.(BasicProvider); isBasic {
				u = bp.User
			}
			live = append(live, n+"="+u)
		}
	}
	return "stored=" + strings.Join(stored, ",") + " live=" + strings.Join(live, ",")
}

// VerifC14Providers: login providers survive a restart unchanged. A history of
// add / update / delete over provider names with and without upper-case
// letters; then the hub restarts (a new provider manager and provider table
// over the reopened store): the stored definitions and the set of live
// providers (and the credentials they use) are the same as before. At every
// point the live providers are exactly the stored ones.
func VerifC14Providers(h *verifh.H) {
	hub := server.VerifNewHub(h)
	names := []string{"p1", "MyProvider"}
	pm := NewProviderManager(hub.Env, hub.Store, hub.Env.Logger)
	tp := NewTokenProviders(hub.Env.Logger, pm, nil)
	mk := func(name, user string) ProviderConfig {
		return ProviderConfig{Name: name, Type: "basic", User: &ValueReader{Type: "text", Value: user}, Password: &ValueReader{Type: "text", Value: "pw"}}
	}
	nops := h.Param("ops", 3)
	for k := 0; k < nops; k++ {
		name := names[h.Choice("name", 2)]
		switch h.Choice("op", 3) {
		case 0:
			h.Assert(tp.Add(mk(name, "u"+strings.ToLower(name[:1])+"0")) == nil, "add accepted")
		case 1:
			_ = tp.UpdateProvider(name, mk(name, "changed"))
		case 2:
			_ = tp.DeleteProvider(name) // may be refused (unknown provider)
		}
		// the live table mirrors the stored definitions
		list, err := tp.ListProviders()
		h.Assert(err == nil, "providers listable")
		for _, n := range names {
			stored := false
			for _, p := range list {
				if p.Name == n {
					stored = true
				}
			}
			_, live := tp.Get(strings.ToLower(n))
			h.Assert(stored == live, "a login provider is live iff its definition is stored :: name="+n+" stored="+vbs(stored)+" live="+vbs(live))
		}
	}
	before := vProvidersObs(h, tp, names)
	hub = hub.Restart()
	pm2 := NewProviderManager(hub.Env, hub.Store, hub.Env.Logger)
	tp2 := NewTokenProviders(hub.Env.Logger, pm2, nil)
	after := vProvidersObs(h, tp2, names)
	h.Assert(before == after, "the same login providers after a restart :: before="+before+" after="+after)
	h.Observe("providers", before)
}

func vbs(b bool) string {
	if b {
		return "true"
	}
	return "false"
}
