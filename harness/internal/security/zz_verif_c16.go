//go:build verif

package security

import (
	"os"
	"strconv"

	"github.com/mimiro-io/datahub/internal/verifh"
)

func vSnapshot(c *ServiceCore, ids []string) string {
	s := ""
	clients := c.GetClients()
	for _, id := range ids {
		ci, ok := clients[id]
		s += id + ":"
		if ok {
			s += "client(" + ci.ClientID + "," + strconv.FormatBool(ci.Deleted) + ")"
		}
		acl := c.GetAccessControls(id)
		s += "acl["
		for _, a := range acl {
			s += a.Resource + "|" + a.Action + "|" + strconv.FormatBool(a.Deny) + ";"
		}
		s += "] "
	}
	return s
}

// vReload rebuilds a ServiceCore from the files with the code Init runs after
// the node key handling (which is RSA/PEM code outside the model).
func vReload(dir string) *ServiceCore {
	c := &ServiceCore{Location: dir}
	_ = c.loadState()
	return c
}

// VerifC16Persist: client registrations and ACLs survive a restart unchanged,
// after every history of register/delete client and set/delete ACL.
func VerifC16Persist(h *verifh.H) {
	dir := h.TempDir() + "/sec"
	_ = os.MkdirAll(dir, 0o755)
	core := &ServiceCore{Location: dir}
	ids := []string{"c1", "c2"}
	n := h.Param("ops", 2)
	for i := 0; i < n; i++ {
		id := ids[h.Choice("id", 2)]
		switch h.Choice("op", 5) {
		case 0:
			core.RegisterClient(&ClientInfo{ClientID: id})
		case 1:
			core.RegisterClient(&ClientInfo{ClientID: id, Deleted: true})
		case 2:
			core.SetClientAccessControls(id, []*AccessControl{{Resource: "/datasets/a*", Action: "read"}})
		case 3:
			core.SetClientAccessControls(id, []*AccessControl{{Resource: "/*", Action: "write"}, {Resource: "/jobs", Action: "write", Deny: true}})
		case 4:
			core.DeleteClientAccessControls(id)
		}
	}
	before := vSnapshot(core, ids)
	after := vSnapshot(vReload(dir), ids)
	h.Assert(before == after, "registered clients and ACLs are the same after a restart")
	h.Observe("before", before)
	h.Observe("after", after)
}
