//go:build verif

package web

import (
	"context"
	"io"
	"net/http"
	"net/url"
	"strings"
	"time"

	"github.com/labstack/echo/v4"

	"github.com/mimiro-io/datahub/internal/server"
	"github.com/mimiro-io/datahub/internal/verifh"
)

// vCtx is the part of echo.Context the entity handlers use; every other
// method of the embedded (nil) interface would panic, which the engine reports.
type vCtx struct {
	echo.Context
	req    *http.Request
	params map[string]string
	status int
	vals   map[string]interface{}
}

func (c *vCtx) Param(name string) string           { return c.params[name] }
func (c *vCtx) Request() *http.Request             { return c.req }
func (c *vCtx) NoContent(code int) error           { c.status = code; return nil }
func (c *vCtx) Get(key string) interface{}         { return c.vals[key] }
func (c *vCtx) Set(key string, val interface{})    { c.vals[key] = val }
func (c *vCtx) QueryParam(name string) string      { return "" }
func (c *vCtx) JSON(code int, i interface{}) error { c.status = code; return nil }

type vBody struct{ *strings.Reader }

func (vBody) Close() error { return nil }

var _ io.ReadCloser = vBody{}

// vPost sends one POST /datasets/d/entities through the real handler
// (headers → storeEntitiesHandler → processEntities → stream parser → dataset).
// It reports whether the request was answered 200.
func vPost(handler *datasetHandler, start bool, id string, end bool, prefix, ent, tag string) bool {
	hdr := http.Header{}
	if start {
		hdr.Set("universal-data-api-full-sync-start", "true")
	}
	if id != "" {
		hdr.Set("universal-data-api-full-sync-id", id)
	}
	if end {
		hdr.Set("universal-data-api-full-sync-end", "true")
	}
	body := `[{"id":"@context","namespaces":{"x":"http://example.com/x/"}},{"id":"x:` + ent + `","props":{"x:tag":"` + tag + `"},"refs":{}}]`
	req := &http.Request{Method: "POST", URL: &url.URL{Path: "/datasets/d/entities"}, Header: hdr, Body: vBody{strings.NewReader(body)}}
	c := &vCtx{req: req.WithContext(context.Background()), params: map[string]string{"dataset": "d"}, vals: map[string]interface{}{}}
	err := handler.storeEntitiesHandler(c)
	return err == nil && c.status == http.StatusOK
}

type mSyncW struct {
	active  int // 0 none, 1 job, 2 http
	id      string
	seen    map[string]bool
	live    map[string]bool
	dels    map[string]int
	content map[string]string
}

func (m *mSyncW) write(id, tag string) {
	m.live[id] = true
	m.content[id] = tag
	if m.active != 0 {
		m.seen[id] = true
	}
}

func (m *mSyncW) complete() {
	for id, l := range m.live {
		if l && !m.seen[id] {
			m.live[id] = false
			m.dels[id]++
		}
	}
	m.active, m.id, m.seen = 0, "", map[string]bool{}
}

func vb(b bool) string {
	if b {
		return "true"
	}
	return "false"
}

// VerifC09Handler: the full-sync protocol driven through the real HTTP handler
// (web.datasetHandler.storeEntitiesHandler with real headers and a JSON body)
// instead of a transcription of it: for every history of HTTP start / batch /
// end requests with matching, missing and foreign sync ids, job-driven syncs
// on the same dataset and lease expiry, a request is answered 200 exactly when
// the protocol accepts it, and deletions happen only when the active,
// unexpired sync completes — exactly the previously live entities not written
// since its start, once.
func VerifC09Handler(h *verifh.H) {
	lease := time.Hour
	if !h.Symbolic() {
		lease = 1500 * time.Millisecond
	}
	hub := server.VerifOpenHub(server.VerifConfig(h, lease))
	ds, err := hub.Dsm.CreateDataset("d", nil)
	h.Assert(err == nil, "create")
	handler := &datasetHandler{datasetManager: hub.Dsm, store: hub.Store, eventBus: server.NoOpBus()}
	prefix, err := hub.Store.NamespaceManager.AssertPrefixMappingForExpansion("http://example.com/x/")
	h.Assert(err == nil, "prefix")
	pool := []string{"old", "e1", "e2"}
	m := &mSyncW{seen: map[string]bool{}, live: map[string]bool{}, dels: map[string]int{}, content: map[string]string{}}
	mk := func(ent, tag string) []*server.Entity {
		e := server.NewEntity(prefix+":"+ent, 0)
		e.Properties[prefix+":tag"] = tag
		return []*server.Entity{e}
	}
	h.Assert(vPost(handler, false, "", false, prefix, "old", "t0"), "a plain write is accepted")
	m.write("old", "t0")
	ids := []string{"x", "y"}
	jobRunning := false
	jobSuperseded := false
	nops := h.Param("ops", 3)
	for k := 0; k < nops; k++ {
		tag := "k" + server.VItoa(k)
		op := h.Choice("op", 7)
		when := "op" + server.VItoa(k) + "=" + server.VItoa(op)
		switch op {
		case 0: // HTTP start with a batch
			id := ids[h.Choice("sid", 2)]
			ent := pool[1+h.Choice("ent", 2)]
			ok := vPost(handler, true, id, false, prefix, ent, tag)
			h.Assert(ok, "a start request is answered 200 :: "+when)
			m.active, m.id, m.seen = 2, id, map[string]bool{}
			m.write(ent, tag)
			if jobRunning {
				jobSuperseded = true
			}
		case 1, 2: // HTTP batch (1) or HTTP end (2)
			reqID := []string{"", "x", "y"}[h.Choice("rid", 3)]
			ent := pool[1+h.Choice("ent", 2)]
			end := op == 2
			ok := vPost(handler, false, reqID, end, prefix, ent, tag)
			accept := m.active == 0 || (m.active == 1 && reqID == "") || (m.active == 2 && reqID == m.id)
			if accept {
				if !(end && m.active != 2) {
					// (an end request without a running HTTP sync: the batch is stored, the answer
					// for the end part is not pinned down by the property)
					h.Assert(ok, "a request the protocol accepts is answered 200 :: "+when)
				}
				m.write(ent, tag)
				if end && m.active == 2 && reqID == m.id {
					m.complete()
				}
			} else {
				h.Assert(!ok, "a batch carrying a foreign or missing sync id is not answered 200 :: "+when)
			}
		case 3: // job-driven full sync starts
			if jobRunning {
				h.Assume(false)
			}
			h.Assert(ds.StartFullSync() == nil, "job start")
			m.active, m.id, m.seen = 1, "", map[string]bool{}
			jobRunning, jobSuperseded = true, false
		case 4: // job batch
			if !jobRunning {
				h.Assume(false)
			}
			ent := pool[1+h.Choice("ent", 2)]
			h.Assert(ds.StoreEntities(mk(ent, tag)) == nil, "job batch stored")
			m.write(ent, tag)
		case 5: // job-driven full sync ends
			if !jobRunning {
				h.Assume(false)
			}
			_ = ds.CompleteFullSync(context.Background())
			if m.active == 1 {
				m.complete()
			}
			jobRunning = false
		case 6: // a pending lease expires
			if h.FireTimer("expire", 2500*time.Millisecond) {
				if m.active == 2 {
					m.active, m.id, m.seen = 0, "", map[string]bool{}
				}
			} else {
				h.Assume(false)
			}
		}
		ch, err := ds.GetChanges(0, 0, false)
		h.Assert(err == nil, "feed")
		got, want := "", ""
		for _, ent := range pool {
			id := prefix + ":" + ent
			live, dels, tagv := false, 0, ""
			for _, e := range ch.Entities {
				if e.ID != id {
					continue
				}
				live = !e.IsDeleted
				if e.IsDeleted {
					dels++
				}
				if t, ok := e.Properties[prefix+":tag"].(string); ok {
					tagv = t
				}
			}
			got += ent + ":live=" + vb(live) + ",dels=" + server.VItoa(dels) + ",tag=" + tagv + " "
			want += ent + ":live=" + vb(m.live[ent]) + ",dels=" + server.VItoa(m.dels[ent]) + ",tag=" + m.content[ent] + " "
		}
		h.Known("C09-superseded-job-completes", op == 5 && jobSuperseded)
		h.Assert(got == want, "deletions happen exactly when the active, unexpired sync completes :: "+when+" got="+got+" want="+want)
		if got != want {
			return
		}
	}
	h.Observe("active", m.active)
}
