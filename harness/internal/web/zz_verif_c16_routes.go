//go:build verif

package web

import (
	"net/http"
	"net/url"
	"os"
	"strings"

	"github.com/DataDog/datadog-go/v5/statsd"
	"github.com/labstack/echo/v4"
	"go.uber.org/zap"

	"github.com/mimiro-io/datahub/internal/conf"
	"github.com/mimiro-io/datahub/internal/security"
	"github.com/mimiro-io/datahub/internal/server"
	"github.com/mimiro-io/datahub/internal/verifh"
)

// vRW is a minimal http.ResponseWriter: echo's Response wraps it, the status
// the client would see is the first WriteHeader.
type vRW struct {
	hdr    http.Header
	status int
	n      int
}

func (w *vRW) Header() http.Header { return w.hdr }
func (w *vRW) Write(b []byte) (int, error) {
	if w.status == 0 {
		w.status = 200
	}
	w.n += len(b)
	return len(b), nil
}
func (w *vRW) WriteHeader(code int) {
	if w.status == 0 {
		w.status = code
	}
}

// vRoutesHub builds the web service exactly as the hub does (NewWebService:
// status handler, NewMiddleware with the security middleware stack of
// Auth.Middleware=local, every Register*Handler), with a real store and dataset manager but no scheduler,
// content service or token providers behind the handlers: a handler that is
// reached either answers (2xx/404) or dereferences a nil service, which the
// recover middleware answers with 500 — distinguishable from the 400/401/403 of a
// refused request, which is all this harness needs.
func vRoutesHub(h *verifh.H, core *security.ServiceCore) *echo.Echo {
	hub := server.VerifNewHub(h)
	env := hub.Env
	env.AdminUserName, env.AdminPassword, env.Port = "admin", "secret", "0"
	env.Auth = &conf.AuthConfig{Middleware: "local", WellKnown: "https://auth.example.invalid/jwks.json"}
	tp := security.NewTokenProviders(zap.NewNop().Sugar(), security.NewProviderManager(env, hub.Store, zap.NewNop().Sugar()), core)
	ws, err := NewWebService(&ServiceContext{Env: env, Logger: zap.NewNop().Sugar(), SecurityCore: core, Port: "0", Statsd: &statsd.NoOpClient{},
		Store: hub.Store, DatasetManager: hub.Dsm, EventBus: server.NoOpBus(), TokenProviders: tp})
	if err != nil {
		panic(err)
	}
	return ws.echo
}

// VerifC16Routes: every route the hub registers, reached through the real
// echo router and the real global middleware stack (logger filter, CORS, JWT
// with the skipper, recover) and the route's own middleware. For a request
// (route, method, path parameters filled with a dataset/job name) and a caller
// (no token / a token the JWT middleware rejects / a valid non-admin token with
// drawn ACL entries) the handler behind the route may be reached only if the
// route is one of the documented open ones (/health, /, /security/token) or
// the caller's token is valid and doAclCheck (decided against the property by
// VerifC16Acl) grants the path for the method.
func VerifC16Routes(h *verifh.H) {
	dir := h.TempDir() + "/sec"
	_ = os.MkdirAll(dir, 0o755)
	core := &security.ServiceCore{Location: dir}
	core.NodeInfo = &security.NodeInfo{NodeID: "n1", KeyPairs: []*security.KeyPair{{}}}
	if !h.Symbolic() {
		vRoutesKeys(core)
	}
	e := vRoutesHub(h, core)

	routes := e.Routes()
	// (the harness enumerates up to vNumRoutes routes; a hub that registers more needs a larger bound)
	h.Assert(len(routes) >= 1 && len(routes) <= vNumRoutes, "the hub registers its routes, at most as many as the harness enumerates")
	// deterministic order: echo.Routes() ranges over a map
	var pick *echo.Route
	idx := h.Choice("route", vNumRoutes)
	k := 0
	for _, name := range vRouteKeys(routes) {
		if k == idx {
			pick = name
		}
		k++
	}
	if pick == nil {
		h.Assume(false)
		return
	}
	// the path parameter is the concrete name d1 or (thorough, routes with a parameter)
	// two symbolic bytes over {a,b}: the router's matching, the JWT skipper's prefix
	// tests and the ACL's exact/prefix match then run on symbolic bytes and the
	// verdict below is the solver's for every such name.
	name := "d1"
	if h.Param("symName", 0) == 1 && strings.Contains(pick.Path, ":") && h.Choice("symName", 2) == 1 {
		name = h.StrOver("name", 2, "ab")
	}
	path := vFill(pick.Path, name)
	method := pick.Method

	// 0 no token, 1 a token the JWT middleware must reject, 2 valid token without ACL,
	// 3 valid token + a read grant on exactly this path, 4 valid token + a write grant,
	// 5 valid token + a write grant and a matching deny
	// 6 valid token + a write grant on everything and a deny on exactly this path
	caller := h.Choice("caller", 7)
	hdr := http.Header{}
	var acls []*security.AccessControl
	if caller != 0 {
		good := caller >= 2
		text := "stub.token.text"
		if h.Symbolic() {
			h.StubJWT(1, 1, 0, good, true)
		} else {
			text = vSignRoutesToken(good)
		}
		hdr.Set("Authorization", "Bearer "+text)
		switch caller {
		case 3:
			res := path
			if name != "d1" {
				// a trailing-* grant on a one-byte prefix of the name: covers the path iff the name starts with it
				k := strings.Index(pick.Path, ":")
				res = pick.Path[:k] + h.StrOver("resByte", 1, "ab") + "*"
			}
			acls = append(acls, &security.AccessControl{Resource: res, Action: "read"})
		case 4:
			acls = append(acls, &security.AccessControl{Resource: path, Action: "write"})
		case 5:
			acls = append(acls, &security.AccessControl{Resource: path, Action: "write"}, &security.AccessControl{Resource: "/*", Action: "write", Deny: true})
		case 6:
			acls = append(acls, &security.AccessControl{Resource: "/*", Action: "write"}, &security.AccessControl{Resource: path, Action: "write", Deny: true})
		}
		if caller >= 3 {
			core.SetClientAccessControls("client-1", acls)
		}
	}
	// the oracle is evaluated on the ACL as it was set (a copy: nothing a request does may change it)
	var asSet []*security.AccessControl
	for _, ac := range acls {
		c := *ac
		asSet = append(asSet, &c)
	}
	if caller >= 3 && h.Choice("listFirst", 2) == 1 {
		// the same client first lists the datasets (the listing is filtered by its ACL); what it may
		// do afterwards is still decided by the ACL as it was set
		lw := &vRW{hdr: http.Header{}}
		e.ServeHTTP(lw, &http.Request{Method: "GET", URL: &url.URL{Path: "/datasets"}, Header: hdr, Host: "hub", RequestURI: "/datasets", Proto: "HTTP/1.1", Body: vBody{strings.NewReader("")}})
	}
	req := &http.Request{Method: method, URL: &url.URL{Path: path}, Header: hdr, Host: "hub", RequestURI: path, Proto: "HTTP/1.1", Body: vBody{strings.NewReader("{}")}}
	w := &vRW{hdr: http.Header{}}
	e.ServeHTTP(w, req)

	// 401 is the JWT middleware's refusal, 403 the authorizer's; no handler behind a
	// protected route answers with either (only the open token route answers 401).
	open := path == "/health" || path == "/" || path == "/security/token"
	granted := false
	if caller >= 2 {
		granted = vGrants(h, asSet, path, method)
	}
	where := " :: " + method + " " + pick.Path
	if open {
		h.Assert(w.status != 403, "an open route is not subject to the ACL"+where)
	} else if caller < 2 {
		h.Assert(w.status == 401 || w.status == 403, "a request without a valid token is refused by every route that is not documented as open"+where)
	} else {
		h.Assert(w.status != 401, "a valid token is accepted"+where)
		h.Assert(h.Iff(w.status == 403, h.Not(granted)), "a non-admin caller reaches the handler iff one of its ACL entries grants the path for the method"+where)
	}
	h.Observe("status", w.status)
}

// vGrants is the property's ACL rule (oracle; same as in VerifC16Acl), built as
// one term.
func vGrants(h *verifh.H, acls []*security.AccessControl, path, method string) bool {
	write := !(method == "GET" || method == "HEAD" || method == "OPTIONS")
	grants := []bool{false}
	denies := []bool{false}
	for _, ac := range acls {
		match := h.StrEq(ac.Resource, path)
		if n := len(ac.Resource); n > 0 && len(path) >= n-1 {
			match = h.Or(match, h.And(h.HasSuffix(ac.Resource, "*"), h.HasPrefix(path, ac.Resource[:n-1])))
		}
		covers := ac.Action == "write" || !write
		if ac.Deny {
			denies = append(denies, h.And(match, covers))
		} else {
			grants = append(grants, h.And(match, covers))
		}
	}
	return h.And(h.Or(grants...), h.Not(h.Or(denies...)))
}

// vFill replaces the path parameters of a route pattern.
func vFill(p, name string) string {
	out := ""
	for i := 0; i < len(p); i++ {
		if p[i] == ':' {
			for i < len(p) && p[i] != '/' {
				i++
			}
			out += name
			i--
			continue
		}
		out += string(p[i])
	}
	return out
}

const vNumRoutes = 96

// vRouteKeys orders the routes by method and path (insertion sort; the list is
// what echo.Routes() returns, in map order).
func vRouteKeys(rs []*echo.Route) []*echo.Route {
	out := make([]*echo.Route, 0, len(rs))
	for _, r := range rs {
		i := len(out)
		out = append(out, r)
		for i > 0 && (out[i-1].Path > r.Path || (out[i-1].Path == r.Path && out[i-1].Method > r.Method)) {
			out[i] = out[i-1]
			i--
		}
		out[i] = r
	}
	return out
}
