//go:build verif

package web

import (
	"crypto/rand"
	"crypto/rsa"
	"time"

	"github.com/golang-jwt/jwt/v4"

	"github.com/mimiro-io/datahub/internal/security"
)

var vRoutesKey, vRoutesOther *rsa.PrivateKey

// vRoutesKeys installs a real node key pair (native replay only; never
// executed under gosx, where the key is an opaque pointer and
// jwt.ParseWithClaims a contract stub).
func vRoutesKeys(core *security.ServiceCore) {
	if vRoutesKey == nil {
		vRoutesKey, _ = rsa.GenerateKey(rand.Reader, 2048)
		vRoutesOther, _ = rsa.GenerateKey(rand.Reader, 2048)
	}
	core.NodeInfo.KeyPairs[0].PrivateKey = vRoutesKey
	core.NodeInfo.KeyPairs[0].PublicKey = &vRoutesKey.PublicKey
}

// vSignRoutesToken: a non-admin token for client-1 issued by node n1, signed
// with the node key (good) or with a foreign key.
func vSignRoutesToken(good bool) string {
	claims := security.CustomClaims{Roles: []string{"client"}}
	claims.Subject = "client-1"
	claims.Audience = jwt.ClaimStrings{"node:n1"}
	claims.Issuer = "node:n1"
	claims.ExpiresAt = jwt.NewNumericDate(time.Now().Add(time.Hour))
	k := vRoutesKey
	if !good {
		k = vRoutesOther
	}
	s, _ := jwt.NewWithClaims(jwt.SigningMethodRS256, claims).SignedString(k)
	return s
}
