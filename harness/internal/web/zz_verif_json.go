//go:build verif

package web

import "encoding/json"

func vJSON(v interface{}) (string, error) {
	b, err := json.Marshal(v)
	return string(b), err
}

func vUnJSON(s string, v interface{}) error { return json.Unmarshal([]byte(s), v) }
