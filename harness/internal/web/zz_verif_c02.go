//go:build verif

package web

import (
	"strings"

	"github.com/mimiro-io/datahub/internal/server"
	"github.com/mimiro-io/datahub/internal/verifh"
)

// VerifC02HandlerPaging: listing and change feed through the real GET
// handlers with limit and the continuation tokens the hub hands out (the
// entities token is base64, the changes token a number encoded by the handler).
// After a drawn history of writes to a dataset: following the tokens with limit
// 1 or 2 yields the unpaged sequence, nothing skipped or repeated; the token of
// the last page returns nothing; after one more write it returns exactly the
// new change and, for the listing, the new entity.
func VerifC02HandlerPaging(h *verifh.H) {
	hub := server.VerifNewHub(h)
	ds, err := hub.Dsm.CreateDataset("d", nil)
	h.Assert(err == nil, "create")
	handler := &datasetHandler{datasetManager: hub.Dsm, store: hub.Store, eventBus: server.NoOpBus()}
	ids := []string{"ns0:e1", "ns0:e2", "ns0:e3"}
	n := 2 + h.Choice("writes", 2)
	for k := 0; k < n; k++ {
		e := server.NewEntity(ids[h.Choice("id", 3)], 0)
		e.Properties["ns0:v"] = "v" + server.VItoa(k)
		e.IsDeleted = h.Choice("del", 2) == 1
		h.Assert(ds.StoreEntities([]*server.Entity{e}) == nil, "write")
	}
	read := func(what string, query map[string]string) ([]string, string) {
		hf := handler.getEntitiesHandler
		if what == "changes" {
			hf = handler.getChangesHandler
		}
		status, body, gerr := vGet(hf, "/datasets/d/"+what, query)
		h.Assert(gerr == nil && status == 200, "GET "+what+" is served :: "+body)
		var doc []map[string]interface{}
		h.Assert(vUnJSON(body, &doc) == nil && len(doc) >= 1, "the body is a JSON array :: "+body)
		var out []string
		token := ""
		for _, el := range doc {
			id, _ := el["id"].(string)
			switch id {
			case "@context":
			case "@continuation":
				token, _ = el["token"].(string)
			default:
				v := ""
				if pm, ok := el["props"].(map[string]interface{}); ok {
					v, _ = pm["ns0:v"].(string)
				}
				if d, _ := el["deleted"].(bool); d {
					v += "†"
				}
				out = append(out, id+"="+v)
			}
		}
		return out, token
	}
	limit := server.VItoa(1 + h.Choice("limit", 2))
	for _, what := range []string{"entities", "changes"} {
		tokParam := "from"
		if what == "changes" {
			tokParam = "since"
		}
		full, endTok := read(what, map[string]string{})
		var paged []string
		tok := ""
		last := ""
		for page := 0; page < 8; page++ {
			q := map[string]string{"limit": limit}
			if tok != "" {
				q[tokParam] = tok
			}
			got, next := read(what, q)
			if len(got) == 0 {
				break
			}
			paged = append(paged, got...)
			tok, last = next, next
		}
		h.Assert(strings.Join(paged, ",") == strings.Join(full, ","), "following the handler's continuation tokens yields the unpaged sequence :: "+what+" limit="+limit+" paged="+strings.Join(paged, ",")+" full="+strings.Join(full, ","))
		// the end token returns nothing now ...
		again, _ := read(what, map[string]string{tokParam: endTok})
		h.Assert(len(again) == 0, "the token obtained at the end returns nothing until new writes happen :: "+what+" got="+strings.Join(again, ","))
		if last != "" {
			again2, _ := read(what, map[string]string{tokParam: last, "limit": limit})
			h.Assert(len(again2) == 0, "the token of the last page returns nothing :: "+what)
		}
	}
	// the feed read backwards (reverse=true) with the same limits: the reversed feed, page by page,
	// ending with an empty page or no token
	fwd, _ := read("changes", map[string]string{})
	var rev []string
	tok := ""
	for page := 0; page < 8; page++ {
		q := map[string]string{"reverse": "true", "limit": limit}
		if tok != "" {
			q["since"] = tok
		}
		got, next := read("changes", q)
		if len(got) == 0 {
			break
		}
		rev = append(rev, got...)
		if next == "" || next == tok {
			break
		}
		tok = next
	}
	var want []string
	for k := len(fwd) - 1; k >= 0; k-- {
		want = append(want, fwd[k])
	}
	h.Assert(strings.Join(rev, ",") == strings.Join(want, ","), "reading the feed backwards with a limit and the returned tokens yields the reversed feed, nothing skipped or repeated :: limit="+limit+" got="+strings.Join(rev, ",")+" want="+strings.Join(want, ","))
	// ... and exactly the new entries after one more write of a brand-new entity
	_, endChanges := read("changes", map[string]string{})
	_, endEntities := read("entities", map[string]string{})
	ne := server.NewEntity("ns0:new", 0)
	ne.Properties["ns0:v"] = "fresh"
	h.Assert(ds.StoreEntities([]*server.Entity{ne}) == nil, "one more write")
	c2, _ := read("changes", map[string]string{"since": endChanges})
	h.Assert(strings.Join(c2, ",") == "ns0:new=fresh", "after a new write the end token of the feed returns exactly the new entry :: got="+strings.Join(c2, ","))
	e2, _ := read("entities", map[string]string{"from": endEntities})
	h.Assert(strings.Join(e2, ",") == "ns0:new=fresh", "after a new entity the end token of the listing returns exactly it :: got="+strings.Join(e2, ","))
	h.Observe("n", n)
}
