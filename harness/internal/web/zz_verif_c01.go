//go:build verif

package web

import (
	"net/http"
	"net/url"
	"strings"

	"github.com/labstack/echo/v4"
	"go.uber.org/zap"

	"github.com/mimiro-io/datahub/internal/server"
	"github.com/mimiro-io/datahub/internal/verifh"
	"github.com/mimiro-io/datahub/internal/web/middlewares"
)

// VerifC01TxnRequests: two POST /transactions requests served one after the
// other by the handler RegisterTxnHandler registers on a real echo router. Each
// request carries its own @context; both use the same raw names (prefix "a",
// or the default namespace "_") but may bind them to different namespaces, and
// write to the same or to different datasets. After both are accepted, the
// listing of the dataset the second one wrote and the lookups (scoped,
// unscoped) of the entity it wrote show exactly what that request wrote: one
// property and one reference whose names and value expand, through the store's
// own namespace table, to the URIs the request's own context denotes — and the
// entity of the first request is still what the first request wrote.
func VerifC01TxnRequests(h *verifh.H) {
	hub := server.VerifNewHub(h)
	_, _ = hub.Dsm.CreateDataset("d1", nil)
	_, _ = hub.Dsm.CreateDataset("d2", nil)
	e := echo.New()
	RegisterTxnHandler(e, zap.NewNop().Sugar(), &Middleware{authorizer: middlewares.NoOpAuthorizer}, hub.Store)

	nss := []string{"http://example.com/people/", "http://example.com/places/"}
	ns1 := nss[h.Choice("ns1", 2)]
	ns2 := nss[h.Choice("ns2", 2)]
	ds2 := []string{"d1", "d2"}[h.Choice("ds2", 2)]
	pfx, key := "a:", "a"
	if h.Choice("defaultNs", 2) == 1 {
		pfx, key = "", "_"
	}
	post := func(ns, ds, id, val, typ string) int {
		body := `{"@context": {"namespaces": {"` + key + `": "` + ns + `"}}, "` + ds + `": [{"id": "` + pfx + id + `", "props": {"` + pfx + `name": "` + val + `"}, "refs": {"` + pfx + `type": "` + pfx + typ + `"}}]}`
		hdr := http.Header{}
		hdr.Set("Content-Type", "application/json")
		req := &http.Request{Method: "POST", URL: &url.URL{Path: "/transactions"}, Header: hdr, Host: "hub", RequestURI: "/transactions", Proto: "HTTP/1.1", Body: vBody{strings.NewReader(body)}}
		w := &vRW{hdr: http.Header{}}
		e.ServeHTTP(w, req)
		return w.status
	}
	h.Assert(post(ns1, "d1", "homer", "Homer", "Person") == 200, "first transaction accepted")
	h.Assert(post(ns2, ds2, "springfield", "Springfield", "Town") == 200, "second transaction accepted")

	expand := func(c string) string {
		u, err := hub.Store.ExpandCurie(c)
		if err != nil {
			return "!" + c
		}
		return u
	}
	check := func(where string, ent *server.Entity, ns, id, val, typ string) {
		h.Assert(ent != nil && expand(ent.ID) == ns+id, where+": the entity is the one written")
		if ent == nil {
			return
		}
		h.Assert(len(ent.Properties) == 1 && len(ent.References) == 1, where+": one property and one reference, as written")
		for k, v := range ent.Properties {
			h.Assert(expand(k) == ns+"name" && v == val, where+": the property has the name the request's own context denotes :: "+expand(k))
		}
		for k, v := range ent.References {
			s, _ := v.(string)
			h.Assert(expand(k) == ns+"type" && expand(s) == ns+typ, where+": the reference has the name and target the request's own context denotes :: "+expand(k)+" -> "+expand(s))
		}
	}
	find := func(ds, uri string) *server.Entity {
		res, err := hub.Dsm.GetDataset(ds).GetEntities("", 0)
		h.Assert(err == nil, "listing succeeds")
		for _, x := range res.Entities {
			if expand(x.ID) == uri {
				return x
			}
		}
		return nil
	}
	check("listing", find(ds2, ns2+"springfield"), ns2, "springfield", "Springfield", "Town")
	ent, err := hub.Store.GetEntity(ns2+"springfield", []string{ds2}, true)
	h.Assert(err == nil, "scoped lookup succeeds")
	check("scoped lookup", ent, ns2, "springfield", "Springfield", "Town")
	ent, err = hub.Store.GetEntity(ns2+"springfield", nil, true)
	h.Assert(err == nil, "unscoped lookup succeeds")
	check("unscoped lookup", ent, ns2, "springfield", "Springfield", "Town")
	check("listing of the first", find("d1", ns1+"homer"), ns1, "homer", "Homer", "Person")
}
