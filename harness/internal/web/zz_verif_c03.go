//go:build verif

package web

import (
	"context"
	"net/http"
	"net/url"
	"sort"
	"strings"

	"github.com/mimiro-io/datahub/internal/server"
	"github.com/mimiro-io/datahub/internal/verifh"
)

// vQuery posts one body to the real /query handler and decodes the answer:
// relation pairs "predicate|related id", the continuation strings, the looked
// up entity (entityId queries).
func vQuery(h *verifh.H, handler *queryHandler, body string) (pairs []string, conts []string, status int) {
	w := &vBuf{hdr: http.Header{}}
	req := &http.Request{Method: "POST", URL: &url.URL{Path: "/query"}, Header: http.Header{}, Body: vBody{strings.NewReader(body)}}
	c := &vQCtx{vRCtx: vRCtx{req: req.WithContext(context.Background()), params: map[string]string{}, query: map[string]string{}, vals: map[string]interface{}{}}, w: w}
	c.resp = nil
	err := handler.queryHandler(c)
	if err != nil {
		return nil, nil, 500
	}
	var doc []interface{}
	if vUnJSON(string(w.body), &doc) != nil || len(doc) < 2 {
		return nil, nil, 599
	}
	if rows, ok := doc[1].([]interface{}); ok {
		for _, r := range rows {
			row, _ := r.([]interface{})
			if len(row) == 3 {
				pred, _ := row[1].(string)
				id := ""
				if em, ok := row[2].(map[string]interface{}); ok {
					id, _ = em["id"].(string)
				}
				pairs = append(pairs, pred+"|"+id)
			}
		}
	}
	if len(doc) > 2 {
		if cs, ok := doc[2].([]interface{}); ok {
			for _, x := range cs {
				if s, ok := x.(string); ok {
					conts = append(conts, s)
				}
			}
		}
	}
	return pairs, conts, w.status
}

// vQCtx adds c.JSON (what the query handler answers with) to vRCtx: the value
// is serialised with encoding/json into the collecting writer.
type vQCtx struct {
	vRCtx
	w *vBuf
}

func (c *vQCtx) JSON(code int, i interface{}) error {
	s, err := vJSON(i)
	if err != nil {
		return err
	}
	c.w.WriteHeader(code)
	_, _ = c.w.Write([]byte(s))
	return nil
}

// VerifC03Query: relationship queries through the real POST /query handler —
// JSON request, legacy result rows, continuations as the base64 tokens the
// handler hands to clients. For every small graph in the box (e1, e2 in d1/d2
// with p1/p2 references to e2/e3), every start entity, predicate or wildcard,
// direction and dataset scope: following the continuation tokens with limit 1
// or 2 yields the same set of (predicate, related entity) pairs as the same
// query with a limit larger than the result, nothing missing and nothing twice,
// and that set is what the store-level query (decided against the reference
// graph by VerifC03History) returns. Optionally the start entity is rewritten
// between the first page and the continuations (the tokens pin the instant).
func VerifC03Query(h *verifh.H) {
	hub := server.VerifNewHub(h)
	d1, _ := hub.Dsm.CreateDataset("d1", nil)
	d2, _ := hub.Dsm.CreateDataset("d2", nil)
	handler := &queryHandler{store: hub.Store, datasetManager: hub.Dsm, logger: hub.Env.Logger}
	mk := func(id string, refs map[string][]string, del bool) *server.Entity {
		e := server.NewEntity(id, 0)
		e.IsDeleted = del
		for p, ts := range refs {
			if len(ts) == 1 {
				e.References[p] = ts[0]
			} else if len(ts) > 1 {
				arr := make([]interface{}, len(ts))
				for k, t := range ts {
					arr[k] = t
				}
				e.References[p] = arr
			}
		}
		return e
	}
	refsOf := func(tag string) map[string][]string {
		r := map[string][]string{}
		switch h.Choice(tag+"p1", 4) {
		case 1:
			r["ns0:p1"] = []string{"ns0:e2"}
		case 2:
			r["ns0:p1"] = []string{"ns0:e3"}
		case 3:
			r["ns0:p1"] = []string{"ns0:e2", "ns0:e3"}
		}
		if h.Choice(tag+"p2", 2) == 1 {
			r["ns0:p2"] = []string{"ns0:e3"}
		}
		return r
	}
	h.Assert(d1.StoreEntities([]*server.Entity{mk("ns0:e1", refsOf("a"), false), mk("ns0:e2", map[string][]string{"ns0:p1": {"ns0:e3"}}, false)}) == nil, "write d1")
	h.Assert(d2.StoreEntities([]*server.Entity{mk("ns0:e1", refsOf("b"), h.Choice("bdel", 2) == 1)}) == nil, "write d2")

	start := []string{"ns0:e1", "ns0:e3"}[h.Choice("start", 2)]
	inverse := start == "ns0:e3"
	pred := []string{"*", "ns0:p1"}[h.Choice("pred", 2)]
	scope := []string{``, `,"datasets":["d1"]`, `,"datasets":["d1","d2"]`}[h.Choice("scope", 3)]
	limit := 1 + h.Choice("limit", 2)
	startList := `"` + start + `"`
	starts := []string{start}
	if h.Param("multiStart", 0) == 1 && h.Choice("multi", 2) == 1 {
		// a second start entity in the same request: with a small limit it is not reached by the
		// first page and comes back in the continuation unscanned
		startList += `,"ns0:e2"`
		starts = append(starts, "ns0:e2")
	}
	base := `"startingEntities":[` + startList + `],"predicate":"` + pred + `","inverse":` + vb(inverse) + scope
	full, _, st := vQuery(h, handler, `{`+base+`,"limit":50}`)
	h.Assert(st == 200, "the unpaged query is answered")
	sort.Strings(full)
	// the same through the store API
	var sc []string
	switch scope {
	case `,"datasets":["d1"]`:
		sc = []string{"d1"}
	case `,"datasets":["d1","d2"]`:
		sc = []string{"d1", "d2"}
	}
	direct, err := hub.Store.GetManyRelatedEntitiesBatch(starts, pred, inverse, sc, 0, true)
	h.Assert(err == nil, "store-level query")
	var dp []string
	for _, r := range direct.Relations {
		id := ""
		if r.RelatedEntity != nil {
			id = r.RelatedEntity.ID
		}
		dp = append(dp, r.PredicateURI+"|"+id)
	}
	sort.Strings(dp)
	h.Assert(strings.Join(full, ",") == strings.Join(dp, ","), "the handler's answer is the store's answer :: http="+strings.Join(full, ",")+" store="+strings.Join(dp, ","))
	// paged
	page, conts, st := vQuery(h, handler, `{`+base+`,"limit":`+server.VItoa(limit)+`}`)
	h.Assert(st == 200, "the first page is answered")
	all := append([]string{}, page...)
	if h.Param("rewrite", 0) == 1 && h.Choice("rewrite", 2) == 1 {
		// the start entity, the second start entity or a referrer is rewritten after the first page
		victim := []string{"ns0:e1", "ns0:e2"}[h.Choice("rwwho", 2)]
		h.Assert(d1.StoreEntities([]*server.Entity{mk(victim, map[string][]string{}, h.Choice("rwdel", 2) == 1)}) == nil, "rewrite")
	}
	for k := 0; len(conts) > 0 && k < 8; k++ {
		q := `{"continuations":[`
		for i, c := range conts {
			if i > 0 {
				q += ","
			}
			q += `"` + c + `"`
		}
		q += `],"limit":` + server.VItoa(limit) + `}`
		page, conts, st = vQuery(h, handler, q)
		h.Assert(st == 200, "a continuation handed out by the hub is accepted")
		all = append(all, page...)
	}
	sort.Strings(all)
	h.Assert(strings.Join(all, ",") == strings.Join(full, ","), "following the continuation tokens returns the same set, nothing missing and nothing twice :: start="+start+" pred="+pred+" limit="+server.VItoa(limit)+" paged="+strings.Join(all, ",")+" single="+strings.Join(full, ","))
	h.Observe("n", len(full))
}
