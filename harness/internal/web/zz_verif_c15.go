//go:build verif

package web

import (
	"context"
	"net/http"
	"net/url"
	"sort"
	"strings"

	"github.com/labstack/echo/v4"

	"github.com/mimiro-io/datahub/internal/server"
	"github.com/mimiro-io/datahub/internal/verifh"
)

// vBuf collects a response body.
type vBuf struct {
	hdr    http.Header
	status int
	body   []byte
}

func (w *vBuf) Header() http.Header { return w.hdr }
func (w *vBuf) Write(b []byte) (int, error) {
	if w.status == 0 {
		w.status = 200
	}
	w.body = append(w.body, b...)
	return len(b), nil
}
func (w *vBuf) Flush() {}
func (w *vBuf) WriteHeader(code int) {
	if w.status == 0 {
		w.status = code
	}
}

// vRCtx: the part of echo.Context the GET handlers use, with a real
// echo.Response around a collecting writer.
type vRCtx struct {
	echo.Context
	req    *http.Request
	params map[string]string
	query  map[string]string
	resp   *echo.Response
	vals   map[string]interface{}
}

func (c *vRCtx) Param(name string) string        { return c.params[name] }
func (c *vRCtx) QueryParam(name string) string   { return c.query[name] }
func (c *vRCtx) Request() *http.Request          { return c.req }
func (c *vRCtx) Response() *echo.Response        { return c.resp }
func (c *vRCtx) Get(key string) interface{}      { return c.vals[key] }
func (c *vRCtx) Set(key string, val interface{}) { c.vals[key] = val }
func (c *vRCtx) NoContent(code int) error        { c.resp.WriteHeader(code); return nil }

func vGet(hf echo.HandlerFunc, path string, query map[string]string) (int, string, error) {
	w := &vBuf{hdr: http.Header{}}
	req := &http.Request{Method: "GET", URL: &url.URL{Path: path}, Header: http.Header{}}
	c := &vRCtx{req: req.WithContext(context.Background()), params: map[string]string{"dataset": "d"}, query: query, resp: echo.NewResponse(w, nil), vals: map[string]interface{}{}}
	err := hf(c)
	return w.status, string(w.body), err
}

// vCanon renders an entity with every CURIE expanded to its full URI, so that
// entities read under different contexts can be compared.
func vCanon(st *server.Store, e *server.Entity, expand func(string) string) string {
	_ = st
	var parts []string
	for k, v := range e.Properties {
		b, _ := vJSON(v)
		parts = append(parts, "p "+expand(k)+"="+b)
	}
	for k, v := range e.References {
		switch r := v.(type) {
		case string:
			parts = append(parts, "r "+expand(k)+"="+expand(r))
		case []interface{}:
			s := ""
			for _, x := range r {
				if xs, ok := x.(string); ok {
					s += expand(xs) + " "
				}
			}
			parts = append(parts, "r "+expand(k)+"=["+s+"]")
		}
	}
	sort.Strings(parts)
	d := "live"
	if e.IsDeleted {
		d = "deleted"
	}
	return expand(e.ID) + " " + d + " " + strings.Join(parts, ";")
}

// VerifC15Handlers: what is POSTed is what is GET back, through the real
// handlers. A valid payload whose context maps the prefix ex to a namespace
// (ending in '/', '#' or ':' — the last is what urn: namespaces look like) is
// sent to storeEntitiesHandler; GET /entities and GET /changes are then served
// by getEntitiesHandler / getChangesHandler into a collecting response; each
// body, with the context element the hub put in front of it, is parsed by the
// stream parser again and denotes exactly the posted entities (ids, properties,
// references, deleted flags after expanding every CURIE with the body's own
// context), and the continuation element of the changes body resumes at the end.
func VerifC15Handlers(h *verifh.H) {
	hub := server.VerifNewHub(h)
	var cfg *server.CreateDatasetConfig
	if h.Choice("publicNs", 2) == 1 {
		cfg = &server.CreateDatasetConfig{PublicNamespaces: []string{"http://example.com/x/", "http://example.com/y#", "urn:example:z:"}}
	}
	_, err := hub.Dsm.CreateDataset("d", cfg)
	h.Assert(err == nil, "create")
	handler := &datasetHandler{datasetManager: hub.Dsm, store: hub.Store, eventBus: server.NoOpBus()}
	ns := []string{"http://example.com/x/", "http://example.com/y#", "urn:example:z:"}[h.Choice("ns", 3)]
	del := h.Choice("del", 2) == 1
	refs := []string{`{}`, `{"ex:r":"ex:e2"}`, `{"ex:r":["ex:e2","ex:e3"]}`}[h.Choice("refs", 3)]
	props := []string{`{}`, `{"ex:p":"v"}`, `{"ex:p":[1,"a"],"ex:q":true}`}[h.Choice("props", 3)]
	doc := `[{"id":"@context","namespaces":{"ex":"` + ns + `"}},{"id":"ex:e1","deleted":` + vb(del) + `,"props":` + props + `,"refs":` + refs + `},{"id":"ex:e2","props":{},"refs":{}}]`
	req := &http.Request{Method: "POST", URL: &url.URL{Path: "/datasets/d/entities"}, Header: http.Header{}, Body: vBody{strings.NewReader(doc)}}
	pc := &vCtx{req: req.WithContext(context.Background()), params: map[string]string{"dataset": "d"}, vals: map[string]interface{}{}}
	perr := handler.storeEntitiesHandler(pc)
	h.Assert(perr == nil && pc.status == http.StatusOK, "the valid payload is accepted :: doc="+doc)
	if perr != nil {
		return
	}
	parse := func(body string) ([]*server.Entity, *server.Context, error) {
		var out []*server.Entity
		p := server.NewEntityStreamParser(hub.Store)
		err := p.ParseStream(strings.NewReader(body), func(e *server.Entity) error {
			out = append(out, e)
			return nil
		})
		return out, nil, err
	}
	// what was posted, in canonical form
	expandWith := func(m map[string]string) func(string) string {
		return func(s string) string {
			if strings.HasPrefix(s, "http") || strings.HasPrefix(s, "urn:") {
				return s
			}
			k := strings.Index(s, ":")
			if k < 0 {
				return s
			}
			if exp, ok := m[s[:k]]; ok {
				return exp + s[k+1:]
			}
			return "?" + s
		}
	}
	posted, _, err := parse(doc)
	h.Assert(err == nil && len(posted) == 2, "payload parses")
	hubCtx := hub.Store.GetGlobalContext(false).Namespaces
	var want []string
	for _, e := range posted {
		want = append(want, vCanon(hub.Store, e, expandWith(hubCtx)))
	}
	for _, what := range []string{"entities", "changes"} {
		hf := handler.getEntitiesHandler
		if what == "changes" {
			hf = handler.getChangesHandler
		}
		status, body, gerr := vGet(hf, "/datasets/d/"+what, map[string]string{})
		h.Assert(gerr == nil && status == 200, "GET "+what+" is served")
		if gerr != nil {
			continue
		}
		// the body's own context
		bodyCtx := map[string]string{}
		var first []map[string]interface{}
		h.Assert(vUnJSON(body, &first) == nil && len(first) > 0, "the body is a JSON array :: "+body)
		if len(first) > 0 {
			if nsm, ok := first[0]["namespaces"].(map[string]interface{}); ok {
				for k, v := range nsm {
					if vs, ok := v.(string); ok {
						bodyCtx[k] = vs
					}
				}
			}
		}
		back, _, err := parse(body)
		h.Assert(err == nil, "the GET "+what+" body parses with the context it carries :: ns="+ns+" body="+body)
		if err != nil {
			continue
		}
		var got []string
		sawCont := false
		for _, e := range back {
			if e.ID == "@continuation" {
				// the continuation element is handed to the caller like an entity
				sawCont = true
				continue
			}
			// the parser re-maps the body's prefixes onto the hub's: canonical form via the hub context
			got = append(got, vCanon(hub.Store, e, expandWith(hubCtx)))
		}
		h.Assert(strings.Join(got, " | ") == strings.Join(want, " | "), "the GET "+what+" body denotes exactly the posted entities :: got="+strings.Join(got, " | ")+" want="+strings.Join(want, " | "))
		h.Assert(sawCont, "the body ends with a continuation element :: "+body)
		// every CURIE of the raw body resolves under the body's own context
		for _, e := range first[1:] {
			if id, ok := e["id"].(string); ok && id != "@continuation" {
				h.Assert(!strings.HasPrefix(expandWith(bodyCtx)(id), "?"), "the body's context declares the prefix of every identifier it uses :: id="+id+" body="+body)
			}
		}
	}
	h.Observe("ns", ns)
}
