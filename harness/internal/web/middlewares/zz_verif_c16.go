//go:build verif

package middlewares

import (
	"os"
	"time"

	"github.com/golang-jwt/jwt/v4"

	"github.com/mimiro-io/datahub/internal/security"
	"github.com/mimiro-io/datahub/internal/verifh"
)

var vMethods = []string{"GET", "HEAD", "OPTIONS", "POST", "PUT", "PATCH", "DELETE"}

// VerifC16Acl: doAclCheck/CheckGranted serve a non-admin request iff an ACL
// entry grants the path (exactly or by trailing-* prefix) for the needed
// action — write for every state-changing method, read otherwise (write
// implies read) — and no matching deny entry exists.
func VerifC16Acl(h *verifh.H) {
	dir := h.TempDir() + "/sec"
	_ = os.MkdirAll(dir, 0o755)
	core := &security.ServiceCore{Location: dir}
	method := vMethods[h.Choice("method", len(vMethods))]
	maxLen := h.Param("maxLen", 3)
	alpha := "/ab"[:h.Param("alpha", 3)]
	path := "/" + h.StrOver("path", h.Choice("pathLen", maxLen+1), alpha)
	admin := h.Choice("admin", 2) == 1
	nacl := h.Choice("nacl", h.Param("maxAcl", 2)+1)
	hasAcl := h.Choice("hasAcl", 2) == 1 // client has an ACL list at all

	write := !(method == "GET" || method == "HEAD" || method == "OPTIONS")
	var acls []*security.AccessControl
	grants := make([]bool, 0, nacl)
	denies := make([]bool, 0, nacl)
	for i := 0; i < nacl; i++ {
		res := h.StrOver("res", h.Choice("resLen", maxLen+2), alpha+"*")
		actWrite := h.Choice("actWrite", 2) == 1
		deny := h.Bool("deny")
		act := "read"
		if actWrite {
			act = "write"
		}
		acls = append(acls, &security.AccessControl{Resource: res, Action: act, Deny: deny})
		match := h.StrEq(res, path)
		if len(res) > 0 {
			match = h.Or(match, h.And(h.HasSuffix(res, "*"), h.HasPrefix(path, res[:len(res)-1])))
		}
		// the entry's action covers the needed action: write covers read
		covers := actWrite || !write
		grants = append(grants, h.And(match, covers, h.Not(deny)))
		denies = append(denies, h.And(match, covers, deny))
	}
	if hasAcl {
		core.SetClientAccessControls("client-1", acls)
	} else {
		h.Assume(nacl == 0)
	}
	roles := []string{"client"}
	if admin {
		roles = []string{"client", "admin"}
	}
	token := &jwt.Token{Claims: &security.CustomClaims{Roles: roles, RegisteredClaims: jwt.RegisteredClaims{Subject: "client-1"}}}
	err := doAclCheck(method, path, token, core)
	served := err == nil

	want := h.And(h.Or(grants...), h.Not(h.Or(denies...)))
	if admin {
		h.Assert(served, "admin role is always served")
	} else {
		h.Assert(h.Implies(served, h.Or(grants...)), "served only if an entry grants the path for the needed action (mutations need write)")
		h.Assert(h.Implies(served, h.Not(h.Or(denies...))), "an explicit deny entry is never overridden by an allow")
		h.Assert(h.Implies(want, served), "a granted, not denied request is served")
	}
	h.Observe("served", served)
}

// VerifC16Token: JwtConfig.ValidateToken accepts a token only if it is
// correctly signed, unexpired, RS256, and carries an accepted audience and an
// accepted issuer. The token shape is symbolic: audience/issuer absent, good
// or foreign; algorithm RS256/RS384/HS256; signature good or bad; expired or
// not. Under gosx jwt.ParseWithClaims is a stub obeying its documented
// contract for that shape; natively a real token of that shape is signed.
func VerifC16Token(h *verifh.H) {
	aud := h.Choice("aud", 3) // 0 absent, 1 accepted, 2 foreign
	iss := h.Choice("iss", 3)
	alg := h.Choice("alg", 3) // 0 RS256, 1 RS384, 2 HS256
	sigOK := h.Choice("sigOK", 2) == 1
	fresh := h.Choice("fresh", 2) == 1
	cfg := &JwtConfig{NodeAudience: []string{"node:n1"}, NodeIssuer: []string{"node:n1"}}
	text := "stub.token.text"
	if h.Symbolic() {
		h.StubJWT(aud, iss, alg, sigOK, fresh)
	} else {
		text = vSignToken(cfg, aud, iss, alg, sigOK, fresh)
	}
	tok, err := cfg.ValidateToken(text)
	accepted := err == nil && tok != nil
	ok := sigOK && fresh && alg == 0 && aud == 1 && iss == 1
	h.Assert(!accepted || sigOK, "accepted only if correctly signed")
	h.Assert(!accepted || fresh, "accepted only if unexpired")
	h.Assert(!accepted || alg == 0, "accepted only with RS256")
	h.Assert(!accepted || aud == 1, "accepted only with an accepted audience")
	h.Assert(!accepted || iss == 1, "accepted only with an accepted issuer")
	h.Assert(!ok || accepted, "a fully valid token is accepted")
	h.Observe("accepted", accepted)
}

// VerifC16Replay: the same bearer string presented twice to one JwtConfig —
// accepted while valid, it must be rejected once it has expired (and a token
// rejected first is not accepted later either): acceptance is decided by the
// token and the clock at the time of the request, not by an earlier answer.
// Under gosx the second parse sees the same token with the time-dependent
// part of its shape changed (StubJWT); natively a really signed token with a
// lifetime of 4 s is replayed after 5.5 s.
func VerifC16Replay(h *verifh.H) {
	cfg := &JwtConfig{NodeAudience: []string{"node:n1"}, NodeIssuer: []string{"node:n1"}}
	firstFresh := h.Choice("firstFresh", 2) == 1
	text := "stub.token.text"
	if h.Symbolic() {
		h.StubJWT(1, 1, 0, true, firstFresh)
	} else if firstFresh {
		text = vSignShortLived(cfg, 4*time.Second)
	} else {
		text = vSignShortLived(cfg, -time.Hour)
	}
	tok, err := cfg.ValidateToken(text)
	h.Assert((err == nil && tok != nil) == firstFresh, "first presentation: accepted iff unexpired")
	// time passes: the token is expired now
	if h.Symbolic() {
		h.StubJWT(1, 1, 0, true, false)
	} else {
		time.Sleep(5500 * time.Millisecond)
	}
	tok2, err2 := cfg.ValidateToken(text)
	h.Assert(!(err2 == nil && tok2 != nil), "the same token presented after its expiry is rejected")
	h.Observe("first", firstFresh)
}
