//go:build verif

package middlewares

import (
	"net/http"
	"net/url"
	"os"

	"github.com/golang-jwt/jwt/v4"
	"github.com/labstack/echo/v4"
	"go.uber.org/zap"

	"github.com/mimiro-io/datahub/internal/security"
	"github.com/mimiro-io/datahub/internal/verifh"
)

// vAuthCtx is the part of echo.Context the Authorizer middleware uses; any
// other method of the embedded (nil) interface panics, which the engine reports.
type vAuthCtx struct {
	echo.Context
	req  *http.Request
	vals map[string]interface{}
}

func (c *vAuthCtx) Request() *http.Request          { return c.req }
func (c *vAuthCtx) Get(key string) interface{}      { return c.vals[key] }
func (c *vAuthCtx) Set(key string, val interface{}) { c.vals[key] = val }

// VerifC16Authorizer: the Authorizer middleware as a whole (OPA not reachable,
// so the ACL decides). The request is what net/http hands the router: URL.Path
// is the decoded path the handlers' path parameters come from, URL.RawPath the
// escaped form the client sent (empty when it does not differ). The handler
// behind the middleware runs iff doAclCheck (decided against the property by
// VerifC16Acl) grants the DECODED path for the method: writing a path in an
// escaped form does not get a client past a deny entry or to a resource it has
// no grant for.
func VerifC16Authorizer(h *verifh.H) {
	dir := h.TempDir() + "/sec"
	_ = os.MkdirAll(dir, 0o755)
	core := &security.ServiceCore{Location: dir}
	method := []string{"GET", "POST", "DELETE"}[h.Choice("method", 3)]
	paths := []struct{ path, raw string }{
		{"/datasets/secret/entities", ""},
		{"/datasets/secret/entities", "/datasets/%73ecret/entities"},
		{"/datasets/secret/entities", "/datasets/secret%2Fentities"},
		{"/datasets/open/changes", ""},
		{"/datasets/a b/changes", "/datasets/a%20b/changes"},
		{"/jobs", "/%6Aobs"},
	}
	p := paths[h.Choice("path", len(paths))]
	resources := []string{"/datasets/*", "/datasets/secret*", "/datasets/secret/entities", "/datasets/a b/*", "/jobs", "/datasets/%73ecret*", "*"}
	var acls []*security.AccessControl
	nacl := h.Choice("nacl", h.Param("maxAcl", 2)+1)
	for i := 0; i < nacl; i++ {
		act := "read"
		if h.Choice("actWrite", 2) == 1 {
			act = "write"
		}
		acls = append(acls, &security.AccessControl{Resource: resources[h.Choice("res", len(resources))], Action: act, Deny: h.Choice("deny", 2) == 1})
	}
	core.SetClientAccessControls("client-1", acls)
	roles := []string{"client"}
	if nacl == 0 && h.Choice("admin", 2) == 1 {
		roles = append(roles, "admin")
	}
	token := &jwt.Token{Claims: &security.CustomClaims{Roles: roles, RegisteredClaims: jwt.RegisteredClaims{Subject: "client-1"}}}

	req := &http.Request{Method: method, URL: &url.URL{Path: p.path, RawPath: p.raw}, Header: http.Header{}}
	c := &vAuthCtx{req: req, vals: map[string]interface{}{"user": token}}
	reached := false
	next := func(echo.Context) error { reached = true; return nil }
	err := Authorizer(core)(zap.NewNop().Sugar())(next)(c)

	want := doAclCheck(method, p.path, token, core) == nil
	h.Assert(reached == want, "the handler runs iff the ACL grants the decoded path for the method :: "+method+" "+p.path+" raw="+p.raw)
	h.Assert(reached == (err == nil), "a refused request is answered with an error, a served one without")
	h.Observe("served", reached)
}
