//go:build verif

package middlewares

import (
	"crypto/rand"
	"crypto/rsa"
	"time"

	"github.com/golang-jwt/jwt/v4"

	"github.com/mimiro-io/datahub/internal/security"
)

// vSignToken builds a real token of the requested shape (native replay only;
// never executed under gosx).
func vSignToken(cfg *JwtConfig, aud, iss, alg int, sigOK, fresh bool) string {
	key, _ := rsa.GenerateKey(rand.Reader, 2048)
	other, _ := rsa.GenerateKey(rand.Reader, 2048)
	cfg.NodePublicKey = &key.PublicKey
	claims := security.CustomClaims{Roles: []string{"client"}}
	claims.Subject = "client-1"
	switch aud {
	case 1:
		claims.Audience = jwt.ClaimStrings{"node:n1"}
	case 2:
		claims.Audience = jwt.ClaimStrings{"node:other"}
	}
	switch iss {
	case 1:
		claims.Issuer = "node:n1"
	case 2:
		claims.Issuer = "node:other"
	}
	if fresh {
		claims.ExpiresAt = jwt.NewNumericDate(time.Now().Add(time.Hour))
	} else {
		claims.ExpiresAt = jwt.NewNumericDate(time.Now().Add(-time.Hour))
	}
	signKey := key
	if !sigOK {
		signKey = other
	}
	var s string
	switch alg {
	case 0:
		s, _ = jwt.NewWithClaims(jwt.SigningMethodRS256, claims).SignedString(signKey)
	case 1:
		s, _ = jwt.NewWithClaims(jwt.SigningMethodRS384, claims).SignedString(signKey)
	default:
		secret := []byte("shared-secret")
		if !sigOK {
			secret = []byte("other-secret")
		}
		s, _ = jwt.NewWithClaims(jwt.SigningMethodHS256, claims).SignedString(secret)
	}
	return s
}

// vSignShortLived builds a correctly signed, fully valid token that expires
// after ttl (native replay of VerifC16Replay only).
func vSignShortLived(cfg *JwtConfig, ttl time.Duration) string {
	key, _ := rsa.GenerateKey(rand.Reader, 2048)
	cfg.NodePublicKey = &key.PublicKey
	claims := security.CustomClaims{Roles: []string{"client"}}
	claims.Subject = "client-1"
	claims.Audience = jwt.ClaimStrings{"node:n1"}
	claims.Issuer = "node:n1"
	claims.ExpiresAt = jwt.NewNumericDate(time.Now().Add(ttl))
	s, _ := jwt.NewWithClaims(jwt.SigningMethodRS256, claims).SignedString(key)
	return s
}
