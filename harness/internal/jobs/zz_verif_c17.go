//go:build verif

package jobs

import (
	"strconv"

	"github.com/mimiro-io/datahub/internal/server"
	"github.com/mimiro-io/datahub/internal/verifh"
)

type vCountingHandler struct {
	inner    *LogFailingEntityHandler
	reported []string
}

func (c *vCountingHandler) handleFailingEntity(runner *Runner, entity *server.Entity, jobId string) error {
	c.reported = append(c.reported, entity.ID)
	return c.inner.handleFailingEntity(runner, entity, jobId)
}
func (c *vCountingHandler) reset() { c.inner.reset() }

// VerifC17Bisect: wrappedSink.processEntities with a log handler isolates the
// failing entities of a batch: every other entity is delivered exactly once,
// each failing entity is reported exactly once, processing stops exactly at
// the maxItems-th rejection and the outcome carries the error.
func VerifC17Bisect(h *verifh.H) {
	maxN := h.Param("maxN", 5)
	n := h.Choice("n", maxN) + 1
	maxItems := h.Int("maxItems", 0, h.Param("maxMaxItems", 3))
	ents := vEntities(n)
	failing := map[string]bool{}
	var failIdx []int
	for i := 0; i < n; i++ {
		if h.Bool("fail" + strconv.Itoa(i)) {
			failing[ents[i].ID] = true
			failIdx = append(failIdx, i)
		}
	}
	hub := server.VerifNewHub(h)
	runner := vRunner(hub, 2, 2)
	sink := &vSink{failing: failing, failBatch: -1}
	handler := &vCountingHandler{inner: &LogFailingEntityHandler{MaxItems: maxItems, jobId: "j", jobTitle: "j"}}
	ws := &wrappedSink{s: sink, failingEntityHandlers: []failingEntityHandler{handler}, jobId: "j"}
	err := ws.processEntities(runner, ents)

	mi := h.Conc(maxItems)
	stop := -1 // index of the entity whose rejection stops the run
	if mi > 0 && len(failIdx) >= mi {
		stop = failIdx[mi-1]
	}
	if stop < 0 {
		h.Assert(err == nil, "no stop: batch call returns nil")
		// every non-failing entity delivered exactly once, in order
		var want []*server.Entity
		for i := 0; i < n; i++ {
			if !failing[ents[i].ID] {
				want = append(want, ents[i])
			}
		}
		h.Assert(vSameSeq(sink.delivered, want), "all non-failing entities are delivered exactly once")
		h.Assert(len(handler.reported) == len(failIdx), "each failing entity is reported exactly once")
		for k, i := range failIdx {
			h.Assert(k < len(handler.reported) && handler.reported[k] == ents[i].ID, "failing entities reported in order")
		}
		h.Assert((ws.lastError != nil) == (len(failIdx) > 0), "outcome carries the error iff something failed")
	} else {
		h.Assert(err == MaxItemsExceededError, "stop: the maxItems-th rejection ends processing with MaxItemsExceededError")
		h.Assert(len(handler.reported) == mi, "exactly maxItems rejections were reported")
		var want []*server.Entity
		for i := 0; i < stop; i++ {
			if !failing[ents[i].ID] {
				want = append(want, ents[i])
			}
		}
		h.Assert(vSameSeq(sink.delivered, want), "entities before the stopping rejection are delivered, nothing after")
		h.Assert(ws.lastError != nil, "outcome carries the sink error")
	}
	h.Observe("delivered", len(sink.delivered))
	h.Observe("reported", len(handler.reported))
}
