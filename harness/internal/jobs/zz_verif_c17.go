//go:build verif

package jobs

import (
	"strconv"
	"time"

	"github.com/mimiro-io/datahub/internal/server"
	"github.com/mimiro-io/datahub/internal/verifh"
)

type vCountingHandler struct {
	inner    *LogFailingEntityHandler
	reported []string
}

func (c *vCountingHandler) handleFailingEntity(runner *Runner, entity *server.Entity, jobId string) error {
	c.reported = append(c.reported, entity.ID)
	return c.inner.handleFailingEntity(runner, entity, jobId)
}
func (c *vCountingHandler) reset() { c.inner.reset() }

// VerifC17Bisect: wrappedSink.processEntities with a log handler isolates the
// failing entities of a batch: every other entity is delivered exactly once,
// each failing entity is reported exactly once, processing stops exactly at
// the maxItems-th rejection and the outcome carries the error.
func VerifC17Bisect(h *verifh.H) {
	maxN := h.Param("maxN", 5)
	n := h.Choice("n", maxN) + 1
	maxItems := h.Int("maxItems", 0, h.Param("maxMaxItems", 3))
	ents := vEntities(n)
	failing := map[string]bool{}
	var failIdx []int
	for i := 0; i < n; i++ {
		if h.Bool("fail" + strconv.Itoa(i)) {
			failing[ents[i].ID] = true
			failIdx = append(failIdx, i)
		}
	}
	hub := server.VerifNewHub(h)
	runner := vRunner(hub, 2, 2)
	sink := &vSink{failing: failing, failBatch: -1}
	handler := &vCountingHandler{inner: &LogFailingEntityHandler{MaxItems: maxItems, jobId: "j", jobTitle: "j"}}
	ws := &wrappedSink{s: sink, failingEntityHandlers: []failingEntityHandler{handler}, jobId: "j"}
	err := ws.processEntities(runner, ents)

	mi := h.Conc(maxItems)
	stop := -1 // index of the entity whose rejection stops the run
	if mi > 0 && len(failIdx) >= mi {
		stop = failIdx[mi-1]
	}
	if stop < 0 {
		h.Assert(err == nil, "no stop: batch call returns nil")
		// every non-failing entity delivered exactly once, in order
		var want []*server.Entity
		for i := 0; i < n; i++ {
			if !failing[ents[i].ID] {
				want = append(want, ents[i])
			}
		}
		h.Assert(vSameSeq(sink.delivered, want), "all non-failing entities are delivered exactly once")
		h.Assert(len(handler.reported) == len(failIdx), "each failing entity is reported exactly once")
		for k, i := range failIdx {
			h.Assert(k < len(handler.reported) && handler.reported[k] == ents[i].ID, "failing entities reported in order")
		}
		h.Assert((ws.lastError != nil) == (len(failIdx) > 0), "outcome carries the error iff something failed")
	} else {
		h.Assert(err == MaxItemsExceededError, "stop: the maxItems-th rejection ends processing with MaxItemsExceededError")
		h.Assert(len(handler.reported) == mi, "exactly maxItems rejections were reported")
		var want []*server.Entity
		for i := 0; i < stop; i++ {
			if !failing[ents[i].ID] {
				want = append(want, ents[i])
			}
		}
		h.Assert(vSameSeq(sink.delivered, want), "entities before the stopping rejection are delivered, nothing after")
		h.Assert(ws.lastError != nil, "outcome carries the sink error")
	}
	h.Observe("delivered", len(sink.delivered))
	h.Observe("reported", len(handler.reported))
}

// VerifC17Transient: as VerifC17Bisect, but one sink call (any call of the
// run, of any batch size) additionally fails transiently. The oracle is taken
// from what the sink actually did: an entity is reported to the handler iff
// the sink rejected it in a call of its own (exactly once, in that order);
// every other entity is delivered exactly once; nothing is both; an entity the
// sink never rejected on its own is never reported and never withheld.
func VerifC17Transient(h *verifh.H) {
	maxN := h.Param("maxN", 5)
	n := h.Choice("n", maxN) + 1
	ents := vEntities(n)
	failing := map[string]bool{}
	for i := 0; i < n; i++ {
		if h.Param("permanent", 1) == 1 && h.Bool("fail"+strconv.Itoa(i)) {
			failing[ents[i].ID] = true
		}
	}
	transient := h.Choice("transientCall", 2*n+1) - 1 // -1: none
	hub := server.VerifNewHub(h)
	runner := vRunner(hub, 2, 2)
	sink := &vSink{failing: failing, failBatch: transient}
	handler := &vCountingHandler{inner: &LogFailingEntityHandler{MaxItems: 0, jobId: "j", jobTitle: "j"}}
	ws := &wrappedSink{s: sink, failingEntityHandlers: []failingEntityHandler{handler}, jobId: "j"}
	err := ws.processEntities(runner, ents)
	h.Assert(err == nil, "without maxItems the batch call returns nil")
	rej := map[string]int{}
	for _, id := range sink.rejected1 {
		rej[id]++
	}
	h.Assert(len(handler.reported) == len(sink.rejected1), "exactly the entities the sink rejected on their own are reported :: reported="+vJoinS(handler.reported)+" rejected="+vJoinS(sink.rejected1))
	for k, id := range sink.rejected1 {
		h.Assert(k < len(handler.reported) && handler.reported[k] == id, "rejected entities are reported in order")
	}
	for i := 0; i < n; i++ {
		id := ents[i].ID
		d := vCount(sink.delivered, ents[i])
		h.Assert(rej[id] <= 1, "no entity is offered on its own twice")
		if rej[id] == 0 {
			h.Assert(d == 1, "an entity the sink never rejected on its own is delivered exactly once :: id="+id+" delivered="+strconv.Itoa(d)+" reported="+vJoinS(handler.reported))
		} else {
			h.Assert(d == 0, "a rejected entity is not delivered as well")
		}
	}
	h.Assert((ws.lastError != nil) == (len(sink.rejected1) > 0), "the outcome carries an error iff an entity was rejected")
	h.Observe("delivered", len(sink.delivered))
}

// VerifC17Run: one run of the wrapped sink over two successive batches (as the
// pipeline delivers them, no reset in between) with a symbolic permanently
// failing subset: every non-failing entity of both batches is delivered
// exactly once, every failing one reported exactly once, and the outcome of
// the run (lastError, which decides the recorded result and the reRun
// handler) carries the error iff anything was rejected in the run — also when
// the rejection happened in the first batch and the second went through
// untouched.
func VerifC17Run(h *verifh.H) {
	maxN := h.Param("maxN", 3)
	n1 := h.Choice("n1", maxN) + 1
	n2 := h.Choice("n2", maxN) + 1
	ents := vEntities(n1 + n2)
	failing := map[string]bool{}
	nfail := 0
	for i := range ents {
		if h.Bool("fail" + strconv.Itoa(i)) {
			failing[ents[i].ID] = true
			nfail++
		}
	}
	hub := server.VerifNewHub(h)
	runner := vRunner(hub, 2, 2)
	sink := &vSink{failing: failing, failBatch: -1}
	handler := &vCountingHandler{inner: &LogFailingEntityHandler{MaxItems: 0, jobId: "j", jobTitle: "j"}}
	ws := &wrappedSink{s: sink, failingEntityHandlers: []failingEntityHandler{handler}, jobId: "j"}
	ws.reset()
	h.Assert(ws.processEntities(runner, ents[:n1]) == nil, "first batch returns nil")
	h.Assert(ws.processEntities(runner, ents[n1:]) == nil, "second batch returns nil")
	for i := range ents {
		d := vCount(sink.delivered, ents[i])
		if failing[ents[i].ID] {
			h.Assert(d == 0, "a rejected entity is not delivered")
		} else {
			h.Assert(d == 1, "every other entity of the run is delivered exactly once")
		}
	}
	h.Assert(len(handler.reported) == nfail, "each rejected entity is reported exactly once")
	le := "nil"
	if ws.lastError != nil {
		le = ws.lastError.Error()
	}
	h.Assert((ws.lastError != nil) == (nfail > 0), "the outcome of the run carries the error iff an entity was rejected in any of its batches :: lastError="+le+" rejected="+strconv.Itoa(nfail)+" n1="+strconv.Itoa(n1)+" n2="+strconv.Itoa(n2)+" reported="+vJoinS(handler.reported))
	h.Observe("reported", len(handler.reported))
}

// VerifC17Kill: a job with a log handler and a reRun handler (through the real
// verify/toTriggeredJobs/Run/handleJobError path). The sink rejects the first
// entity or not; the job is killed (Runner.killJob, as Scheduler.KillJob does)
// while one of the later batches is being delivered, or not at all; pending
// timers then fire. After a kill the job is not re-executed at all; after a
// run that ended with a rejection it is re-executed at most maxRetries times;
// after a clean run not at all.
func VerifC17Kill(h *verifh.H) {
	hub := server.VerifNewHub(h)
	_, _ = hub.Dsm.CreateDataset("src", nil)
	_, _ = hub.Dsm.CreateDataset("dst", nil)
	runner := vRunner(hub, 1, 1)
	sch := &Scheduler{Logger: hub.Env.Logger, Store: hub.Store, Runner: runner, DatasetManager: hub.Dsm}
	maxRetries := 1 + h.Choice("maxRetries", 2)
	trig := JobTrigger{TriggerType: TriggerTypeCron, JobType: JobTypeIncremental, Schedule: "@every 60s",
		ErrorHandlers: []*ErrorHandler{{Type: "log"}, {Type: "reRun", MaxRetries: maxRetries, RetryDelay: 1}}}
	cfg := &JobConfiguration{ID: "job-1", Title: "job one",
		Source:   map[string]interface{}{"Type": "DatasetSource", "Name": "src"},
		Sink:     map[string]interface{}{"Type": "DatasetSink", "Name": "dst"},
		Triggers: []JobTrigger{trig}}
	h.Assert(sch.verify(cfg) == nil, "definition accepted")
	jobs, err := sch.toTriggeredJobs(cfg)
	h.Assert(err == nil && len(jobs) == 1, "one job")
	if err != nil || len(jobs) != 1 {
		return
	}
	j := jobs[0]
	ents := vEntities(3)
	src := &vSource{batches: [][]*server.Entity{{ents[0]}, {ents[1]}, {ents[2]}}, failAt: -1}
	sink := &vSink{failBatch: -1, failing: map[string]bool{}}
	rejects := h.Choice("rejects", 2) == 1
	if rejects {
		sink.failing[ents[0].ID] = true
	}
	killAt := h.Choice("killAt", 3) // 0 never; 1, 2: while that (successful) sink call is being delivered
	killed := false
	sink.killAt = killAt
	overlapped := false
	switch ev := h.Choice("event", 3); {
	case ev == 0:
		sink.kill = func() { killed = true; runner.killJob("job-1") }
	case ev == 2:
		// the job is killed twice (an impatient operator), and a trigger of the same job arrives
		// while the killed run is still winding down: it is refused, the job id never runs twice at once
		sink.kill = func() {
			killed = true
			runner.killJob("job-1")
			runner.killJob("job-1")
			before := src.reads
			j.Run()
			overlapped = src.reads > before
		}
	default:
		// instead of a kill, another trigger of the same job arrives while it runs (a cron tick,
		// an on-change event): it is refused and must not disturb the run in flight
		sink.kill = func() { j.Run() }
	}
	j.pipeline.spec().source = src
	j.pipeline.spec().sink = sink
	j.pipeline.spec().batchSize = 1
	runs := 1
	j.Run()
	res := &jobResult{}
	h.Assert(hub.Store.GetObject(server.JobResultIndex, "job-1", res) == nil && res.ID == "job-1", "run result stored")
	if !killed {
		h.Assert((res.LastError != "") == rejects, "the recorded outcome carries the error iff an entity was rejected :: lastError="+res.LastError+" rejects="+strconv.FormatBool(rejects))
	}
	for k := 0; k < 4; k++ {
		if !h.FireTimer("rerun", 2500*time.Millisecond) {
			break
		}
		runs++
	}
	h.Assert(len(runner.raffle.runningJobs) == 0, "run slot released")
	h.Assert(!overlapped, "a trigger arriving while a killed run of the same job id is still winding down is refused")
	h.Assert(runner.raffle.ticketsIncr == 1 && runner.raffle.ticketsFull == 1, "every ticket is back in the pool exactly once :: incr="+strconv.Itoa(runner.raffle.ticketsIncr)+" full="+strconv.Itoa(runner.raffle.ticketsFull))
	if killed {
		h.Assert(runs == 1, "a killed run is not re-executed :: runs="+strconv.Itoa(runs)+" rejects="+strconv.FormatBool(rejects))
	} else if rejects {
		h.Assert(runs-1 <= maxRetries, "a failed run is re-executed at most maxRetries times")
	} else {
		h.Assert(runs == 1, "a clean run is not re-executed")
	}
	h.Observe("runs", runs)
}

// VerifC17TwoRuns: the same job object (log handler + reRun handler, with or
// without a transform in the pipeline, through the real
// verify/toTriggeredJobs/Run path) runs twice. In the first run the sink
// rejects one entity or none; the second run (started by the reRun timer or by
// the next trigger) reads one more entity, which the sink accepts or rejects.
// Each run's recorded outcome carries an error iff an entity was rejected in
// THAT run, each rejected entity is reported once per run it was rejected in,
// every accepted entity is delivered, and after a clean run nothing is
// re-executed.
func VerifC17TwoRuns(h *verifh.H) {
	hub := server.VerifNewHub(h)
	_, _ = hub.Dsm.CreateDataset("src", nil)
	_, _ = hub.Dsm.CreateDataset("dst", nil)
	runner := vRunner(hub, 1, 1)
	sch := &Scheduler{Logger: hub.Env.Logger, Store: hub.Store, Runner: runner, DatasetManager: hub.Dsm}
	trig := JobTrigger{TriggerType: TriggerTypeCron, JobType: JobTypeIncremental, Schedule: "@every 60s",
		ErrorHandlers: []*ErrorHandler{{Type: "log"}, {Type: "reRun", MaxRetries: 1, RetryDelay: 1}}}
	cfg := &JobConfiguration{ID: "job-1", Title: "job one",
		Source:   map[string]interface{}{"Type": "DatasetSource", "Name": "src"},
		Sink:     map[string]interface{}{"Type": "DatasetSink", "Name": "dst"},
		Triggers: []JobTrigger{trig}}
	h.Assert(sch.verify(cfg) == nil, "definition accepted")
	jobs, err := sch.toTriggeredJobs(cfg)
	h.Assert(err == nil && len(jobs) == 1, "one job")
	if err != nil || len(jobs) != 1 {
		return
	}
	j := jobs[0]
	ents := vEntities(3)
	src := &vSource{batches: [][]*server.Entity{{ents[0]}, {ents[1]}}, failAt: -1}
	sink := &vSink{failBatch: -1, failing: map[string]bool{}}
	reject1 := h.Choice("reject1", 2) == 1
	reject2 := h.Choice("reject2", 2) == 1
	if reject1 {
		sink.failing[ents[0].ID] = true
	}
	j.pipeline.spec().source = src
	j.pipeline.spec().sink = sink
	j.pipeline.spec().batchSize = 1
	if h.Choice("withTransform", 2) == 1 {
		j.pipeline.spec().transform = &vTransform{par: 1}
	}
	j.Run()
	res := &jobResult{}
	h.Assert(hub.Store.GetObject(server.JobResultIndex, "job-1", res) == nil && res.ID == "job-1", "run result stored")
	h.Assert((res.LastError != "") == reject1, "the first run's recorded outcome carries the error iff an entity was rejected in it :: lastError="+res.LastError)
	switch extra := h.Choice("extra", 3); {
	case extra == 1 && reject1:
		// before the reRun timer of the failed run fires, another trigger runs the job and fails
		// again: however the failures and timers interleave, the job is re-executed at most
		// maxRetries (1) times in all
		src.batches = append(src.batches, []*server.Entity{ents[2]})
		sink.failing[ents[2].ID] = true
		j.Run()
		reruns := 0
		for k := 0; k < 4; k++ {
			if !h.FireTimer("rerun", 2500*time.Millisecond) {
				break
			}
			reruns++
		}
		h.Assert(reruns <= 1, "a job with maxRetries 1 is re-executed at most once, also when a second failing run ends while the first retry is waiting :: reruns="+strconv.Itoa(reruns))
		h.Assert(len(runner.raffle.runningJobs) == 0 && runner.raffle.ticketsIncr == 1, "run slot released")
		h.Observe("second", true)
		return
	case extra == 2 && reject1:
		// the job is deleted while its reRun timer is pending; the timer then fires (or not)
		h.Assert(hub.Store.StoreObject(server.JobConfigIndex, "job-1", cfg) == nil, "definition stored")
		h.Assert(sch.DeleteJob("job-1") == nil, "delete accepted")
		_ = h.FireTimer("rerun", 2500*time.Millisecond)
		h.Assert(len(runner.raffle.runningJobs) == 0, "a deleted job leaves no run registered as running")
		h.Assert(runner.raffle.ticketsIncr == 1 && runner.raffle.ticketsFull == 1, "a deleted job leaves every ticket in the pool :: incr="+strconv.Itoa(runner.raffle.ticketsIncr))
		h.Observe("second", false)
		return
	case extra != 0:
		h.Assume(false)
	}
	// before the second run one more entity arrives; the one rejected before is not offered again
	// (the token moved past it), the new one is accepted or rejected
	src.batches = append(src.batches, []*server.Entity{ents[2]})
	delete(sink.failing, ents[0].ID)
	if reject2 {
		sink.failing[ents[2].ID] = true
	}
	before := len(sink.delivered)
	if reject1 {
		// the reRun timer fires (whether a pending timer fires is a choice of the explorer; the
		// paths on which it does not are not followed further)
		if !h.FireTimer("rerun", 2500*time.Millisecond) {
			h.Assume(false)
			return
		}
	} else {
		h.Assert(!h.FireTimer("rerun", 2500*time.Millisecond), "a clean run is not re-executed")
		j.Run() // the next trigger
	}
	res2 := &jobResult{}
	h.Assert(hub.Store.GetObject(server.JobResultIndex, "job-1", res2) == nil, "second run result stored")
	h.Assert((res2.LastError != "") == reject2, "the second run's recorded outcome carries the error iff an entity was rejected in that run :: lastError="+res2.LastError+" reject1="+strconv.FormatBool(reject1)+" reject2="+strconv.FormatBool(reject2))
	if !reject2 {
		h.Assert(len(sink.delivered) == before+1, "the second run delivers the new entity")
		h.Assert(!h.FireTimer("rerun2", 2500*time.Millisecond), "nothing is re-executed after a clean run")
	}
	h.Assert(len(runner.raffle.runningJobs) == 0, "run slot released")
	h.Observe("second", res2.LastError != "")
}

// VerifC17Sources: the recorded outcome of a run does not depend on the kind of
// source the entities come from. A job with a log handler (maxItems 0, 1 or 2)
// reads three entities through a DatasetSource or through a
// UnionDatasetSource over two datasets (real verify/toTriggeredJobs/Run path,
// batch size 1 or 2); the sink rejects a symbolic subset. The stored run
// result carries the sink's error iff an entity was rejected — also when the
// run was stopped by maxItems, whose stop marker is never what is recorded —
// every entity delivered was not rejected, and the run slot is released.
func VerifC17Sources(h *verifh.H) {
	hub := server.VerifNewHub(h)
	s1, _ := hub.Dsm.CreateDataset("src", nil)
	s2, _ := hub.Dsm.CreateDataset("src2", nil)
	_, _ = hub.Dsm.CreateDataset("dst", nil)
	ents := vEntities(3)
	union := h.Choice("union", 2) == 1
	if union {
		h.Assert(s1.StoreEntities(ents[:2]) == nil && s2.StoreEntities(ents[2:]) == nil, "sources written")
	} else {
		h.Assert(s1.StoreEntities(ents) == nil, "source written")
	}
	runner := vRunner(hub, 1, 1)
	sch := &Scheduler{Logger: hub.Env.Logger, Store: hub.Store, Runner: runner, DatasetManager: hub.Dsm}
	maxItems := h.Choice("maxItems", 3)
	trig := JobTrigger{TriggerType: TriggerTypeCron, JobType: JobTypeIncremental, Schedule: "@every 60s",
		ErrorHandlers: []*ErrorHandler{{Type: "log", MaxItems: maxItems}}}
	cfg := &JobConfiguration{ID: "job-1", Title: "job one",
		Source:   map[string]interface{}{"Type": "DatasetSource", "Name": "src"},
		Sink:     map[string]interface{}{"Type": "DatasetSink", "Name": "dst"},
		Triggers: []JobTrigger{trig}}
	if union {
		cfg.Source = map[string]interface{}{"Type": "UnionDatasetSource", "DatasetSources": []interface{}{
			map[string]interface{}{"Type": "DatasetSource", "Name": "src"}, map[string]interface{}{"Type": "DatasetSource", "Name": "src2"}}}
	}
	h.Assert(sch.verify(cfg) == nil, "definition accepted")
	jobs, err := sch.toTriggeredJobs(cfg)
	h.Assert(err == nil && len(jobs) == 1, "one job")
	if err != nil || len(jobs) != 1 {
		return
	}
	j := jobs[0]
	sink := &vSink{failBatch: -1, failing: map[string]bool{}}
	nfail := 0
	for i := range ents {
		if h.Bool("fail" + strconv.Itoa(i)) {
			sink.failing[ents[i].ID] = true
			nfail++
		}
	}
	j.pipeline.spec().sink = sink
	j.pipeline.spec().batchSize = 1 + h.Choice("batchSize", 2)
	j.Run()
	res := &jobResult{}
	h.Assert(hub.Store.GetObject(server.JobResultIndex, "job-1", res) == nil && res.ID == "job-1", "run result stored")
	sinkErr := len(res.LastError) >= 12 && res.LastError[:12] == "sink rejects"
	h.Assert((res.LastError != "") == (nfail > 0), "the recorded outcome carries an error iff an entity was rejected :: lastError="+res.LastError+" rejected="+strconv.Itoa(nfail))
	if nfail > 0 {
		h.Assert(sinkErr, "the error recorded is the sink's, whatever the source and also when maxItems stopped the run :: lastError="+res.LastError)
	}
	for _, e := range sink.delivered {
		h.Assert(!sink.failing[e.ID], "a rejected entity is not delivered")
	}
	h.Assert(len(runner.raffle.runningJobs) == 0 && runner.raffle.ticketsIncr == 1, "run slot released")
	h.Observe("lastError", res.LastError)
}
