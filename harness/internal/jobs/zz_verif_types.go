//go:build verif

package jobs

import (
	"sync"

	"github.com/bamzi/jobrunner"
	"github.com/robfig/cron/v3"
)

type cronEntryID = cron.EntryID

var vCronOnce sync.Once

func vStartCron() { vCronOnce.Do(func() { jobrunner.Start(4, 1) }) }
