//go:build verif

package jobs

import (
	"github.com/mimiro-io/datahub/internal/server"
	"github.com/mimiro-io/datahub/internal/verifh"
)

func vRenderJobs(s *Scheduler) string {
	out := ""
	for _, c := range s.ListJobs() {
		out += "{" + c.ID + "|" + c.Title + "|paused=" + vb(c.Paused) + "|batch=" + itoa(c.BatchSize)
		for _, t := range c.Triggers {
			out += "|trig=" + t.TriggerType + "/" + t.JobType + "/" + t.Schedule + "/" + t.MonitoredDataset
			for _, eh := range t.ErrorHandlers {
				out += "|eh=" + eh.Type + "/" + itoa(eh.MaxRetries) + "/" + itoa64(eh.RetryDelay) + "/" + itoa(eh.MaxItems)
			}
		}
		st, err := s.GetJobState(c.ID)
		if err == nil && st != nil {
			out += "|token=" + st.ContinuationToken
		}
		out += "}"
	}
	return out
}

func vb(b bool) string {
	if b {
		return "true"
	}
	return "false"
}

func itoa64(n int64) string {
	if n == 0 {
		return "0"
	}
	neg := n < 0
	u := uint64(n)
	if neg {
		u = uint64(-n)
	}
	s := ""
	for u > 0 {
		s = string(rune('0'+u%10)) + s
		u /= 10
	}
	if neg {
		s = "-" + s
	}
	return s
}

func itoa(n int) string { return itoa64(int64(n)) }

// VerifC14Jobs: job definitions with their paused flags, error handlers and
// continuation tokens are the same after the hub is stopped and started
// (Scheduler.Start re-adds every stored definition).
func VerifC14Jobs(h *verifh.H) {
	if !h.Symbolic() {
		vStartCron() // natively the cron registry must exist; under gosx registration is a stub
	}
	hub := server.VerifNewHub(h)
	_, _ = hub.Dsm.CreateDataset("src", nil)
	_, _ = hub.Dsm.CreateDataset("dst", nil)
	sch := &Scheduler{Logger: hub.Env.Logger, Store: hub.Store, Runner: vRunner(hub, 1, 1), DatasetManager: hub.Dsm}
	sch.Runner.scheduledJobs = map[string][]cronEntryID{}
	trig := JobTrigger{JobType: JobTypeIncremental, Schedule: "@every 60s", MonitoredDataset: "src"}
	if h.Choice("onchange", 2) == 1 {
		trig.TriggerType = TriggerTypeOnChange
	} else {
		trig.TriggerType = TriggerTypeCron
	}
	switch h.Choice("handlers", 3) {
	case 1:
		trig.ErrorHandlers = append(trig.ErrorHandlers, &ErrorHandler{Type: "log", MaxItems: 3})
	case 2:
		trig.ErrorHandlers = append(trig.ErrorHandlers, &ErrorHandler{Type: "reRun", MaxRetries: 2, RetryDelay: 5})
	}
	cfg := &JobConfiguration{
		ID: "job-1", Title: "job one", Paused: h.Choice("paused", 2) == 1,
		Source:   map[string]interface{}{"Type": "DatasetSource", "Name": "src"},
		Sink:     map[string]interface{}{"Type": "DatasetSink", "Name": "dst"},
		Triggers: []JobTrigger{trig},
	}
	switch h.Choice("source", 3) {
	case 1:
		// a union of two datasets whose member sources are given without their type (it defaults)
		_, _ = hub.Dsm.CreateDataset("src2", nil)
		cfg.Source = map[string]interface{}{"Type": "UnionDatasetSource", "DatasetSources": []interface{}{
			map[string]interface{}{"Name": "src"}, map[string]interface{}{"Name": "src2"}}}
	case 2:
		cfg.Source = map[string]interface{}{"Type": "DatasetSource", "Name": "src", "LatestOnly": true}
	}
	h.Assert(sch.AddJob(cfg) == nil, "definition accepted")
	if h.Choice("withToken", 2) == 1 {
		h.Assert(hub.Store.StoreObject(server.JobDataIndex, "job-1", &SyncJobState{ID: "job-1", ContinuationToken: "7"}) == nil, "token stored")
	}
	before := vRenderJobs(sch)
	hub2 := hub.Restart()
	sch2 := &Scheduler{Logger: hub2.Env.Logger, Store: hub2.Store, Runner: vRunner(hub2, 1, 1), DatasetManager: hub2.Dsm}
	sch2.Runner.scheduledJobs = map[string][]cronEntryID{}
	h.Assert(sch2.Start(nil) == nil, "scheduler starts")
	after := vRenderJobs(sch2)
	h.Assert(before == after, "job definitions, paused flags, handlers and tokens are the same after a restart :: before="+before+" after="+after)
	h.Observe("before", before)
}
