//go:build verif

package jobs

import (
	"context"
	egdm "github.com/mimiro-io/entity-graph-data-model"

	"github.com/mimiro-io/datahub/internal/server"
	"github.com/mimiro-io/datahub/internal/verifh"
)

// VerifC10Partition: IncrementalPipeline.sync with a transform hands every
// source entity to the transform exactly once and everything the transform
// returns reaches the sink in source order, for every (n, parallelism).
//
// n is case-split (slices have concrete length per path); the parallelism is
// symbolic, so math.Round(float64(n)/float64(p)) is an FP term and the solver
// picks the parallelism values for which chunks overlap, fall short or go
// negative.
func VerifC10Partition(h *verifh.H) {
	maxN := h.Param("maxN", 12)
	maxP := h.Param("maxP", 8)
	n := h.Choice("n", maxN) + 1
	p := h.Int("p", 1, maxP)
	mode := h.Choice("mode", h.Param("modes", 1))
	// known finding C10-round (see known_findings.json): the chunk size is
	// round(n/p); when it is not ceil(n/p) the tail is dropped or a later chunk
	// starts beyond the batch.
	hub := server.VerifNewHub(h)
	runner := vRunner(hub, 2, 2)
	ents := vEntities(n)
	if h.Param("repeatIds", 0) == 1 && n >= 2 && h.Choice("repeat", 2) == 1 {
		// a change feed page can hold several versions of one entity: the last source entity is a
		// later version of the first (same id, other content); both reach the transform and the sink
		ents[n-1] = server.NewEntity(ents[0].ID, 0)
		ents[n-1].Properties["ns0:v"] = "later"
	}
	src := &vSource{batches: [][]*server.Entity{ents}, failAt: -1}
	tr := &vTransform{par: p, mode: mode}
	if h.Param("sched", 0) == 1 {
		// the order in which the parallel workers finish is arbitrary: a symbolic choice under
		// gosx; natively the worker holding the first entity is slowed down
		h.SymbolicSched(0)
		if !h.Symbolic() {
			tr.slowHead = ents[0]
		}
	}
	sink := &vSink{failBatch: -1}
	pl := &IncrementalPipeline{PipelineSpec{source: src, sink: sink, transform: tr, batchSize: n}}
	j := &job{id: "job-c10", title: "c10", pipeline: pl, runner: runner}
	_, err := pl.sync(j, context.Background())
	h.Assert(err == nil, "pipeline run succeeds")
	// every source entity reaches the transform exactly once
	for i := 0; i < n; i++ {
		h.Assert(vCount(tr.seen, ents[i]) == 1, "each source entity is transformed exactly once")
	}
	h.Assert(len(tr.seen) == n, "transform sees exactly the source entities")
	// every entity the transform returns reaches the sink, in source order
	switch mode {
	case 0:
		h.Assert(vSameSeq(sink.delivered, ents), "identity transform: sink receives the source batch in order")
	case 1:
		h.Assert(len(sink.delivered) == 0, "dropping transform: nothing reaches the sink")
	case 2:
		ok := len(sink.delivered) == 2*n
		for i := 0; ok && i < n; i++ {
			ok = sink.delivered[2*i] == ents[i] && sink.delivered[2*i+1] == ents[i]
		}
		h.Assert(ok, "duplicating transform: sink receives each entity twice in order")
	case 3:
		// every source entity and every created entity reaches the sink exactly once
		for i := 0; i < n; i++ {
			h.Assert(vCount(sink.delivered, ents[i]) == 1, "appending transform: every source entity reaches the sink exactly once")
		}
		for _, c := range tr.created {
			h.Assert(vCount(sink.delivered, c) == 1, "appending transform: every created entity reaches the sink exactly once")
		}
		h.Assert(len(sink.delivered) == n+len(tr.created), "appending transform: nothing else reaches the sink")
	}
	h.Observe("delivered", len(sink.delivered))
}

// VerifC10FullSync: the fullsync pipeline applies the transform to whole
// batches (no partitioning) — same exactly-once/in-order obligations, over
// two source batches.
func VerifC10FullSync(h *verifh.H) {
	maxN := h.Param("maxN", 4)
	n1 := h.Choice("n1", maxN) + 1
	n2 := h.Choice("n2", maxN+1)
	p := h.Int("p", 1, h.Param("maxP", 8))
	hub := server.VerifNewHub(h)
	runner := vRunner(hub, 2, 2)
	all := vEntities(n1 + n2)
	batches := [][]*server.Entity{all[:n1]}
	if n2 > 0 {
		batches = append(batches, all[n1:])
	}
	src := &vSource{batches: batches, failAt: -1}
	tr := &vTransform{par: p}
	sink := &vSink{failBatch: -1}
	pl := &FullSyncPipeline{PipelineSpec{source: src, sink: sink, transform: tr, batchSize: maxN}}
	j := &job{id: "job-c10f", title: "c10f", pipeline: pl, runner: runner}
	_, err := pl.sync(j, context.Background())
	h.Assert(err == nil, "fullsync run succeeds")
	h.Assert(vSameSeq(tr.seen, all), "transform sees every entity once, in order")
	h.Assert(vSameSeq(sink.delivered, all), "sink receives every entity once, in order")
	h.Assert(sink.fsStart == 1 && sink.fsEnd == 1, "sink fullsync bracket")
	h.Assert(tr.ended == 1, "transform store context ended once")
}

// VerifC10Pages: a run over several source pages where the transform, page by
// page, passes, drops or duplicates what it is given (parallelism 1): every
// source entity of every page reaches the transform exactly once, in order,
// and the sink receives exactly what the transform returned, in order — a page
// whose transform result is empty does not end the run.
func VerifC10Pages(h *verifh.H) {
	pages := 1 + h.Choice("pages", h.Param("maxPages", 3))
	per := h.Param("perPage", 2)
	full := h.Choice("fullsync", 2) == 1
	// transform parallelism, and the size of the last page (a last page shorter than the
	// parallelism makes the pipeline fall back to one worker for that page only)
	par := 1 + h.Choice("par", h.Param("maxPar", 1))
	lastSize := per
	if h.Param("shortLast", 0) == 1 {
		lastSize = 1 + h.Choice("lastSize", per)
	}
	hub := server.VerifNewHub(h)
	runner := vRunner(hub, 2, 2)
	all := vEntities(pages * per)
	var batches [][]*server.Entity
	var modes []int
	var want []*server.Entity
	modeOf := map[string]int{}
	for k := 0; k < pages; k++ {
		page := all[k*per : (k+1)*per]
		if k == pages-1 {
			page = all[k*per : k*per+lastSize]
		}
		batches = append(batches, page)
		m := h.Choice("mode", 3)
		modes = append(modes, m)
		for _, e := range page {
			modeOf[e.ID] = m
		}
		switch m {
		case 0:
			want = append(want, page...)
		case 2:
			for _, e := range page {
				want = append(want, e, e)
			}
		}
	}
	src := &vSource{batches: batches, failAt: -1}
	tr := &vTransform{par: par, modeOf: modeOf}
	_ = modes
	sink := &vSink{failBatch: -1}
	spec := PipelineSpec{source: src, sink: sink, transform: tr, batchSize: per}
	var pl Pipeline = &IncrementalPipeline{spec}
	if full {
		pl = &FullSyncPipeline{spec}
	}
	j := &job{id: "job-c10p", title: "c10p", pipeline: pl, runner: runner}
	_, err := pl.sync(j, context.Background())
	h.Assert(err == nil, "run succeeds")
	var src2 []*server.Entity
	for _, b := range batches {
		src2 = append(src2, b...)
	}
	if par == 1 {
		h.Assert(vSameSeq(tr.seen, src2), "every entity of every page is transformed exactly once, in order")
	} else {
		// parallel workers see their chunks in any order: each source entity exactly once
		for _, e := range src2 {
			h.Assert(vCount(tr.seen, e) == 1, "every entity of every page is transformed exactly once")
		}
		h.Assert(len(tr.seen) == len(src2), "the transform sees exactly the source entities")
	}
	h.Assert(vSameSeq(sink.delivered, want), "the sink receives exactly what the transform returned, in order")
	h.Observe("delivered", len(sink.delivered))
}

// VerifC10Egdm: the conversion every entity returned by an HTTP transform with
// SupportContext goes through (convertEgdmEntityToServerEntity): id,
// properties, references and the deleted flag of what the transform returned
// are what reaches the sink — for symbolic ids and values and either deleted
// flag, so an identity transform stays a plain copy also for tombstones.
func VerifC10Egdm(h *verifh.H) {
	src := &egdm.Entity{Properties: map[string]interface{}{}, References: map[string]interface{}{}}
	src.ID = "ns0:" + h.StrOver("id", 1+h.Choice("idLen", 2), "ab")
	src.IsDeleted = h.Bool("deleted")
	if h.Choice("hasProp", 2) == 1 {
		src.Properties["ns0:v"] = h.StrOver("v", 1, "xy")
	}
	if h.Choice("hasRef", 2) == 1 {
		src.References["ns0:r"] = "ns0:" + h.StrOver("t", 1, "ab")
	}
	got := convertEgdmEntityToServerEntity(src)
	h.Assert(got != nil, "converted")
	h.Assert(h.StrEq(got.ID, src.ID), "the id is the one the transform returned")
	h.Assert(got.IsDeleted == src.IsDeleted, "the deleted flag is the one the transform returned")
	h.Assert(len(got.Properties) == len(src.Properties) && len(got.References) == len(src.References), "no property or reference is lost or invented")
	if v, ok := src.Properties["ns0:v"]; ok {
		gv, _ := got.Properties["ns0:v"].(string)
		h.Assert(h.StrEq(gv, v.(string)), "property values are the ones the transform returned")
	}
	if r, ok := src.References["ns0:r"]; ok {
		gr, _ := got.References["ns0:r"].(string)
		h.Assert(h.StrEq(gr, r.(string)), "reference values are the ones the transform returned")
	}
	h.Observe("deleted", got.IsDeleted)
}

// VerifC10HttpTransform: a job whose transform is an HttpTransform talking to a
// scripted remote. The source hands out two pages of one entity each; each of
// the first three requests to the transform service is answered with the page
// back (200) or with a 5xx/4xx failure, drawn independently. Each source
// entity is passed to the transform exactly once per run: the service receives
// one request per page handed out (a run that meets a failure ends there and
// reports it), never the same page twice within a run; and what the service
// returned reaches the sink in source order.
func VerifC10HttpTransform(h *verifh.H) {
	hub := server.VerifNewHub(h)
	ents := vEntities(2)
	src := &vSource{batches: [][]*server.Entity{{ents[0]}, {ents[1]}}, failAt: -1, oneShot: true}
	sink := &vSink{failBatch: -1, failing: map[string]bool{}}
	page := func(e *server.Entity) string {
		return `[{"id":"` + e.ID + `","refs":{},"props":{"ns0:seen":"yes"}}]`
	}
	var script []string
	firstFail := -1
	for k := 0; k < 3; k++ {
		switch h.Choice("answer", 3) {
		case 0:
			script = append(script, "OK")
		case 1:
			script = append(script, "!503 restarting")
			if firstFail < 0 {
				firstFail = k
			}
		case 2:
			script = append(script, "!429 slow down")
			if firstFail < 0 {
				firstFail = k
			}
		}
	}
	// without a failure request k is page k; a run ends at its first failure, so answers after it are never asked for
	for k := range script {
		if script[k] == "OK" {
			if k < 2 {
				script[k] = page(ents[k])
			} else {
				script[k] = "[]"
			}
		}
	}
	url := h.Remote(script...)
	tr := &HTTPTransform{URL: url, TimeOut: 1}
	pl := &IncrementalPipeline{PipelineSpec{source: src, sink: sink, transform: tr, batchSize: 1}}
	j := &job{id: "t-job", title: "t-job", pipeline: pl, runner: vRunner(hub, 1, 1)}
	_, err := pl.sync(j, context.Background())
	requests := len(h.RemoteLog())
	pages := len(src.emitted)
	h.Assert(requests == pages, "the transform service receives one request per page handed out by the source, never a page twice within a run :: requests="+itoa(requests)+" pages="+itoa(pages))
	if firstFail >= 0 && firstFail < 2 {
		h.Assert(err != nil, "a run whose transform failed reports the failure")
		h.Assert(len(sink.delivered) == firstFail, "what was transformed before the failure reached the sink, nothing else :: delivered="+itoa(len(sink.delivered)))
	} else {
		h.Assert(err == nil, "run succeeds")
		h.Assert(len(sink.delivered) == 2 && sink.delivered[0].ID == ents[0].ID && sink.delivered[1].ID == ents[1].ID, "every entity the transform returned reaches the sink, in source order")
	}
	h.Observe("requests", requests)
}
