//go:build verif

package jobs

import (
	"context"
	"errors"
	"strconv"
	"sync"
	"time"

	"github.com/DataDog/datadog-go/v5/statsd"

	jobSource "github.com/mimiro-io/datahub/internal/jobs/source"
	"github.com/mimiro-io/datahub/internal/server"
	"github.com/mimiro-io/datahub/internal/verifh"
)

// vRunner builds a Runner directly (NewRunner would start the cron pool).
func vRunner(hub *server.VHub, poolFull, poolIncr int) *Runner {
	logger := hub.Env.Logger
	sc := &statsd.NoOpClient{}
	return &Runner{
		logger:       logger,
		store:        hub.Store,
		statsdClient: sc,
		raffle:       NewRaffle(poolFull, poolIncr, logger, sc),
		eventBus:     server.NoOpBus(),
	}
}

// vSource is a scripted tokenised source: batch i carries token i+1; after the
// last batch an empty batch with the final token is delivered (as the dataset
// source does when nothing is left).
type vSource struct {
	batches [][]*server.Entity
	failAt  int // ReadEntities returns an error before delivering batch failAt (-1: never)
	reads   int
	fsStart int
	fsEnd   int
	emitted []int // indices of batches handed to the pipeline
	oneShot bool  // deliver one batch per ReadEntities call (like DatasetSource)
}

func (s *vSource) GetConfig() map[string]interface{} {
	return map[string]interface{}{"Type": "VerifSource"}
}
func (s *vSource) StartFullSync() { s.fsStart++ }
func (s *vSource) EndFullSync()   { s.fsEnd++ }
func (s *vSource) ReadEntities(ctx context.Context, since jobSource.DatasetContinuation, batchSize int,
	processEntities func([]*server.Entity, jobSource.DatasetContinuation) error) error {
	s.reads++
	start := int(since.AsIncrToken())
	if start >= len(s.batches) {
		return processEntities(nil, &jobSource.StringDatasetContinuation{Token: strconv.Itoa(start)})
	}
	if start == s.failAt {
		return errors.New("source failure")
	}
	s.emitted = append(s.emitted, start)
	return processEntities(s.batches[start], &jobSource.StringDatasetContinuation{Token: strconv.Itoa(start + 1)})
}

// vTransform records what it sees. mode: 0 identity, 1 drop all, 2 duplicate.
type vTransform struct {
	par   int
	mode  int
	seen  []*server.Entity
	calls int
	ended int
	fail  bool
	modes []int // per call mode (overrides mode when set)
	// modeOf: mode by the id of the first entity of the call (overrides both; for runs whose
	// pages are split over parallel workers, where the call number does not tell the page)
	modeOf  map[string]int
	mu      sync.Mutex
	created []*server.Entity
	// slowHead: natively, the call that is handed the first source entity takes longer than the
	// others, so that a later chunk's worker finishes first (under gosx the completion order of
	// the workers is a scheduling choice and the delay has no effect)
	slowHead *server.Entity
}

func (t *vTransform) GetConfig() map[string]interface{} {
	return map[string]interface{}{"Type": "VerifTransform"}
}
func (t *vTransform) getParallelism() int          { return t.par }
func (t *vTransform) EndStoreContext(string) error { t.ended++; return nil }
func (t *vTransform) transformEntities(runner *Runner, entities []*server.Entity, jobTag string) ([]*server.Entity, error) {
	t.mu.Lock()
	t.calls++
	calls := t.calls
	t.seen = append(t.seen, entities...)
	t.mu.Unlock()
	if t.slowHead != nil && len(entities) > 0 && entities[0] == t.slowHead {
		time.Sleep(40 * time.Millisecond)
	}
	if t.fail {
		return nil, errors.New("transform failure")
	}
	mode := t.mode
	if calls-1 < len(t.modes) {
		mode = t.modes[calls-1]
	}
	if t.modeOf != nil && len(entities) > 0 {
		mode = t.modeOf[entities[0].ID]
	}
	switch mode {
	case 1:
		return []*server.Entity{}, nil
	case 2:
		out := make([]*server.Entity, 0, 2*len(entities))
		for _, e := range entities {
			out = append(out, e, e)
		}
		return out, nil
	case 3:
		// grows the slice it was handed and returns it (what a JavaScript transform does
		// with entities.push(x)): one created entity per call
		created := server.NewEntity("ns0:created"+strconv.Itoa(calls), 0)
		t.mu.Lock()
		t.created = append(t.created, created)
		t.mu.Unlock()
		return append(entities, created), nil
	}
	return entities, nil
}

// vSink is an all-or-nothing sink: a batch containing an entity whose id is in
// failing is rejected as a whole; otherwise every entity is delivered.
type vSink struct {
	failing   map[string]bool
	failBatch int // reject the failBatch-th call (0-based) regardless of content; -1 never
	calls     int
	delivered []*server.Entity
	batches   [][]*server.Entity
	fsStart   int
	fsEnd     int
	typ       string
	rejected1 []string // ids of single-entity calls the sink rejected, in call order
	failAll   bool     // every call fails, also one with an empty batch (a sink whose target is gone)
	killAt    int      // after the killAt-th call (0-based, counted from 1: 0 = never) call kill
	kill      func()
}

func (s *vSink) GetConfig() map[string]interface{} {
	t := s.typ
	if t == "" {
		t = "VerifSink"
	}
	return map[string]interface{}{"Type": t}
}
func (s *vSink) startFullSync(runner *Runner) error { s.fsStart++; return nil }
func (s *vSink) endFullSync(ctx context.Context, runner *Runner) error {
	s.fsEnd++
	return nil
}
func (s *vSink) processEntities(runner *Runner, entities []*server.Entity) error {
	call := s.calls
	s.calls++
	if s.failAll {
		if len(entities) == 1 {
			s.rejected1 = append(s.rejected1, entities[0].ID)
		}
		return errors.New("sink target does not exist")
	}
	if call == s.failBatch {
		if len(entities) == 1 {
			s.rejected1 = append(s.rejected1, entities[0].ID)
		}
		return errors.New("sink failure")
	}
	for _, e := range entities {
		if s.failing[e.ID] {
			if len(entities) == 1 {
				s.rejected1 = append(s.rejected1, e.ID)
			}
			return errors.New("sink rejects " + e.ID)
		}
	}
	s.delivered = append(s.delivered, entities...)
	s.batches = append(s.batches, entities)
	if s.killAt > 0 && s.calls == s.killAt && s.kill != nil {
		s.kill()
	}
	return nil
}

func vEntities(n int) []*server.Entity {
	out := make([]*server.Entity, n)
	for i := range out {
		out[i] = server.NewEntity("ns0:e"+strconv.Itoa(i), 0)
	}
	return out
}

func vSameSeq(a, b []*server.Entity) bool {
	if len(a) != len(b) {
		return false
	}
	for i := range a {
		if a[i] != b[i] {
			return false
		}
	}
	return true
}

func vCount(list []*server.Entity, e *server.Entity) int {
	n := 0
	for _, x := range list {
		if x == e {
			n++
		}
	}
	return n
}

var _ = verifh.NewFromModel
