//go:build verif

package jobs

import (
	"context"
	"errors"
	"sort"
	"strconv"
	"time"

	"github.com/mimiro-io/datahub/internal/jobs/source"
	"github.com/mimiro-io/datahub/internal/server"
	"github.com/mimiro-io/datahub/internal/verifh"
)

// vFaultSink wraps the real dataset sink and rejects the failAt-th batch.
type vFaultSink struct {
	inner  Sink
	failAt int
	calls  int
	killAt int    // cancel the run's context after the killAt-th batch was written (-1: never)
	cancel func() // the job kill (context cancellation)
}

func (s *vFaultSink) GetConfig() map[string]interface{} { return s.inner.GetConfig() }
func (s *vFaultSink) startFullSync(r *Runner) error     { return s.inner.startFullSync(r) }
func (s *vFaultSink) endFullSync(c context.Context, r *Runner) error {
	return s.inner.endFullSync(c, r)
}
func (s *vFaultSink) processEntities(r *Runner, es []*server.Entity) error {
	c := s.calls
	s.calls++
	if c == s.failAt {
		return errors.New("injected sink failure")
	}
	err := s.inner.processEntities(r, es)
	if c == s.killAt && s.cancel != nil {
		s.cancel() // the job is killed while this batch is being delivered
	}
	return err
}

func vListing(hub *server.VHub, name string) []string {
	ds := hub.Dsm.GetDataset(name)
	if ds == nil {
		return nil
	}
	res, err := ds.GetEntities("", -1)
	if err != nil {
		return []string{"error"}
	}
	var out []string
	for _, e := range res.Entities {
		s := e.ID + "|del=" + vb(e.IsDeleted)
		if t, ok := e.Properties["ns0:tag"].(string); ok {
			s += "|tag=" + t
		}
		if r, ok := e.References["ns0:p1"].(string); ok {
			s += "|p1=" + r
		}
		out = append(out, s)
	}
	sort.Strings(out)
	return out
}

func vJoinS(xs []string) string {
	s := ""
	for i, x := range xs {
		if i > 0 {
			s += ","
		}
		s += x
	}
	return s
}

func vStoredToken(hub *server.VHub, jobID string) int {
	st := &SyncJobState{}
	_ = hub.Store.GetObject(server.JobDataIndex, jobID, st)
	if st.ContinuationToken == "" {
		return 0
	}
	n, _ := strconv.Atoi(st.ContinuationToken)
	return n
}

func vFeedLen(hub *server.VHub, name string) int {
	ch, err := hub.Dsm.GetDataset(name).GetChanges(0, 0, false)
	if err != nil {
		return -1
	}
	return len(ch.Entities)
}

// VerifC08Token: whatever fails — the sink at any batch, the source, or the
// process at any marked boundary — the persisted continuation token never
// points past a batch that is not in the sink; a fullsync stores no token
// unless it completed; the next clean run delivers the rest, and running again
// with nothing new changes nothing.
func VerifC08Token(h *verifh.H) {
	env := server.VerifConfig(h, time.Hour)
	nb := 1 + h.Choice("batches", h.Param("maxBatches", 2))
	failAt := h.Choice("sinkFail", nb+1) - 1 // -1: no sink failure
	full := h.Choice("fullsync", 2) == 1
	killAt := -1 // the run's context is cancelled (job kill) after batch killAt, or before the run (-2)
	if h.Param("kill", 0) == 1 {
		killAt = h.Choice("killAt", nb+2) - 2
	}
	mkBatches := func() [][]*server.Entity {
		var bs [][]*server.Entity
		for i := 0; i < nb; i++ {
			e := server.NewEntity("ns0:e"+itoa(i), 0)
			e.Properties["ns0:tag"] = "b" + itoa(i)
			bs = append(bs, []*server.Entity{e})
		}
		return bs
	}
	mkPipeline := func(hub *server.VHub, fail int) (Pipeline, *vFaultSink) {
		src := &vSource{batches: mkBatches(), failAt: -1}
		sink := &vFaultSink{inner: &datasetSink{DatasetName: "dst", Store: hub.Store, DatasetManager: hub.Dsm}, failAt: fail, killAt: -1}
		spec := PipelineSpec{source: src, sink: sink, batchSize: 1}
		if full {
			return &FullSyncPipeline{spec}, sink
		}
		return &IncrementalPipeline{spec}, sink
	}
	if h.BeforeCrash() {
		hub := server.VerifOpenHub(env)
		_, err := hub.Dsm.CreateDataset("dst", nil)
		h.Assert(err == nil, "create dst")
		if h.Param("firstRun", 0) == 1 {
			// an earlier run of the same job completed: the sink already holds everything and a
			// token is stored; the run under test (which may fail, be killed or crash) comes second
			pl0, _ := mkPipeline(hub, -1)
			j0 := &job{id: "job-1", title: "job-1", pipeline: pl0, runner: vRunner(hub, 1, 1)}
			_, err := pl0.sync(j0, context.Background())
			h.Assert(err == nil, "first run succeeds")
		}
		pl, sink := mkPipeline(hub, failAt)
		j := &job{id: "job-1", title: "job-1", pipeline: pl, runner: vRunner(hub, 1, 1)}
		ctx, cancel := context.WithCancel(context.Background())
		sink.killAt, sink.cancel = killAt, cancel
		if killAt == -2 {
			cancel()
		}
		if h.Param("commitPoints", 0) == 1 {
			h.CrashAtCommits()
		}
		h.CrashWindowStart()
		_, _ = pl.sync(j, ctx)
		cancel()
	}
	h.CrashAndRecover()
	hub := server.VerifOpenHub(env)
	token := vStoredToken(hub, "job-1")
	list := vJoinS(vListing(hub, "dst"))
	for i := 0; i < token; i++ {
		want := "ns0:e" + itoa(i) + "|del=false|tag=b" + itoa(i)
		h.Assert(vContains(vListing(hub, "dst"), want), "the stored token does not point past data missing from the sink :: token="+itoa(token)+" sink="+list)
	}
	if full && token > 0 {
		h.Assert(token == nb, "a fullsync stores its token only after it completed")
	}
	// next clean run restores equality
	pl2, _ := mkPipeline(hub, -1)
	j2 := &job{id: "job-1", title: "job-1", pipeline: pl2, runner: vRunner(hub, 1, 1)}
	_, err := pl2.sync(j2, context.Background())
	h.Assert(err == nil, "clean run succeeds")
	var all []string
	for i := 0; i < nb; i++ {
		all = append(all, "ns0:e"+itoa(i)+"|del=false|tag=b"+itoa(i))
	}
	sort.Strings(all)
	h.Assert(vJoinS(vListing(hub, "dst")) == vJoinS(all), "after the next successful run the sink holds everything :: sink="+vJoinS(vListing(hub, "dst")))
	h.Assert(vStoredToken(hub, "job-1") == nb, "token at the end after the successful run")
	// re-running with nothing new changes nothing
	n1 := vFeedLen(hub, "dst")
	pl3, _ := mkPipeline(hub, -1)
	j3 := &job{id: "job-1", title: "job-1", pipeline: pl3, runner: vRunner(hub, 1, 1)}
	_, err = pl3.sync(j3, context.Background())
	h.Assert(err == nil, "idle run succeeds")
	if !full {
		h.Assert(vFeedLen(hub, "dst") == n1, "re-running with nothing new adds no changes to the sink")
	}
	h.Assert(vStoredToken(hub, "job-1") == nb, "token unchanged by an idle run")
	h.Observe("token", token)
}

func vContains(xs []string, x string) bool {
	for _, y := range xs {
		if y == x {
			return true
		}
	}
	return false
}

// VerifC08Converge: a job copying dataset src into dataset dst through the
// real DatasetSource and dataset sink: after every run that ends successfully
// the sink's latest view equals the source's, for every history of source
// writes interleaved with runs, batch size and job type.
func VerifC08Converge(h *verifh.H) {
	hub := server.VerifNewHub(h)
	src, err := hub.Dsm.CreateDataset("src", nil)
	h.Assert(err == nil, "create src")
	_, err = hub.Dsm.CreateDataset("dst", nil)
	h.Assert(err == nil, "create dst")
	batchSize := 1 + h.Choice("batchSize", 2)
	full := h.Choice("fullsync", 2) == 1
	latestOnly := h.Choice("latestOnly", 2) == 1
	draw := func(tag string) *server.Entity {
		e := server.NewEntity([]string{"ns0:e1", "ns0:e2"}[h.Choice("id", 2)], 0)
		e.Properties["ns0:tag"] = tag
		if h.Choice("ref", 2) == 1 {
			e.References["ns0:p1"] = "ns0:e3"
		}
		e.IsDeleted = h.Choice("del", 2) == 1
		return e
	}
	flaky := h.Param("flaky", 0) == 1
	var runWith func(failCall int)
	run := func() { runWith(-1) }
	runWith = func(failCall int) {
		ds := &source.DatasetSource{DatasetName: "src", Store: hub.Store, DatasetManager: hub.Dsm, LatestOnly: latestOnly}
		var sink Sink = &datasetSink{DatasetName: "dst", Store: hub.Store, DatasetManager: hub.Dsm}
		if failCall >= 0 {
			sink = &vFlakySink{Sink: sink, failCall: failCall}
		}
		spec := PipelineSpec{source: ds, sink: sink, batchSize: batchSize}
		var pl Pipeline = &IncrementalPipeline{spec}
		if full {
			pl = &FullSyncPipeline{spec}
		}
		j := &job{id: "copy", title: "copy", pipeline: pl, runner: vRunner(hub, 1, 1)}
		_, err := pl.sync(j, context.Background())
		if failCall >= 0 {
			return
		}
		h.Assert(err == nil, "run succeeds")
		h.Assert(vJoinS(vListing(hub, "dst")) == vJoinS(vListing(hub, "src")), "after a successful run the sink's latest view equals the source's :: dst="+vJoinS(vListing(hub, "dst"))+" src="+vJoinS(vListing(hub, "src")))
	}
	writes := h.Param("writes", 2)
	for k := 0; k < writes; k++ {
		if h.Param("holes", 0) == 1 && h.Choice("hole", 2) == 1 {
			// a batch that the hub rejects at its last entity (a nil reference): the change positions its
			// earlier entities had taken stay unused, a hole in the source's change log
			bad := server.NewEntity("ns0:bad", 0)
			bad.References["ns0:p1"] = nil
			hole := func(id string) *server.Entity {
				e := server.NewEntity(id, 0)
				e.Properties["ns0:tag"] = "refused" + itoa(k)
				return e
			}
			batch := []*server.Entity{hole("ns0:e1")}
			if h.Choice("holeWidth", 2) == 1 {
				batch = append(batch, hole("ns0:e2"))
			}
			h.Assert(src.StoreEntities(append(batch, bad)) != nil, "a batch with a rejected entity is refused")
		}
		h.Assert(src.StoreEntities([]*server.Entity{draw("w" + itoa(k))}) == nil, "source write")
		if flaky {
			switch h.Choice("runNow", 4) {
			case 1:
				run()
			case 2:
				runWith(0)
			case 3:
				runWith(1)
			}
		} else if k == 0 || h.Choice("runNow", 2) == 1 {
			run()
		}
	}
	if flaky {
		if fc := h.Choice("failCall", 3); fc > 0 {
			runWith(fc - 1)
		}
	}
	run()
	n := vFeedLen(hub, "dst")
	run()
	if !full {
		h.Assert(vFeedLen(hub, "dst") == n, "re-running with nothing new adds nothing to the sink")
	}
	h.Observe("dst", vJoinS(vListing(hub, "dst")))
}

// VerifC08Union: a job copying TWO source datasets into dst through the real
// UnionDatasetSource (ids of the two sources are disjoint, so the union's
// latest view is well defined): after every run that ends successfully the
// sink's latest view equals the union of the sources' latest views, for every
// history of source writes interleaved with runs, batch size, job type and
// LatestOnly; re-running with nothing new adds nothing.
func VerifC08Union(h *verifh.H) {
	hub := server.VerifNewHub(h)
	s1, err := hub.Dsm.CreateDataset("s1", nil)
	h.Assert(err == nil, "create s1")
	s2, err := hub.Dsm.CreateDataset("s2", nil)
	h.Assert(err == nil, "create s2")
	_, err = hub.Dsm.CreateDataset("dst", nil)
	h.Assert(err == nil, "create dst")
	batchSize := 1 + h.Choice("batchSize", 2)
	full := h.Choice("fullsync", 2) == 1
	latestOnly := h.Choice("latestOnly", 2) == 1
	union := func() []string {
		all := append(vListing(hub, "s1"), vListing(hub, "s2")...)
		sort.Strings(all)
		return all
	}
	flaky := h.Param("flaky", 0) == 1
	// failCall >= 0: the sink refuses that call of the run (a transient failure); the run may
	// fail, and nothing is asserted about it except that it does not lose data for later runs
	var runWith func(failCall int)
	run := func() { runWith(-1) }
	runWith = func(failCall int) {
		us := &source.UnionDatasetSource{DatasetSources: []*source.DatasetSource{
			{DatasetName: "s1", Store: hub.Store, DatasetManager: hub.Dsm, LatestOnly: latestOnly},
			{DatasetName: "s2", Store: hub.Store, DatasetManager: hub.Dsm, LatestOnly: latestOnly},
		}}
		var sink Sink = &datasetSink{DatasetName: "dst", Store: hub.Store, DatasetManager: hub.Dsm}
		if failCall >= 0 {
			sink = &vFlakySink{Sink: sink, failCall: failCall}
		}
		spec := PipelineSpec{source: us, sink: sink, batchSize: batchSize}
		var pl Pipeline = &IncrementalPipeline{spec}
		if full {
			pl = &FullSyncPipeline{spec}
		}
		j := &job{id: "union", title: "union", pipeline: pl, runner: vRunner(hub, 1, 1)}
		_, err := pl.sync(j, context.Background())
		if failCall >= 0 {
			return
		}
		h.Assert(err == nil, "run succeeds")
		h.Assert(vJoinS(vListing(hub, "dst")) == vJoinS(union()), "after a successful run the sink's latest view equals the union of the sources' :: dst="+vJoinS(vListing(hub, "dst"))+" sources="+vJoinS(union()))
	}
	writes := h.Param("writes", 2)
	for k := 0; k < writes; k++ {
		toS2 := h.Choice("toS2", 2) == 1
		id, ds := "ns0:e1", s1
		if toS2 {
			id, ds = "ns0:e2", s2
		}
		e := server.NewEntity(id, 0)
		e.Properties["ns0:tag"] = "w" + itoa(k)
		e.IsDeleted = h.Choice("del", 2) == 1
		h.Assert(ds.StoreEntities([]*server.Entity{e}) == nil, "source write")
		if flaky {
			switch h.Choice("runNow", 4) {
			case 1:
				run()
			case 2:
				runWith(0)
			case 3:
				runWith(1)
			}
		} else if k == 0 || h.Choice("runNow", 2) == 1 {
			run()
		}
	}
	if flaky {
		if fc := h.Choice("failCall", 3); fc > 0 {
			runWith(fc - 1)
		}
	}
	run()
	n := vFeedLen(hub, "dst")
	run()
	if !full {
		h.Assert(vFeedLen(hub, "dst") == n, "re-running with nothing new adds nothing to the sink")
	}
	h.Observe("dst", vJoinS(vListing(hub, "dst")))
}

// vFlakySink refuses one call of processEntities and passes everything else on.
type vFlakySink struct {
	Sink
	failCall int
	calls    int
}

func (s *vFlakySink) processEntities(runner *Runner, entities []*server.Entity) error {
	s.calls++
	if s.calls-1 == s.failCall {
		return errors.New("sink unavailable")
	}
	return s.Sink.processEntities(runner, entities)
}

// VerifC08LivingJob: ONE pipeline object — the source and sink objects a
// scheduled job keeps for its whole life — runs several times while things
// change under it: source writes, and the sink dataset deleted, re-created
// under the same name and the job reset to the beginning (what an operator does
// to rebuild a sink). After every run that ends successfully the sink's latest
// view equals the source's; the dataset now registered under the sink's name is
// the one that received the data.
func VerifC08LivingJob(h *verifh.H) {
	hub := server.VerifNewHub(h)
	src, err := hub.Dsm.CreateDataset("src", nil)
	h.Assert(err == nil, "create src")
	_, err = hub.Dsm.CreateDataset("dst", nil)
	h.Assert(err == nil, "create dst")
	full := h.Choice("fullsync", 2) == 1
	ds := &source.DatasetSource{DatasetName: "src", Store: hub.Store, DatasetManager: hub.Dsm}
	sink := &datasetSink{DatasetName: "dst", Store: hub.Store, DatasetManager: hub.Dsm}
	spec := PipelineSpec{source: ds, sink: sink, batchSize: 1 + h.Choice("batchSize", 2)}
	var pl Pipeline = &IncrementalPipeline{spec}
	if full {
		pl = &FullSyncPipeline{spec}
	}
	j := &job{id: "copy", title: "copy", pipeline: pl, runner: vRunner(hub, 1, 1)}
	run := func(when string) {
		_, err := pl.sync(j, context.Background())
		h.Assert(err == nil, "run succeeds :: "+when)
		h.Assert(vJoinS(vListing(hub, "dst")) == vJoinS(vListing(hub, "src")), "after a successful run the sink's latest view equals the source's :: "+when+" dst="+vJoinS(vListing(hub, "dst"))+" src="+vJoinS(vListing(hub, "src")))
	}
	e := server.NewEntity("ns0:e1", 0)
	e.Properties["ns0:tag"] = "w0"
	h.Assert(src.StoreEntities([]*server.Entity{e}) == nil, "source write")
	run("first run")
	nops := h.Param("ops", 2)
	for k := 0; k < nops; k++ {
		switch h.Choice("op", 3) {
		case 0: // source write
			e := server.NewEntity([]string{"ns0:e1", "ns0:e2"}[h.Choice("id", 2)], 0)
			e.Properties["ns0:tag"] = "k" + itoa(k)
			e.IsDeleted = h.Choice("del", 2) == 1
			h.Assert(src.StoreEntities([]*server.Entity{e}) == nil, "source write")
		case 1: // the sink dataset is rebuilt: deleted, re-created, the job reset to the beginning
			h.Assert(hub.Dsm.DeleteDataset("dst") == nil, "delete sink")
			_, err := hub.Dsm.CreateDataset("dst", nil)
			h.Assert(err == nil, "re-create sink")
			h.Assert(hub.Store.DeleteObject(server.JobDataIndex, "copy") == nil, "job reset")
		case 2: // the job runs
			run("run after op " + itoa(k))
		}
	}
	run("last run")
	h.Observe("dst", vJoinS(vListing(hub, "dst")))
}

// VerifC08WriterRace: two clients write to the source dataset at the same time
// while an incremental job run reads it (three threads, symbolic schedule with
// every lock acquisition, transaction start and commit statement a scheduling
// point). Whatever the interleaving, the job's token never runs past a change
// that was not yet visible: after the writers are done and the job has run
// again, the sink's latest view equals the source's — nothing is skipped for
// good.
func VerifC08WriterRace(h *verifh.H) {
	hub := server.VerifNewHub(h)
	src, err := hub.Dsm.CreateDataset("src", nil)
	h.Assert(err == nil, "create src")
	_, err = hub.Dsm.CreateDataset("dst", nil)
	h.Assert(err == nil, "create dst")
	mk := func(id, tag string) *server.Entity {
		e := server.NewEntity(id, 0)
		e.Properties["ns0:tag"] = tag
		return e
	}
	h.Assert(src.StoreEntities([]*server.Entity{mk("ns0:e0", "w0")}) == nil, "first write")
	run := func() error {
		ds := &source.DatasetSource{DatasetName: "src", Store: hub.Store, DatasetManager: hub.Dsm}
		pl := &IncrementalPipeline{PipelineSpec{source: ds, sink: &datasetSink{DatasetName: "dst", Store: hub.Store, DatasetManager: hub.Dsm}, batchSize: 2}}
		j := &job{id: "copy", title: "copy", pipeline: pl, runner: vRunner(hub, 1, 1)}
		_, err := pl.sync(j, context.Background())
		return err
	}
	h.Assert(run() == nil, "first run")
	var e1, e2, e3 error
	h.SymbolicLocks()
	h.SymbolicTxns()
	h.SymbolicSched(h.Param("preemptions", 2))
	h.Go(func() { e1 = src.StoreEntities([]*server.Entity{mk("ns0:e1", "a")}) })
	h.Go(func() { e2 = src.StoreEntities([]*server.Entity{mk("ns0:e2", "b")}) })
	h.Go(func() { e3 = run() })
	h.Assert(h.Wait(), "writers and the run complete")
	h.Assert(e1 == nil && e2 == nil && e3 == nil, "writes and the run succeed")
	h.Assert(run() == nil, "catch-up run")
	h.Assert(vJoinS(vListing(hub, "dst")) == vJoinS(vListing(hub, "src")), "after the writers are done and the job has run again the sink's latest view equals the source's :: dst="+vJoinS(vListing(hub, "dst"))+" src="+vJoinS(vListing(hub, "src")))
	h.Observe("dst", vJoinS(vListing(hub, "dst")))
}
