//go:build verif

package jobs

import (
	egdm "github.com/mimiro-io/entity-graph-data-model"

	"github.com/mimiro-io/datahub/internal/server"
	"github.com/mimiro-io/datahub/internal/verifh"
)

// VerifC13Shim: the namespace shim through which an HttpTransform with
// SupportContext turns the identifiers of a transform's answer into hub
// identifiers is one more entry point of the identifier tables. For a full URI
// "http://h/" + three bytes over {a, #, /} (so with a '#' before a '/', after
// it, both or neither — decided by the solver over the symbolic bytes), given
// in full or through a prefix the answer's own context declares, both shim
// functions return exactly the CURIE the store hands out for the same URI
// (GetNamespacedIdentifierFromURI, what a posted entity or a lookup by URI
// gets): one identifier string, one namespace, one internal id — whichever
// entry point mentions it first.
func VerifC13Shim(h *verifh.H) {
	hub := server.VerifNewHub(h)
	tail := h.StrOver("tail", 3, "a#/")
	uri := "http://h/" + tail
	shim := &EgdmNamespaceManagerShim{nsManager: hub.Store.NamespaceManager, localContext: egdm.NewNamespaceContext()}
	value := uri
	if h.Choice("viaPrefix", 2) == 1 {
		// the answer's context declares d = http://h/ and writes the identifier as d:<tail>
		shim.localContext.StorePrefixExpansionMapping("d", "http://h/")
		value = "d:" + tail
	}
	shimFirst := h.Choice("shimFirst", 2) == 1
	var fromStore, fromShim, fromShim2 string
	var e1, e2, e3 error
	if shimFirst {
		fromShim, e2 = shim.GetPrefixedIdentifier(value)
		fromShim2, e3 = shim.AssertPrefixedIdentifierFromURI(value)
		fromStore, e1 = hub.Store.GetNamespacedIdentifierFromURI(uri)
	} else {
		fromStore, e1 = hub.Store.GetNamespacedIdentifierFromURI(uri)
		fromShim, e2 = shim.GetPrefixedIdentifier(value)
		fromShim2, e3 = shim.AssertPrefixedIdentifierFromURI(value)
	}
	h.Assert(e1 == nil && e2 == nil && e3 == nil, "the identifier is accepted by the store and by the shim")
	if e1 != nil || e2 != nil || e3 != nil {
		return
	}
	h.Assert(h.StrEq(fromShim, fromStore), "the transform's namespace shim hands out the CURIE the store hands out for the same URI (GetPrefixedIdentifier)")
	h.Assert(h.StrEq(fromShim2, fromStore), "both shim functions agree with the store (AssertPrefixedIdentifierFromURI)")
	h.Observe("n", len(fromStore))
}
