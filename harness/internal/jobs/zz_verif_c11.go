//go:build verif

package jobs

import (
	"strconv"
	"time"

	"github.com/mimiro-io/datahub/internal/server"
	"github.com/mimiro-io/datahub/internal/verifh"
)

var vIDs = []string{"job-a", "job-b", "job-c"}

type vPipe struct {
	PipelineSpec
	full bool
}

func (p *vPipe) sync(job *job, ctx interface{ Err() error }) (int, error) { return 0, nil }

// VerifC11RaffleStep: one borrow or return from an arbitrary raffle state
// that satisfies the representation invariant
//
//	tickets(kind) + |running entries of kind| = pool(kind), ids unique
//
// preserves the invariant, never hands out a second ticket for a running id
// and never exceeds the pools (inductive step: covers histories of any length).
func VerifC11RaffleStep(h *verifh.H) {
	hub := server.VerifNewHub(h)
	poolF := h.Int("poolF", 0, h.Param("maxPool", 2))
	poolI := h.Int("poolI", 0, h.Param("maxPool", 2))
	runner := vRunner(hub, 0, 0)
	r := runner.raffle
	// arbitrary pre-state
	nrun := h.Choice("nrun", 3)
	nF, nI := 0, 0
	for k := 0; k < nrun; k++ {
		full := h.Choice("runfull", 2) == 1
		r.runningJobs[vIDs[k]] = &runState{id: vIDs[k], isFull: full, cancel: func() {}}
		if full {
			nF++
		} else {
			nI++
		}
	}
	h.Assume(poolF >= nF && poolI >= nI)
	r.ticketsFull = poolF - nF
	r.ticketsIncr = poolI - nI

	inv := func(when string) {
		cf, ci := 0, 0
		for id, st := range r.runningJobs {
			h.Assert(st.id == id, when+": entry registered under its own id")
			if st.isFull {
				cf++
			} else {
				ci++
			}
		}
		h.Assert(r.ticketsFull+cf == poolF, when+": full tickets + running full jobs = pool")
		h.Assert(r.ticketsIncr+ci == poolI, when+": incremental tickets + running incremental jobs = pool")
		h.Assert(r.ticketsFull >= 0 && r.ticketsIncr >= 0, when+": ticket counts never negative")
	}
	inv("pre")
	if h.Choice("op", 2) == 0 {
		id := vIDs[h.Choice("id", 3)]
		full := h.Choice("full", 2) == 1
		var pl Pipeline
		if full {
			pl = &FullSyncPipeline{}
		} else {
			pl = &IncrementalPipeline{}
		}
		_, wasRunning := r.runningJobs[id]
		availF, availI := r.ticketsFull, r.ticketsIncr
		t := r.borrowTicket(&job{id: id, title: id, pipeline: pl})
		expectTicket := !wasRunning
		if full {
			expectTicket = expectTicket && h.Conc(availF) > 0
		} else {
			expectTicket = expectTicket && h.Conc(availI) > 0
		}
		h.Assert((t != nil) == expectTicket, "ticket granted iff the id is not running and the pool has a ticket")
		if t != nil {
			h.Assert(r.runningJobs[id] == t.runState && t.runState.isFull == full, "ticket is registered for the job id with its kind")
		}
	} else {
		h.Assume(nrun > 0)
		id := vIDs[h.Choice("which", nrun)]
		st := r.runningJobs[id]
		r.returnTicket(&ticket{runState: st})
		_, still := r.runningJobs[id]
		h.Assert(!still, "returned ticket removes the running entry")
	}
	inv("post")
	h.Observe("full", r.ticketsFull)
	h.Observe("incr", r.ticketsIncr)
}

// VerifC11Outcome: a job accepted by the real Scheduler.verify (trigger type ×
// job type × error handlers), run through job.Run with scripted source/sink
// outcomes, always ends with a stored result under its id and a released run
// slot, never panics or recurses without bound, and is re-run at most
// maxRetries times (timers fire symbolically).
func VerifC11Outcome(h *verifh.H) {
	hub := server.VerifNewHub(h)
	_, _ = hub.Dsm.CreateDataset("src", nil)
	_, _ = hub.Dsm.CreateDataset("dst", nil)
	runner := vRunner(hub, 1, 1)
	sch := &Scheduler{Logger: hub.Env.Logger, Store: hub.Store, Runner: runner, DatasetManager: hub.Dsm}

	trig := JobTrigger{Schedule: "@every 60s", MonitoredDataset: "src"}
	onchange := h.Choice("onchange", 2) == 1
	if onchange {
		trig.TriggerType = TriggerTypeOnChange
	} else {
		trig.TriggerType = TriggerTypeCron
	}
	full := h.Choice("fullsync", 2) == 1
	if full {
		trig.JobType = JobTypeFull
	} else {
		trig.JobType = JobTypeIncremental
	}
	hsel := h.Choice("handlers", 4) // 0 none, 1 log, 2 rerun, 3 both
	maxRetries := 0
	if hsel&1 != 0 {
		trig.ErrorHandlers = append(trig.ErrorHandlers, &ErrorHandler{Type: "log", MaxItems: h.Choice("maxItems", 3)})
	}
	if hsel&2 != 0 {
		maxRetries = h.Choice("maxRetries", h.Param("maxRetries", 2)) + 1
		trig.ErrorHandlers = append(trig.ErrorHandlers, &ErrorHandler{Type: "reRun", MaxRetries: maxRetries, RetryDelay: 1})
	}
	cfg := &JobConfiguration{
		ID: "job-1", Title: "job one",
		Source:   map[string]interface{}{"Type": "DatasetSource", "Name": "src"},
		Sink:     map[string]interface{}{"Type": "DatasetSink", "Name": "dst"},
		Triggers: []JobTrigger{trig},
	}
	if err := sch.verify(cfg); err != nil {
		h.Fail("definition rejected by verify: " + err.Error())
		return
	}
	jobs, err := sch.toTriggeredJobs(cfg)
	h.Assert(err == nil && len(jobs) == 1, "accepted definition maps to one job")
	if err != nil || len(jobs) != 1 {
		return
	}
	j := jobs[0]

	// scripted building blocks below the job: source outcome × sink outcome × transform
	ents := vEntities(2)
	srcFail := h.Choice("srcFail", 2) == 1
	src := &vSource{batches: [][]*server.Entity{ents}, failAt: -1}
	if srcFail {
		src.failAt = 0
	}
	sink := &vSink{failBatch: -1, failing: map[string]bool{}}
	switch h.Choice("sinkMode", 4) {
	case 1:
		sink.failing[ents[1].ID] = true // permanent rejection of one entity
	case 2:
		sink.failBatch = 0 // transient: first call fails
	case 3:
		sink.failAll = true // every call fails, also with an empty batch (target dataset gone)
	}
	j.pipeline.spec().source = src
	j.pipeline.spec().sink = sink
	switch h.Choice("transform", 3) {
	case 1:
		j.pipeline.spec().transform = &vTransform{par: 1}
	case 2:
		j.pipeline.spec().transform = &vTransform{par: 1, mode: 1} // filters every entity away
	}

	runs := 0
	check := func() {
		h.Assert(len(runner.raffle.runningJobs) == 0, "run slot released")
		h.Assert(runner.raffle.ticketsFull == 1 && runner.raffle.ticketsIncr == 1, "tickets back in the pools")
		res := &jobResult{}
		e := hub.Store.GetObject(server.JobResultIndex, "job-1", res)
		h.Assert(e == nil && res.ID == "job-1", "run result stored under the job id")
	}
	j.Run()
	runs++
	check()
	for k := 0; k < h.Param("timerSteps", 3); k++ {
		if !h.FireTimer("rerun", 2500*time.Millisecond) {
			break
		}
		runs++
		check()
	}
	h.Assert(runs-1 <= maxRetries, "job re-executed at most maxRetries times")
	h.Observe("runs", runs)
	h.Observe("delivered", len(sink.delivered))
}

// VerifC11Definition: job definitions whose optional sections take the shapes
// the API accepts (transform section absent, present without code, present with
// empty code; trigger and job type; with and without error handlers) go through
// the real Scheduler.verify and toTriggeredJobs and are run, unmodified, through
// job.Run with the real dataset source and sink: every accepted definition runs
// to a stored result under its id with the run slot released, without a panic,
// and a successful run delivered the source's entities.
func VerifC11Definition(h *verifh.H) {
	hub := server.VerifNewHub(h)
	src, _ := hub.Dsm.CreateDataset("src", nil)
	_, _ = hub.Dsm.CreateDataset("dst", nil)
	runner := vRunner(hub, 1, 1)
	sch := &Scheduler{Logger: hub.Env.Logger, Store: hub.Store, Runner: runner, DatasetManager: hub.Dsm}
	h.Assert(src.StoreEntities(vEntities(2)) == nil, "seed")

	trig := JobTrigger{Schedule: "@every 60s", MonitoredDataset: "src"}
	if h.Choice("onchange", 2) == 1 {
		trig.TriggerType = TriggerTypeOnChange
	} else {
		trig.TriggerType = TriggerTypeCron
	}
	if h.Choice("fullsync", 2) == 1 {
		trig.JobType = JobTypeFull
	} else {
		trig.JobType = JobTypeIncremental
	}
	if h.Choice("handlers", 2) == 1 {
		trig.ErrorHandlers = append(trig.ErrorHandlers, &ErrorHandler{Type: "log", MaxItems: 1})
	}
	cfg := &JobConfiguration{
		ID: "job-1", Title: "job one",
		Source:   map[string]interface{}{"Type": "DatasetSource", "Name": "src"},
		Sink:     map[string]interface{}{"Type": "DatasetSink", "Name": "dst"},
		Triggers: []JobTrigger{trig},
	}
	switch h.Choice("transform", 4) {
	case 1:
		cfg.Transform = map[string]interface{}{"Type": "JavascriptTransform"}
	case 2:
		cfg.Transform = map[string]interface{}{"Type": "JavascriptTransform", "Code": ""}
	case 3:
		cfg.Transform = map[string]interface{}{}
	}
	if err := sch.verify(cfg); err != nil {
		h.Observe("rejected", err.Error())
		return
	}
	jobs, err := sch.toTriggeredJobs(cfg)
	if err != nil {
		h.Observe("rejected", err.Error())
		return
	}
	h.Assert(len(jobs) == 1, "accepted definition maps to one job")
	jobs[0].Run()
	h.Assert(len(runner.raffle.runningJobs) == 0, "run slot released")
	h.Assert(runner.raffle.ticketsFull == 1 && runner.raffle.ticketsIncr == 1, "tickets back in the pools")
	res := &jobResult{}
	e := hub.Store.GetObject(server.JobResultIndex, "job-1", res)
	h.Assert(e == nil && res.ID == "job-1", "run result stored under the job id")
	if res.LastError == "" {
		h.Assert(vJoinS(vListing(hub, "dst")) == vJoinS(vListing(hub, "src")), "a successful run delivered the source's entities")
	}
	h.Observe("lastError", res.LastError)
}

// VerifC11RaffleRace: two triggers of the SAME job id (or of two different
// ids) reach the raffle at the same moment — a cron tick coinciding with an
// on-change event or a manual run — and a third party returns a ticket, under
// a symbolic schedule that may preempt before every lock acquisition of the
// raffle. At most one of two triggers of one job id gets a ticket, a job id
// never holds two tickets, the pool accounting stays exact, and after all
// tickets are returned the raffle is as it started.
func VerifC11RaffleRace(h *verifh.H) {
	hub := server.VerifNewHub(h)
	pool := 2
	runner := vRunner(hub, pool, pool)
	r := runner.raffle
	full := h.Choice("full", 2) == 1
	mkJob := func(id string) *job {
		var pl Pipeline
		if full {
			pl = &FullSyncPipeline{}
		} else {
			pl = &IncrementalPipeline{}
		}
		return &job{id: id, title: id, pipeline: pl, runner: runner}
	}
	sameID := h.Choice("sameID", 2) == 1
	j1 := mkJob("job-a")
	j2 := mkJob("job-b")
	if sameID {
		j2 = mkJob("job-a")
	}
	var t1, t2 *ticket
	h.SymbolicLocks()
	h.SymbolicSched(h.Param("preemptions", 2))
	h.Go(func() { t1 = r.borrowTicket(j1) })
	h.Go(func() { t2 = r.borrowTicket(j2) })
	h.Assert(h.Wait(), "both triggers are answered")
	got := 0
	if t1 != nil {
		got++
	}
	if t2 != nil {
		got++
	}
	if sameID {
		h.Assert(got == 1, "of two simultaneous triggers of one job id exactly one gets a ticket :: got="+strconv.Itoa(got))
	} else {
		h.Assert(got == 2, "triggers of different job ids both get a ticket while the pool has room :: got="+strconv.Itoa(got))
	}
	left := r.ticketsIncr
	if full {
		left = r.ticketsFull
	}
	h.Assert(left == pool-got, "tickets handed out + tickets left = pool :: left="+strconv.Itoa(left)+" handed="+strconv.Itoa(got))
	h.Assert(len(r.runningJobs) == got || (sameID && len(r.runningJobs) == 1), "every ticket holder is registered as running")
	for _, t := range []*ticket{t1, t2} {
		if t != nil {
			r.returnTicket(t)
		}
	}
	h.Assert(len(r.runningJobs) == 0 && r.ticketsIncr == pool && r.ticketsFull == pool, "after all tickets are returned the raffle is as it started :: running="+strconv.Itoa(len(r.runningJobs))+" incr="+strconv.Itoa(r.ticketsIncr)+" full="+strconv.Itoa(r.ticketsFull))
	h.Observe("got", got)
}
