//go:build verif

package jobs

import (
	"context"
	"sort"
	"strings"

	"github.com/mimiro-io/datahub/internal/jobs/source"
	"github.com/mimiro-io/datahub/internal/server"
	"github.com/mimiro-io/datahub/internal/verifh"
)

// VerifC15HttpSource: payloads that reach the hub through the HTTP dataset
// source (a job reading another data layer's /changes): ONE source object
// reads two pages from a scripted remote, following the continuation token of
// the first page. Every page is a payload of its own: its entities are what the
// page denotes under ITS namespace context — a prefix redeclared on the second
// page with another expansion is resolved with that page's declaration, for
// ids, property keys and reference values alike; a prefix the second page uses
// without declaring it makes that page malformed: an error, nothing of it is
// handed on. The since token sent to the remote is the one the first page gave.
func VerifC15HttpSource(h *verifh.H) {
	hub := server.VerifNewHub(h)
	nsA, nsB := "http://example.com/a/", "http://example.com/b/"
	page1 := `[{"id":"@context","namespaces":{"p":"` + nsA + `"}},{"id":"p:e1","props":{"p:name":"one"},"refs":{"p:r":"p:t"}},{"id":"@continuation","token":"tok1"}]`
	// the second page: same prefix with the same expansion, with another expansion, or not declared at all
	var ctx2 string
	want2 := nsB
	mode := h.Choice("page2ctx", 3)
	switch mode {
	case 0:
		ctx2, want2 = `{"p":"`+nsA+`"}`, nsA
	case 1:
		ctx2 = `{"p":"` + nsB + `"}`
	case 2:
		ctx2 = `{"q":"` + nsB + `"}` // p is used below but not declared
	}
	page2 := `[{"id":"@context","namespaces":` + ctx2 + `},{"id":"p:e2","props":{"p:name":"two"},"refs":{"p:r":"p:t"}},{"id":"@continuation","token":"tok2"}]`
	endpoint := h.Remote(page1, page2)
	src := &source.HTTPDatasetSource{Endpoint: endpoint, Store: hub.Store}
	expand := func(curie string) string {
		k := strings.Index(curie, ":")
		if k < 0 {
			return curie
		}
		for p, e := range hub.Store.GetGlobalContext(false).Namespaces {
			if p == curie[:k] {
				return e + curie[k+1:]
			}
		}
		return "?" + curie
	}
	canon := func(e *server.Entity) string {
		var parts []string
		for k, v := range e.Properties {
			s, _ := v.(string)
			parts = append(parts, "p "+expand(k)+"="+s)
		}
		for k, v := range e.References {
			s, _ := v.(string)
			parts = append(parts, "r "+expand(k)+"="+expand(s))
		}
		sort.Strings(parts)
		return expand(e.ID) + " " + strings.Join(parts, ";")
	}
	var got []string
	var token source.DatasetContinuation = &source.StringDatasetContinuation{}
	read := func() error {
		return src.ReadEntities(context.Background(), token, 10, func(es []*server.Entity, c source.DatasetContinuation) error {
			for _, e := range es {
				got = append(got, canon(e))
			}
			token = c
			return nil
		})
	}
	h.Assert(read() == nil, "the first page is read")
	h.Assert(len(got) == 1 && got[0] == nsA+"e1 p "+nsA+"name=one;r "+nsA+"r="+nsA+"t", "the first page denotes its entity under its context :: "+strings.Join(got, " | "))
	h.Assert(token.GetToken() == "tok1", "the continuation token of the first page is handed on :: "+token.GetToken())
	got = nil
	err := read()
	if mode == 2 {
		h.Assert(err != nil, "a page using a prefix it does not declare is malformed: an error")
		h.Assert(len(got) == 0, "nothing of the malformed page is handed on :: "+strings.Join(got, " | "))
	} else {
		h.Assert(err == nil, "the second page is read")
		h.Assert(len(got) == 1 && got[0] == want2+"e2 p "+want2+"name=two;r "+want2+"r="+want2+"t", "the second page denotes its entity under ITS context :: "+strings.Join(got, " | "))
	}
	reqs := h.RemoteRequests()
	h.Assert(len(reqs) == 2 && strings.Contains(reqs[1], "since=tok1") && !strings.Contains(reqs[0], "since="), "the second request carries the token the first page gave :: "+strings.Join(reqs, " "))
	h.Observe("mode", mode)
}
