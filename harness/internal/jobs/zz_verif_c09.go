//go:build verif

package jobs

import (
	"strings"

	"github.com/mimiro-io/datahub/internal/server"
	"github.com/mimiro-io/datahub/internal/verifh"
)

// VerifC09HttpSink: the sending side of the HTTP full-sync protocol. A fullsync
// job (log error handler, batch size 1 or 2) copies a dataset of three
// entities to an HttpDatasetSink whose remote is scripted: each of the first
// requests is answered 200 or refused (429, or 503 which the HTTP client retries by itself), drawn independently. The
// receiving hub starts a NEW sync — forgetting what it has seen — whenever a
// request carries the full-sync-start header (datasethandler.processEntities,
// decided under VerifC09Handler). So within one sync id the start header must
// never travel again once the remote has accepted a request of that sync:
// otherwise the completion deletes entities the sync did contain. Also every
// request of a run carries the one sync id of that run, and nothing is sent
// once the remote has accepted the request that ends the sync.
func VerifC09HttpSink(h *verifh.H) {
	hub := server.VerifNewHub(h)
	_, _ = hub.Dsm.CreateDataset("src", nil)
	_, _ = hub.Dsm.CreateDataset("dst", nil)
	src := hub.Dsm.GetDataset("src")
	h.Assert(src.StoreEntities(vEntities(3)) == nil, "source written")
	// the script: answers to the first four requests are drawn, later ones are accepted
	var script []string
	var refused []bool
	for k := 0; k < 4; k++ {
		if ans := h.Choice("refuse", 3); ans == 1 {
			script = append(script, "!429 slow down")
			refused = append(refused, true)
		} else if ans == 2 {
			// (a 5xx answer is retried by the HTTP client itself: the same request again)
			script = append(script, "!503 restarting")
			refused = append(refused, true)
		} else {
			script = append(script, "[]")
			refused = append(refused, false)
		}
	}
	endpoint := h.Remote(script...)

	runner := vRunner(hub, 1, 1)
	sch := &Scheduler{Logger: hub.Env.Logger, Store: hub.Store, Runner: runner, DatasetManager: hub.Dsm}
	trig := JobTrigger{TriggerType: TriggerTypeCron, JobType: JobTypeFull, Schedule: "@every 60s",
		ErrorHandlers: []*ErrorHandler{{Type: "log", MaxItems: 0}}}
	cfg := &JobConfiguration{ID: "job-1", Title: "job one",
		Source:   map[string]interface{}{"Type": "DatasetSource", "Name": "src"},
		Sink:     map[string]interface{}{"Type": "DatasetSink", "Name": "dst"},
		Triggers: []JobTrigger{trig}}
	h.Assert(sch.verify(cfg) == nil, "definition accepted")
	jobs, err := sch.toTriggeredJobs(cfg)
	h.Assert(err == nil && len(jobs) == 1, "one job")
	if err != nil || len(jobs) != 1 {
		return
	}
	j := jobs[0]
	j.pipeline.spec().sink = &httpDatasetSink{Endpoint: endpoint, Store: hub.Store, logger: hub.Env.Logger}
	j.pipeline.spec().batchSize = 1 + h.Choice("batchSize", 2)
	j.Run()

	log := h.RemoteLog()
	hdr := func(entry, name string) string {
		for _, f := range strings.Fields(entry) {
			if strings.HasPrefix(f, name+"=") {
				return f[len(name)+1:]
			}
		}
		return ""
	}
	id := ""
	accepted := false
	ended := false
	for k, e := range log {
		sid := hdr(e, "Universal-Data-Api-Full-Sync-Id")
		h.Assert(sid != "", "every request of a fullsync run carries a sync id :: "+e)
		if id == "" {
			id = sid
		}
		h.Assert(sid == id, "every request of one run carries the same sync id")
		h.Assert(!ended, "nothing is sent after the remote accepted the request that ends the sync")
		if hdr(e, "Universal-Data-Api-Full-Sync-Start") == "true" {
			h.Assert(!accepted, "the full-sync-start header does not travel again once the remote has accepted a request of this sync (the receiver would forget what it has seen) :: request "+itoa(k)+" of "+itoa(len(log)))
		}
		ok := k >= len(refused) || !refused[k]
		if ok {
			accepted = true
		}
		if ok && hdr(e, "Universal-Data-Api-Full-Sync-End") == "true" {
			ended = true
		}
	}
	h.Observe("requests", len(log))
}
