//go:build verif

package jobs

import (
	"context"
	"sort"

	"github.com/mimiro-io/datahub/internal/jobs/source"
	"github.com/mimiro-io/datahub/internal/server"
	"github.com/mimiro-io/datahub/internal/verifh"
)

// VerifC18Deps: ParseDependencies + DedupAndTrackImplicitDependencies: every
// intermediate non-main dataset of a declared join path gets an implicit
// dependency with the remaining joins; duplicates are kept once.
func VerifC18Deps(h *verifh.H) {
	hub := server.VerifNewHub(h)
	names := []string{"main", "d1", "d2"}
	for _, n := range names {
		_, _ = hub.Dsm.CreateDataset(n, nil)
	}
	ms := &source.MultiSource{DatasetName: "main", Store: hub.Store, DatasetManager: hub.Dsm}
	nj := 1 + h.Choice("joins", h.Param("maxJoins", 3))
	var joins []interface{}
	var plain []source.Join
	for i := 0; i < nj; i++ {
		ds := names[h.Choice("jds", 3)]
		if i == nj-1 {
			ds = "main" // a join path ends in the main dataset
		}
		inv := h.Choice("inv", 2) == 1
		joins = append(joins, map[string]interface{}{"dataset": ds, "predicate": "ns0:p" + itoa(i), "inverse": inv})
		plain = append(plain, source.Join{Dataset: ds, Predicate: "ns0:p" + itoa(i), Inverse: inv})
	}
	dep := map[string]interface{}{"dataset": "d1", "joins": joins}
	deps := []interface{}{dep}
	if h.Choice("dup", 2) == 1 {
		deps = append(deps, dep)
	}
	h.Assert(ms.ParseDependencies(deps, nil) == nil, "dependencies parse")
	key := func(d source.Dependency) string {
		s := d.Dataset + ">"
		for _, j := range d.Joins {
			s += j.Dataset + "|" + j.Predicate + "|" + vb(j.Inverse) + ";"
		}
		return s
	}
	want := map[string]bool{key(source.Dependency{Dataset: "d1", Joins: plain}): true}
	for i, j := range plain {
		if j.Dataset != "main" {
			want[key(source.Dependency{Dataset: j.Dataset, Joins: plain[i+1:]})] = true
		}
	}
	got := map[string]int{}
	for _, d := range ms.Dependencies {
		got[key(d)]++
	}
	for k := range want {
		h.Assert(got[k] == 1, "every declared and implicit dependency is tracked exactly once :: missing or duplicated "+k)
	}
	for k, n := range got {
		h.Assert(want[k] && n == 1, "no other dependency is tracked :: "+k)
	}
	h.Observe("deps", len(ms.Dependencies))
}

type vCollectSink struct {
	vSink
}

// VerifC18OneHop: a MultiSource job over main dataset M with dependency D and
// one join: after any change to an entity of D, every M entity connected to it
// through the join (as the graph stands when the job runs, and for a removed
// outgoing first-hop link as it stood at the previous run) is emitted by the
// runs that follow, together with changed M entities; everything emitted comes
// from M; dependency tokens never run ahead.
func VerifC18OneHop(h *verifh.H) {
	hub := server.VerifNewHub(h)
	M, _ := hub.Dsm.CreateDataset("M", nil)
	D, _ := hub.Dsm.CreateDataset("D", nil)
	inverse := h.Choice("inverse", 2) == 1 // true: m -p1-> d (follow incoming from d); false: d -p1-> m
	mk := func(id, tag, ref string) *server.Entity {
		e := server.NewEntity(id, 0)
		e.Properties["ns0:tag"] = tag
		if ref != "" {
			e.References["ns0:p1"] = ref
		}
		return e
	}
	// link[x] = what x references via p1 (m -> d when inverse, d -> m otherwise)
	link := map[string]string{}
	prevLink := map[string]string{}
	mIDs := []string{"ns0:m1", "ns0:m2"}
	dIDs := []string{"ns0:d1", "ns0:d2"}
	writeM := func(id, tag string, ref string) {
		if !inverse {
			ref = ""
		}
		h.Assert(M.StoreEntities([]*server.Entity{mk(id, tag, ref)}) == nil, "write M")
		if inverse {
			link[id] = ref
		}
	}
	writeD := func(id, tag string, ref string) {
		if inverse {
			ref = ""
		}
		h.Assert(D.StoreEntities([]*server.Entity{mk(id, tag, ref)}) == nil, "write D")
		if !inverse {
			link[id] = ref
		}
	}
	refChoice := func(name string, pool []string) string {
		k := h.Choice(name, len(pool)+1)
		if k == 0 {
			return ""
		}
		return pool[k-1]
	}
	// initial state
	writeM("ns0:m1", "m0", refChoice("m1ref", dIDs))
	if h.Choice("hasM2", 2) == 1 {
		writeM("ns0:m2", "m0", refChoice("m2ref", dIDs))
	}
	if h.Choice("hasD1", 2) == 1 {
		writeD("ns0:d1", "d0", refChoice("d1ref", mIDs))
	}
	ms := &source.MultiSource{DatasetName: "M", Store: hub.Store, DatasetManager: hub.Dsm, Logger: hub.Env.Logger}
	ms.Dependencies = []source.Dependency{{Dataset: "D", Joins: []source.Join{{Dataset: "M", Predicate: "ns0:p1", Inverse: inverse}}}}
	sink := &vSink{failBatch: -1, failing: map[string]bool{}}
	batchSize := 1 + h.Choice("batchSize", 2)
	pl := &IncrementalPipeline{PipelineSpec{source: ms, sink: sink, batchSize: batchSize}}
	j := &job{id: "ms-job", title: "ms-job", pipeline: pl, runner: vRunner(hub, 1, 1)}
	runToFixpoint := func() []string {
		sink.delivered = nil
		last := ""
		for r := 0; r < 7; r++ {
			_, err := pl.sync(j, context.Background())
			if err != nil && sink.failBatch >= 0 {
				// the injected sink failure interrupted this run: the job is run again, as a
				// scheduler would, with a sink that works
				sink.failBatch = -1
				last = "<failed>"
				continue
			}
			h.Assert(err == nil, "run succeeds")
			st := &SyncJobState{}
			_ = hub.Store.GetObject(server.JobDataIndex, "ms-job", st)
			if st.ContinuationToken == last {
				break
			}
			last = st.ContinuationToken
		}
		var ids []string
		for _, e := range sink.delivered {
			ids = append(ids, e.ID)
		}
		sort.Strings(ids)
		return ids
	}
	_ = runToFixpoint() // initial load
	for k, v := range link {
		prevLink[k] = v
	}
	// one change to the dependency dataset (new entity, changed entity, rewired or removed link)
	did := dIDs[h.Choice("chgD", 2)]
	writeD(did, "d1", refChoice("chgRef", mIDs))
	// optionally the sink rejects one of the next two batches, interrupting the run in the
	// middle of the fan-out; what was delivered before and after the interruption counts
	if k := h.Choice("sinkFailAt", 3); k > 0 {
		sink.failBatch = sink.calls + k - 1
	}
	emitted := runToFixpoint()
	// expected: main entities connected to the changed dependency entity
	want := map[string]bool{}
	if inverse {
		for m, d := range link {
			if d == did {
				want[m] = true
			}
		}
	} else {
		if link[did] != "" {
			want[link[did]] = true
		}
		if prevLink[did] != "" {
			want[prevLink[did]] = true // removed first-hop outgoing link: as it stood at the previous run
		}
	}
	for m := range want {
		// only entities that exist in M can be emitted
		if _, exists := map[string]bool{"ns0:m1": true, "ns0:m2": link["ns0:m2"] != "" || true}[m]; !exists {
			continue
		}
		e, _ := hub.Store.GetEntity(m, []string{"M"}, true)
		if e == nil || e.Recorded == 0 {
			continue
		}
		h.Assert(vContains(emitted, m), "a main entity connected to the changed dependency entity is emitted :: changed="+did+" expected="+m+" emitted="+vJoinS(emitted))
	}
	for _, id := range emitted {
		h.Assert(id == "ns0:m1" || id == "ns0:m2", "emitted entities come from the main dataset :: "+id)
	}
	h.Observe("emitted", vJoinS(emitted))
}

// VerifC18TwoDeps: two dependencies on the SAME dependency dataset D that
// reach the main dataset M through different predicates (d -p1-> m and
// d -p2-> m). After a change to an entity of D, the main entities connected to
// it through EITHER dependency are emitted by the runs that follow.
func VerifC18TwoDeps(h *verifh.H) {
	hub := server.VerifNewHub(h)
	M, _ := hub.Dsm.CreateDataset("M", nil)
	D, _ := hub.Dsm.CreateDataset("D", nil)
	mkM := func(id string) *server.Entity {
		e := server.NewEntity(id, 0)
		e.Properties["ns0:tag"] = "m0"
		return e
	}
	mkD := func(tag, r1, r2 string) *server.Entity {
		e := server.NewEntity("ns0:d1", 0)
		e.Properties["ns0:tag"] = tag
		if r1 != "" {
			e.References["ns0:p1"] = r1
		}
		if r2 != "" {
			e.References["ns0:p2"] = r2
		}
		return e
	}
	h.Assert(M.StoreEntities([]*server.Entity{mkM("ns0:m1"), mkM("ns0:m2")}) == nil, "write M")
	pick := func(name string) string {
		return []string{"", "ns0:m1", "ns0:m2"}[h.Choice(name, 3)]
	}
	// the initial version of d1 always carries both predicates, so that both exist in the store
	h.Assert(D.StoreEntities([]*server.Entity{mkD("d0", "ns0:m1", "ns0:m2")}) == nil, "write D")
	ms := &source.MultiSource{DatasetName: "M", Store: hub.Store, DatasetManager: hub.Dsm, Logger: hub.Env.Logger}
	ms.Dependencies = []source.Dependency{
		{Dataset: "D", Joins: []source.Join{{Dataset: "M", Predicate: "ns0:p1", Inverse: false}}},
		{Dataset: "D", Joins: []source.Join{{Dataset: "M", Predicate: "ns0:p2", Inverse: false}}},
	}
	sink := &vSink{failBatch: -1, failing: map[string]bool{}}
	pl := &IncrementalPipeline{PipelineSpec{source: ms, sink: sink, batchSize: 1 + h.Choice("batchSize", 2)}}
	j := &job{id: "ms2-job", title: "ms2-job", pipeline: pl, runner: vRunner(hub, 1, 1)}
	runToFixpoint := func() []string {
		sink.delivered = nil
		last := ""
		for r := 0; r < 6; r++ {
			_, err := pl.sync(j, context.Background())
			h.Assert(err == nil, "run succeeds")
			st := &SyncJobState{}
			_ = hub.Store.GetObject(server.JobDataIndex, "ms2-job", st)
			if st.ContinuationToken == last {
				break
			}
			last = st.ContinuationToken
		}
		var ids []string
		for _, e := range sink.delivered {
			ids = append(ids, e.ID)
		}
		sort.Strings(ids)
		return ids
	}
	_ = runToFixpoint()
	r1, r2 := pick("newP1"), pick("newP2")
	h.Assert(D.StoreEntities([]*server.Entity{mkD("d1", r1, r2)}) == nil, "change D")
	emitted := runToFixpoint()
	for _, m := range []string{r1, r2} {
		if m != "" {
			h.Assert(vContains(emitted, m), "a main entity the changed dependency entity now points to (through either dependency) is emitted :: expected="+m+" p1="+r1+" p2="+r2+" emitted="+vJoinS(emitted))
		}
	}
	// at the previous run d1 pointed to m1 through p1 and to m2 through p2: whether a link stays
	// or is removed, its old target is connected (now, or as things stood then) and must be emitted
	h.Assert(vContains(emitted, "ns0:m1"), "the previous target of the first dependency's link is emitted :: p1="+r1+" p2="+r2+" emitted="+vJoinS(emitted))
	h.Assert(vContains(emitted, "ns0:m2"), "the previous target of the second dependency's link (same dependency dataset) is emitted :: p1="+r1+" p2="+r2+" emitted="+vJoinS(emitted))
	h.Observe("emitted", vJoinS(emitted))
}

// VerifC18FullSyncWindow: a dependency entity changes WHILE the full sync of a
// MultiSource job is running, after the sink took the k-th page. The full sync
// hands its pages out as the dependency stood when each was read, so the change
// must not be lost: every main entity connected to the changed dependency
// entity is delivered after the change — by a later page of the same full sync
// or by the incremental runs that follow it.
func VerifC18FullSyncWindow(h *verifh.H) {
	hub := server.VerifNewHub(h)
	M, _ := hub.Dsm.CreateDataset("M", nil)
	D, _ := hub.Dsm.CreateDataset("D", nil)
	inverse := h.Choice("inverse", 2) == 1 // true: m -p1-> d; false: d -p1-> m
	mk := func(id, tag, ref string) *server.Entity {
		e := server.NewEntity(id, 0)
		e.Properties["ns0:tag"] = tag
		if ref != "" {
			e.References["ns0:p1"] = ref
		}
		return e
	}
	mIDs := []string{"ns0:m1", "ns0:m2"}
	pickM := func(name string) string { return mIDs[h.Choice(name, 2)] }
	// initial state: both main entities; d1 exists and is linked to a main entity (so that the
	// predicate exists in the store and the dependency dataset has a history before the full sync)
	link0 := pickM("link0")
	if inverse {
		for _, m := range mIDs {
			ref := ""
			if m == link0 {
				ref = "ns0:d1"
			}
			h.Assert(M.StoreEntities([]*server.Entity{mk(m, "m0", ref)}) == nil, "write M")
		}
		h.Assert(D.StoreEntities([]*server.Entity{mk("ns0:d1", "d0", "")}) == nil, "write D")
	} else {
		h.Assert(M.StoreEntities([]*server.Entity{mk("ns0:m1", "m0", ""), mk("ns0:m2", "m0", "")}) == nil, "write M")
		h.Assert(D.StoreEntities([]*server.Entity{mk("ns0:d1", "d0", link0)}) == nil, "write D")
	}
	ms := &source.MultiSource{DatasetName: "M", Store: hub.Store, DatasetManager: hub.Dsm, Logger: hub.Env.Logger}
	ms.Dependencies = []source.Dependency{{Dataset: "D", Joins: []source.Join{{Dataset: "M", Predicate: "ns0:p1", Inverse: inverse}}}}
	sink := &vSink{failBatch: -1, failing: map[string]bool{}}
	spec := PipelineSpec{source: ms, sink: sink, batchSize: 1}
	runner := vRunner(hub, 1, 1)
	// the change: d1 is rewritten (content, and for d -> m possibly its link) after page `at`
	link1 := link0
	if !inverse {
		link1 = pickM("link1")
	}
	at := 1 + h.Choice("at", 2)
	mark := -1
	sink.killAt = at
	sink.kill = func() {
		mark = len(sink.delivered)
		ref := ""
		if !inverse {
			ref = link1
		}
		h.Assert(D.StoreEntities([]*server.Entity{mk("ns0:d1", "d1", ref)}) == nil, "change D")
	}
	full := &FullSyncPipeline{spec}
	jf := &job{id: "msw-job", title: "msw-job", pipeline: full, runner: runner}
	_, err := full.sync(jf, context.Background())
	h.Assert(err == nil, "full sync succeeds")
	h.Assert(mark >= 0, "the change fell inside the full sync")
	incr := &IncrementalPipeline{spec}
	ji := &job{id: "msw-job", title: "msw-job", pipeline: incr, runner: runner}
	last := ""
	for r := 0; r < 6; r++ {
		_, err := incr.sync(ji, context.Background())
		h.Assert(err == nil, "incremental run succeeds")
		st := &SyncJobState{}
		_ = hub.Store.GetObject(server.JobDataIndex, "msw-job", st)
		if st.ContinuationToken == last {
			break
		}
		last = st.ContinuationToken
	}
	var after []string
	if mark >= 0 {
		for _, e := range sink.delivered[mark:] {
			after = append(after, e.ID)
		}
	}
	sort.Strings(after)
	// connected main entities: d1's link as it is now (and, for d -> m, as it stood before)
	h.Assert(vContains(after, link1), "a main entity connected to the dependency entity that changed during the full sync is delivered after the change :: expected="+link1+" after="+vJoinS(after))
	if !inverse {
		h.Assert(vContains(after, link0), "the previous target of the rewired link is delivered after the change :: expected="+link0+" after="+vJoinS(after))
	}
	h.Observe("after", vJoinS(after))
}

// VerifC18DeepJoin: a dependency with a join path of three hops whose middle
// hops run inside the main dataset over a predicate that may be
// self-referential or cyclic, so that one entity can be reached on several
// levels of the walk. Graph: d1 in D; m1, m2 in M, each with p1 ∈ {none, d1}
// and p2 ∈ {none, m1, m2, [m1,m2]}; d1 itself may point at m1 with p1. Every
// hop is followed outgoing or incoming (drawn per hop). After a change to d1
// every main entity at the end of a three-hop walk from d1 — computed here by
// walking the drawn graph level by level, keeping an entity on every level it
// is reached on — is emitted.
func VerifC18DeepJoin(h *verifh.H) {
	hub := server.VerifNewHub(h)
	M, _ := hub.Dsm.CreateDataset("M", nil)
	D, _ := hub.Dsm.CreateDataset("D", nil)
	mIDs := []string{"ns0:m1", "ns0:m2"}
	// outgoing references of every entity: refs[id][pred] = targets
	refs := map[string]map[string][]string{}
	mk := func(id, tag string) *server.Entity {
		e := server.NewEntity(id, 0)
		e.Properties["ns0:tag"] = tag
		for p, ts := range refs[id] {
			if len(ts) == 1 {
				e.References[p] = ts[0]
			} else if len(ts) > 1 {
				arr := make([]interface{}, len(ts))
				for k, t := range ts {
					arr[k] = t
				}
				e.References[p] = arr
			}
		}
		return e
	}
	for _, m := range mIDs {
		refs[m] = map[string][]string{}
		if h.Choice("p1", 2) == 1 {
			refs[m]["ns0:p1"] = []string{"ns0:d1"}
		}
		switch h.Choice("p2", 4) {
		case 1:
			refs[m]["ns0:p2"] = []string{"ns0:m1"}
		case 2:
			refs[m]["ns0:p2"] = []string{"ns0:m2"}
		case 3:
			refs[m]["ns0:p2"] = []string{"ns0:m1", "ns0:m2"}
		}
	}
	refs["ns0:d1"] = map[string][]string{}
	if h.Choice("d1p1", 2) == 1 {
		refs["ns0:d1"]["ns0:p1"] = []string{"ns0:m1"}
	}
	h.Assert(M.StoreEntities([]*server.Entity{mk("ns0:m1", "m0"), mk("ns0:m2", "m0")}) == nil, "write M")
	h.Assert(D.StoreEntities([]*server.Entity{mk("ns0:d1", "d0")}) == nil, "write D")
	inv := []bool{h.Choice("inv0", 2) == 1, h.Choice("inv1", 2) == 1, h.Choice("inv2", 2) == 1}
	preds := []string{"ns0:p1", "ns0:p2", "ns0:p2"}
	ms := &source.MultiSource{DatasetName: "M", Store: hub.Store, DatasetManager: hub.Dsm, Logger: hub.Env.Logger}
	ms.Dependencies = []source.Dependency{{Dataset: "D", Joins: []source.Join{
		{Dataset: "M", Predicate: preds[0], Inverse: inv[0]},
		{Dataset: "M", Predicate: preds[1], Inverse: inv[1]},
		{Dataset: "M", Predicate: preds[2], Inverse: inv[2]},
	}}}
	sink := &vSink{failBatch: -1, failing: map[string]bool{}}
	pl := &IncrementalPipeline{PipelineSpec{source: ms, sink: sink, batchSize: 1 + h.Choice("batchSize", 2)}}
	j := &job{id: "ms-job", title: "ms-job", pipeline: pl, runner: vRunner(hub, 1, 1)}
	runToFixpoint := func() []string {
		sink.delivered = nil
		last := ""
		for r := 0; r < 7; r++ {
			_, err := pl.sync(j, context.Background())
			h.Assert(err == nil, "run succeeds")
			st := &SyncJobState{}
			_ = hub.Store.GetObject(server.JobDataIndex, "ms-job", st)
			if st.ContinuationToken == last {
				break
			}
			last = st.ContinuationToken
		}
		var ids []string
		for _, e := range sink.delivered {
			ids = append(ids, e.ID)
		}
		sort.Strings(ids)
		return ids
	}
	_ = runToFixpoint()
	// d1 changes (content only; its links stay)
	h.Assert(D.StoreEntities([]*server.Entity{mk("ns0:d1", "d1")}) == nil, "change D")
	emitted := runToFixpoint()
	// oracle: walk the drawn graph level by level
	all := []string{"ns0:d1", "ns0:m1", "ns0:m2"}
	level := map[string]bool{"ns0:d1": true}
	for k := 0; k < 3; k++ {
		next := map[string]bool{}
		for x := range level {
			if inv[k] {
				for _, y := range all {
					if vContains(refs[y][preds[k]], x) {
						next[y] = true
					}
				}
			} else {
				for _, y := range refs[x][preds[k]] {
					next[y] = true
				}
			}
		}
		level = next
	}
	for m := range level {
		if m == "ns0:d1" {
			continue // not a main dataset entity
		}
		h.Assert(vContains(emitted, m), "a main entity at the end of the join path from the changed dependency entity is emitted :: inv="+vB3(inv)+" expected="+m+" emitted="+vJoinS(emitted))
	}
	for _, id := range emitted {
		h.Assert(id == "ns0:m1" || id == "ns0:m2", "emitted entities come from the main dataset :: "+id)
	}
	h.Observe("emitted", vJoinS(emitted))
}

func vB3(b []bool) string {
	s := ""
	for _, x := range b {
		if x {
			s += "i"
		} else {
			s += "o"
		}
	}
	return s
}

// VerifC18LivingSource: ONE MultiSource object, configured through
// ParseDependencies as a scheduled job's is, lives across runs while the
// datasets under it are rebuilt: the main dataset (or the dependency dataset)
// is deleted, re-created under the same name, refilled, and the job reset.
// After the rebuilt job has caught up, a change to the dependency entity still
// re-emits every main entity joined to it, from the dataset now registered
// under the main name.
func VerifC18LivingSource(h *verifh.H) {
	hub := server.VerifNewHub(h)
	M, _ := hub.Dsm.CreateDataset("M", nil)
	D, _ := hub.Dsm.CreateDataset("D", nil)
	inverse := h.Choice("inverse", 2) == 1 // true: m -p1-> d; false: d -p1-> m
	mk := func(id, tag, ref string) *server.Entity {
		e := server.NewEntity(id, 0)
		e.Properties["ns0:tag"] = tag
		if ref != "" {
			e.References["ns0:p1"] = ref
		}
		return e
	}
	fill := func(tag string) {
		mref, dref := "", ""
		if inverse {
			mref = "ns0:d1"
		} else {
			dref = "ns0:m1"
		}
		h.Assert(M.StoreEntities([]*server.Entity{mk("ns0:m1", tag, mref), mk("ns0:m2", tag, "")}) == nil, "write M")
		h.Assert(D.StoreEntities([]*server.Entity{mk("ns0:d1", tag, dref)}) == nil, "write D")
	}
	fill("t0")
	ms := &source.MultiSource{DatasetName: "M", Store: hub.Store, DatasetManager: hub.Dsm, Logger: hub.Env.Logger}
	deps := []interface{}{map[string]interface{}{"dataset": "D", "joins": []interface{}{map[string]interface{}{"dataset": "M", "predicate": "ns0:p1", "inverse": inverse}}}}
	h.Assert(ms.ParseDependencies(deps, nil) == nil, "dependencies parse")
	sink := &vSink{failBatch: -1, failing: map[string]bool{}}
	pl := &IncrementalPipeline{PipelineSpec{source: ms, sink: sink, batchSize: 2}}
	j := &job{id: "ms-job", title: "ms-job", pipeline: pl, runner: vRunner(hub, 1, 1)}
	runToFixpoint := func() []string {
		sink.delivered = nil
		last := ""
		for r := 0; r < 7; r++ {
			_, err := pl.sync(j, context.Background())
			h.Assert(err == nil, "run succeeds")
			st := &SyncJobState{}
			_ = hub.Store.GetObject(server.JobDataIndex, "ms-job", st)
			if st.ContinuationToken == last {
				break
			}
			last = st.ContinuationToken
		}
		var ids []string
		for _, e := range sink.delivered {
			ids = append(ids, e.ID)
		}
		sort.Strings(ids)
		return ids
	}
	first := runToFixpoint()
	h.Assert(vContains(first, "ns0:m1") && vContains(first, "ns0:m2"), "the initial load delivers the main entities")
	// a dataset under the living source is rebuilt
	switch h.Choice("rebuild", 3) {
	case 1: // the main dataset
		h.Assert(hub.Dsm.DeleteDataset("M") == nil, "delete M")
		M, _ = hub.Dsm.CreateDataset("M", nil)
		h.Assert(hub.Store.DeleteObject(server.JobDataIndex, "ms-job") == nil, "job reset")
		fill("t1")
		_ = runToFixpoint()
	case 2: // the dependency dataset
		h.Assert(hub.Dsm.DeleteDataset("D") == nil, "delete D")
		D, _ = hub.Dsm.CreateDataset("D", nil)
		h.Assert(hub.Store.DeleteObject(server.JobDataIndex, "ms-job") == nil, "job reset")
		fill("t1")
		_ = runToFixpoint()
	}
	// the dependency entity changes (content only)
	dref := ""
	if !inverse {
		dref = "ns0:m1"
	}
	h.Assert(D.StoreEntities([]*server.Entity{mk("ns0:d1", "changed", dref)}) == nil, "change D")
	emitted := runToFixpoint()
	h.Assert(vContains(emitted, "ns0:m1"), "after a dataset under a living source was rebuilt, a dependency change still re-emits the joined main entity :: emitted="+vJoinS(emitted))
	for _, id := range emitted {
		h.Assert(id == "ns0:m1" || id == "ns0:m2", "emitted entities come from the main dataset :: "+id)
	}
	h.Observe("emitted", vJoinS(emitted))
}

// VerifC18WriteDuringRun: a MultiSource job with TWO dependency datasets. While
// a run is delivering the batch caused by a change in the first dependency, a
// client writes to the second dependency dataset — a new entity linked to a
// main entity that is otherwise untouched. Whatever the run made of that write,
// by the time the job has caught up the main entity it points to has been
// emitted after the write: a dependency token never moves past a change whose
// joins were evaluated as of an instant before it.
func VerifC18WriteDuringRun(h *verifh.H) {
	hub := server.VerifNewHub(h)
	M, _ := hub.Dsm.CreateDataset("M", nil)
	D1, _ := hub.Dsm.CreateDataset("D1", nil)
	D2, _ := hub.Dsm.CreateDataset("D2", nil)
	inverse := h.Choice("inverse", 2) == 1 // true: m -p1-> d; false: d -p1-> m
	mk := func(id, tag, ref string) *server.Entity {
		e := server.NewEntity(id, 0)
		e.Properties["ns0:tag"] = tag
		if ref != "" {
			e.References["ns0:p1"] = ref
		}
		return e
	}
	// m1 is joined to a (in D1), m2 will be joined to b (in D2)
	if inverse {
		h.Assert(M.StoreEntities([]*server.Entity{mk("ns0:m1", "t0", "ns0:a"), mk("ns0:m2", "t0", "ns0:b")}) == nil, "write M")
		h.Assert(D1.StoreEntities([]*server.Entity{mk("ns0:a", "t0", "")}) == nil, "write D1")
	} else {
		h.Assert(M.StoreEntities([]*server.Entity{mk("ns0:m1", "t0", ""), mk("ns0:m2", "t0", "")}) == nil, "write M")
		h.Assert(D1.StoreEntities([]*server.Entity{mk("ns0:a", "t0", "ns0:m1")}) == nil, "write D1")
	}
	ms := &source.MultiSource{DatasetName: "M", Store: hub.Store, DatasetManager: hub.Dsm, Logger: hub.Env.Logger}
	join := []source.Join{{Dataset: "M", Predicate: "ns0:p1", Inverse: inverse}}
	first, second := "D1", "D2"
	if h.Choice("order", 2) == 1 {
		first, second = "D2", "D1"
	}
	ms.Dependencies = []source.Dependency{{Dataset: first, Joins: join}, {Dataset: second, Joins: join}}
	sink := &vSink{failBatch: -1, failing: map[string]bool{}}
	pl := &IncrementalPipeline{PipelineSpec{source: ms, sink: sink, batchSize: 2}}
	j := &job{id: "ms-job", title: "ms-job", pipeline: pl, runner: vRunner(hub, 1, 1)}
	var afterWrite []string
	written := false
	runToFixpoint := func() {
		last := ""
		for r := 0; r < 7; r++ {
			n0 := len(sink.delivered)
			_, err := pl.sync(j, context.Background())
			h.Assert(err == nil, "run succeeds")
			if written {
				for _, e := range sink.delivered[n0:] {
					afterWrite = append(afterWrite, e.ID)
				}
			}
			st := &SyncJobState{}
			_ = hub.Store.GetObject(server.JobDataIndex, "ms-job", st)
			if st.ContinuationToken == last {
				break
			}
			last = st.ContinuationToken
		}
	}
	runToFixpoint() // initial load
	// a changes (so the D1 dependency delivers m1); while that batch is being delivered b is written to D2
	if inverse {
		h.Assert(D1.StoreEntities([]*server.Entity{mk("ns0:a", "t1", "")}) == nil, "change D1")
	} else {
		h.Assert(D1.StoreEntities([]*server.Entity{mk("ns0:a", "t1", "ns0:m1")}) == nil, "change D1")
	}
	sink.killAt = sink.calls + 1
	sink.kill = func() {
		if written {
			return
		}
		written = true
		ref := "ns0:m2"
		if inverse {
			ref = ""
		}
		h.Assert(D2.StoreEntities([]*server.Entity{mk("ns0:b", "new", ref)}) == nil, "write D2 during the run")
	}
	runToFixpoint()
	h.Assert(written, "the write happened during a run")
	// entities delivered by the very call that triggered the write do not count as "after" it
	h.Assert(vContains(afterWrite, "ns0:m2"), "a main entity joined to a dependency entity written during a run is emitted by the time the job has caught up :: after the write="+vJoinS(afterWrite))
	h.Observe("after", vJoinS(afterWrite))
}

// VerifC18FailedInitialLoad: a living incremental MultiSource job (one
// pipeline and source object for all runs, as a scheduled job has) whose very
// first run — the initial load — fails at its first, second or third sink
// call, or not at all. The following runs succeed and reach stable tokens.
// Then an entity of the dependency dataset that a main entity is joined to
// changes: by the time the tokens are stable again that main entity has been
// emitted after the change, whatever happened to the initial load.
func VerifC18FailedInitialLoad(h *verifh.H) {
	hub := server.VerifNewHub(h)
	M, _ := hub.Dsm.CreateDataset("M", nil)
	D, _ := hub.Dsm.CreateDataset("D", nil)
	mk := func(id, tag, ref string) *server.Entity {
		e := server.NewEntity(id, 0)
		e.Properties["ns0:tag"] = tag
		if ref != "" {
			e.References["ns0:p1"] = ref
		}
		return e
	}
	// three changes in the main dataset (three writes), m1 -p1-> a
	h.Assert(M.StoreEntities([]*server.Entity{mk("ns0:m1", "t0", "ns0:a")}) == nil, "write M")
	h.Assert(M.StoreEntities([]*server.Entity{mk("ns0:m2", "t0", "")}) == nil, "write M")
	h.Assert(M.StoreEntities([]*server.Entity{mk("ns0:m3", "t0", "")}) == nil, "write M")
	h.Assert(D.StoreEntities([]*server.Entity{mk("ns0:a", "t0", "")}) == nil, "write D")
	ms := &source.MultiSource{DatasetName: "M", Store: hub.Store, DatasetManager: hub.Dsm, Logger: hub.Env.Logger}
	ms.Dependencies = []source.Dependency{{Dataset: "D", Joins: []source.Join{{Dataset: "M", Predicate: "ns0:p1", Inverse: true}}}}
	sink := &vSink{failBatch: h.Choice("failCall", 4) - 1, failing: map[string]bool{}}
	pl := &IncrementalPipeline{PipelineSpec{source: ms, sink: sink, batchSize: 1 + h.Choice("batchSize", 2)}}
	j := &job{id: "ms-job", title: "ms-job", pipeline: pl, runner: vRunner(hub, 1, 1)}
	// the initial load (may fail)
	_, _ = pl.sync(j, context.Background())
	sink.failBatch = -1
	var after []string
	changed := false
	runToFixpoint := func() {
		last := "?"
		for r := 0; r < 8; r++ {
			n0 := len(sink.delivered)
			_, err := pl.sync(j, context.Background())
			h.Assert(err == nil, "later runs succeed")
			if changed {
				for _, e := range sink.delivered[n0:] {
					after = append(after, e.ID)
				}
			}
			st := &SyncJobState{}
			_ = hub.Store.GetObject(server.JobDataIndex, "ms-job", st)
			if st.ContinuationToken == last {
				break
			}
			last = st.ContinuationToken
		}
	}
	runToFixpoint()
	for _, id := range []string{"ns0:m1", "ns0:m2", "ns0:m3"} {
		found := false
		for _, e := range sink.delivered {
			if e.ID == id {
				found = true
			}
		}
		h.Assert(found, "every main entity has been emitted once the job has caught up :: "+id)
	}
	changed = true
	h.Assert(D.StoreEntities([]*server.Entity{mk("ns0:a", "t1", "")}) == nil, "dependency entity changes")
	runToFixpoint()
	h.Assert(vContains(after, "ns0:m1"), "after a change to a dependency entity the main entity joined to it is emitted by the time the job has caught up, also when the initial load had failed :: after the change="+vJoinS(after))
	h.Observe("after", vJoinS(after))
}
